"""Command line: python -m gsverif check <Cnn> [--tier quick|thorough] [--repo DIR]"""
from __future__ import annotations

import argparse
import importlib
import json
import os
import sys
import traceback

from .model import AnalysisError
from .report import Check, analysis_error


def run_check(prop, tier, repo):
    try:
        mod = importlib.import_module(f"gsverif.rules.{prop.lower()}")
    except ModuleNotFoundError:
        print(f"ANALYSIS-ERROR: no check implemented for {prop}")
        return 2
    check = Check(prop, tier, repo)
    try:
        mod.run(check, repo, tier)
        # every obligation is decided on the unchanged tree (confirmed); an obligation the analysis can no longer
        # decide is a construct it does not understand: fail closed, never pass silently
        from . import driver
        if driver.UNABSTRACTED:
            check.floor_failures.append("the analysed object keeps state the analysis cannot abstract: " + "; ".join(sorted(driver.UNABSTRACTED))
                                        + " -- it was left at its constructor value, so a clean result would not mean anything")
        und = [w for r in check.rules.values() for w in r.get("undecided_list", [])]
        if und and not check.findings:
            check.floor_failures.append(f"{sum(r['undecided'] for r in check.rules.values())} obligation(s) could not be decided, e.g. {und[0][:200]}")
        if check.floor_failures and not check.findings:
            return analysis_error(prop, tier, "; ".join(check.floor_failures))
        for m in check.floor_failures:
            print(f"NOTE: instance floor not met (reported violations take precedence): {m}")
        return check.finish()
    except AnalysisError as e:
        return analysis_error(prop, tier, str(e))
    except Exception as e:  # noqa: BLE001  -- a traceback must never look like a violation
        traceback.print_exc()
        return analysis_error(prop, tier, f"internal error {type(e).__name__}: {e}")


def main(argv=None):
    ap = argparse.ArgumentParser(prog="gsverif")
    sub = ap.add_subparsers(dest="cmd", required=True)
    c = sub.add_parser("check")
    c.add_argument("prop")
    c.add_argument("--tier", default=os.environ.get("VERIF_TIER") or "quick", choices=["quick", "thorough"])
    c.add_argument("--repo", default=os.environ.get("GSVERIF_REPO", "/repo"))
    r = sub.add_parser("replay")
    r.add_argument("path")
    r.add_argument("--repo", default=os.environ.get("GSVERIF_REPO", "/repo"))
    s = sub.add_parser("selftest")
    s.add_argument("props", nargs="*")
    s.add_argument("--repo", default=os.environ.get("GSVERIF_REPO", "/repo"))
    s.add_argument("--jobs", type=int, default=16)
    a = ap.parse_args(argv)
    if a.cmd == "check":
        return run_check(a.prop.upper(), a.tier, a.repo)
    if a.cmd == "replay":
        data = json.loads(open(a.path).read())
        print(f"replaying {data['finding']['key']} on {a.repo}")
        print(json.dumps(data["finding"], indent=1))
        rc = run_check(data["property"], data.get("tier", "quick"), a.repo)
        return rc
    if a.cmd == "selftest":
        from . import selftest
        return selftest.main(a.props, a.repo, a.jobs)
    return 2


if __name__ == "__main__":
    sys.exit(main())
