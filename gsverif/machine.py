"""An RS274 machine model over symbolic values (the independent interpreter of
G0/G1/G90/G91/G92/G28/G38.x that properties C01 and C04 speak about).

It executes the *delivered statements* of one abstract path.  Coordinates are
polynomials of the path's symbols or UNKNOWN; nothing here looks at how the
builder computed them.
"""
from __future__ import annotations

from .poly import Poly
from .values import *
from .traceutil import words

UNKNOWN = "unknown"
MOVE = {"G0", "G1"}
PROBE = {"G38.2", "G38.3", "G38.4", "G38.5"}


class Machine:
    def __init__(self, pos, mode):
        self.pos = dict(pos)        # axis -> Poly | UNKNOWN
        self.mode = mode            # 'ABSOLUTE' | 'RELATIVE' | None (not known)
        self.notes = []
        self.log = []

    def copy(self):
        m = Machine(self.pos, self.mode)
        return m

    def execute(self, stmt, facts):
        codes = stmt.codes()
        ws = {}
        for letter, value, status, how in words(stmt, facts, letters=("X", "Y", "Z")):
            if letter in "XYZ" and status == "present":
                ws[letter.lower()] = value
        for c in codes:
            if c == "G90":
                self.mode = "ABSOLUTE"
            elif c == "G91":
                self.mode = "RELATIVE"
        self.log.append((codes, {a: (v.p.key() if isinstance(v, Num) else repr(v)) for a, v in ws.items()}))
        motion = [c for c in codes if c in MOVE]
        if motion:
            for a, v in ws.items():
                p = _poly(v)
                if p is None:
                    self.pos[a] = UNKNOWN
                    self.notes.append(f"{a.upper()} word of {codes} is not a number: {v!r}")
                    continue
                if self.mode == "ABSOLUTE":
                    self.pos[a] = p
                elif self.mode == "RELATIVE":
                    self.pos[a] = UNKNOWN if self.pos[a] is UNKNOWN else self.pos[a] + p
                else:
                    self.pos[a] = UNKNOWN
                    self.notes.append(f"{codes} delivered while the machine's distance mode is not determined")
        elif any(c in PROBE for c in codes):
            # the probe stops somewhere on the way: every axis it moves ends at a position
            # that no value of the program denotes (a fresh constant)
            for a in ws:
                self.pos[a] = Poly.sym(f"probe-stop.{a}")
        elif "G92" in codes:
            for a, v in ws.items():
                p = _poly(v)
                self.pos[a] = p if p is not None else UNKNOWN
        elif "G28" in codes:
            # homing: the named axes (all when none is named) end at the endstops
            for a in (ws or {"x": 0, "y": 0, "z": 0}):
                self.pos[a] = Poly.sym(f"home.{a}")


def _poly(v):
    if isinstance(v, Num):
        return v.p
    if isinstance(v, Const) and isinstance(v.v, (int, float)) and not isinstance(v.v, bool):
        try:
            return Poly.const(v.v)
        except ValueError:
            return None
    return None
