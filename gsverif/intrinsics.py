"""Models of what lies outside the interpreted fragment.

* Python builtins and the methods of builtin containers / strings;
* numpy / math / copy / logging calls: effect-free value producers that give
  canonical uninterpreted applications (so equal expressions stay equal);
* the three leaf components that are used through a contract (DESIGN 3.8):
  ``DefaultFormatter.number`` / ``parameters`` and ``ParamsDict``.  Their
  contracts are verified on the source by dedicated rules (C08, C07).
"""
from __future__ import annotations

import ast
import math

from .poly import Poly, app, even_app
from .values import *


def install(I):
    t = I.intrinsics
    for name in ("len", "isinstance", "str", "float", "int", "abs", "max", "min", "bool", "bytes", "dict", "list",
                 "tuple", "set", "zip", "enumerate", "map", "range", "sorted", "next", "iter", "hasattr", "getattr",
                 "type", "any", "all", "print", "round", "repr", "id", "sum", "reversed", "frozenset", "callable",
                 "setattr", "issubclass", "object"):
        t[name] = globals()["b_" + name]
    t["ord"] = b_ord
    t["re.compile"] = b_re_compile
    t["re.escape"] = b_re_escape
    for _n in ("match", "search", "fullmatch", "sub", "findall"):
        t[f"re.{_n}"] = _re_function(_n)
    t["unicodedata.normalize"] = b_unicode_normalize
    install_functional(t)
    t["dict.fromkeys"] = b_dict_fromkeys
    t["str.maketrans"] = b_str_maketrans
    t["copy.deepcopy"] = b_deepcopy
    t["copy.copy"] = b_shallowcopy
    for name in ("hypot", "arctan2", "atan2", "cos", "sin", "sqrt", "radians", "ceil", "log2", "floor", "copysign", "tan", "degrees", "exp", "log"):
        for mod in ("numpy", "math"):
            t[f"{mod}.{name}"] = make_math(name)
    t["numpy.isfinite"] = b_isfinite
    t["math.isfinite"] = b_isfinite
    t["numpy.isnan"] = b_isnan
    t["math.isnan"] = b_isnan
    t["numpy.isclose"] = b_isclose
    t["math.isclose"] = b_isclose
    t["math.pi"] = None
    t["numpy.format_float_positional"] = b_format_float
    t["numpy.eye"] = n_eye
    t["numpy.identity"] = n_eye
    t["numpy.array"] = n_array
    t["numpy.asarray"] = n_array
    t["numpy.matmul"] = n_matmul
    t["numpy.dot"] = n_matmul
    t["numpy.linalg.multi_dot"] = n_multi_dot
    t["numpy.column_stack"] = n_column_stack
    t["numpy.linspace"] = n_linspace
    t["numpy.diff"] = n_diff
    t["numpy.linalg.norm"] = n_norm
    t["numpy.ones"] = n_ones
    t["numpy.fromiter"] = n_fromiter
    t["numpy.vstack"] = n_vstack
    t["scipy.linalg.inv"] = n_inv
    t["numpy.linalg.inv"] = n_inv
    t["DefaultFormatter.number"] = f_number
    t["DefaultFormatter.parameters"] = f_parameters
    t["ParamsDict"] = c_paramsdict
    t["Transform.apply"] = x_apply
    t["Transform.reverse"] = x_reverse
    t["typeguard.typechecked"] = lambda I, fv, a, k, n: a[0] if a else fv
    t["contextlib.contextmanager"] = lambda I, fv, a, k, n: a[0] if a else fv
    t["logging.getLogger"] = lambda I, fv, a, k, n: Unk("logger", "logger")
    del t["math.pi"]


# ------------------------------------------------------------------ functools / itertools / operator
def install_functional(t):
    def partial(I, fv, args, kwargs, node):
        return PartialV("partial", args[0], tuple(args[1:]), tuple(sorted(_kwclean(kwargs).items())))

    def itemgetter(I, fv, args, kwargs, node):
        return PartialV("itemgetter", None, tuple(args), ())

    def attrgetter(I, fv, args, kwargs, node):
        if any(I.strval(a) is None for a in args):
            return I.ext_call(fv, args, kwargs, node)
        return PartialV("attrgetter", None, tuple(args), ())

    def methodcaller(I, fv, args, kwargs, node):
        if not args or I.strval(args[0]) is None:
            return I.ext_call(fv, args, kwargs, node)
        return PartialV("methodcaller", args[0], tuple(args[1:]), tuple(sorted(_kwclean(kwargs).items())))

    def chain(I, fv, args, kwargs, node):
        out = []
        for a in args:
            out.extend(I.iterate(a, node))
        return IterV(tuple(out))

    def chain_from_iterable(I, fv, args, kwargs, node):
        out = []
        for a in I.iterate(args[0], node):
            out.extend(I.iterate(a, node))
        return IterV(tuple(out))

    def pairwise(I, fv, args, kwargs, node):
        items = I.iterate(args[0], node)
        return IterV(tuple(Tup((a, b)) for a, b in zip(items, items[1:])))

    def islice(I, fv, args, kwargs, node):
        if isinstance(I.force(args[0]), (Unk, Str)):
            return I.ext_call(fv, args, kwargs, node)
        items = I.iterate(args[0], node)
        bounds = []
        for a in args[1:]:
            a = I.force(a)
            if isinstance(a, Const) and a.v is None:
                bounds.append(None)
            elif I.const_int(a) is not None:
                bounds.append(I.const_int(a))
            else:
                return I.ext_call(fv, args, kwargs, node)
        return IterV(tuple(items[slice(*bounds)]))

    def accumulate(I, fv, args, kwargs, node):
        if isinstance(I.force(args[0]), (Unk, Str)):
            return I.ext_call(fv, args, kwargs, node)
        items = I.iterate(args[0], node)
        kw = _kwclean(kwargs)
        func = args[1] if len(args) > 1 else kw.get("func")
        if func is not None and isinstance(I.force(func), Const) and I.force(func).v is None:
            func = None
        out = []
        initial = kw.get("initial")
        if initial is not None and not (isinstance(I.force(initial), Const) and I.force(initial).v is None):
            out.append(initial)
        for x in items:
            if not out:
                out.append(x)
            elif func is None:
                out.append(I.binop(out[-1], ast.Add(), x, node))
            else:
                out.append(I.call(func, [out[-1], x], {}, node))
        return IterV(tuple(out))

    def starmap(I, fv, args, kwargs, node):
        if isinstance(I.force(args[1]), (Unk, Str)):
            return I.ext_call(fv, args, kwargs, node)
        return IterV(tuple(I.call(args[0], I.iterate(x, node), {}, node) for x in I.iterate(args[1], node)))

    def reduce(I, fv, args, kwargs, node):
        if len(args) < 2 or isinstance(I.force(args[1]), (Unk, Str)):
            return I.ext_call(fv, args, kwargs, node)       # a fold over a sequence of unknown length stays a recorded call
        items = I.iterate(args[1], node)
        if len(args) > 2:
            acc = args[2]
        elif items:
            acc, items = items[0], items[1:]
        else:
            I.raise_("TypeError", node, note="reduce() of empty iterable with no initial value")
        for x in items:
            acc = I.call(args[0], [acc, x], {}, node)
        return acc

    def binary(op):
        return lambda I, fv, args, kwargs, node: I.binop(args[0], op, args[1], node)

    def comparison(op):
        return lambda I, fv, args, kwargs, node: Const(I.compare(args[0], op, args[1], node))

    def neg(I, fv, args, kwargs, node):
        return I.binop(Num(Poly.const(0), True), ast.Sub(), args[0], node)

    def lru_cache(I, fv, args, kwargs, node):
        # lru_cache(maxsize=..)(f), lru_cache(128)(f) and the bare decorator form lru_cache(f)
        if args and isinstance(I.force(args[0]), (FuncV, Closure, PartialV, MemoV, BoundBuiltin, ExtV, ClassV)):
            return MemoV(args[0])
        return ExtV("functools.cache")

    def import_module(I, fv, args, kwargs, node):
        name = I.strval(I.force(args[0])) if args else None
        if name is None or name.startswith(".") or I.P.modules.get(name) is not None:
            return I.ext_call(fv, args, kwargs, node)
        return ExtV(name)                        # a module outside the package, named by a constant

    t["__import__"] = import_module
    t["importlib.import_module"] = import_module
    t["functools.lru_cache"] = lru_cache
    t["functools.cache"] = lambda I, fv, args, kwargs, node: MemoV(args[0]) if args else fv
    t["functools.partial"] = partial
    def exit_stack(I, fv, args, kwargs, node):
        o = AObj(I.exit_stack_class(), {"callbacks": I.alloc(AList([]))}, label="ExitStack")
        return I.alloc(o)

    t["contextlib.ExitStack"] = exit_stack
    t["contextlib.suppress"] = lambda I, fv, args, kwargs, node: PartialV("suppress", None, tuple(args), ())
    t["contextlib.nullcontext"] = lambda I, fv, args, kwargs, node: PartialV("nullcontext", None, tuple(args), ())
    t["functools.reduce"] = reduce
    t["operator.itemgetter"] = itemgetter
    t["operator.attrgetter"] = attrgetter
    t["operator.methodcaller"] = methodcaller
    t["itertools.chain"] = chain
    t["itertools.chain.from_iterable"] = chain_from_iterable
    t["itertools.pairwise"] = pairwise
    t["itertools.islice"] = islice
    t["itertools.accumulate"] = accumulate
    t["itertools.starmap"] = starmap
    for name, op in (("add", ast.Add()), ("sub", ast.Sub()), ("mul", ast.Mult()), ("truediv", ast.Div()), ("matmul", ast.MatMult()),
                     ("floordiv", ast.FloorDiv()), ("mod", ast.Mod()), ("pow", ast.Pow())):
        t[f"operator.{name}"] = binary(op)
    for name, op in (("eq", ast.Eq()), ("ne", ast.NotEq()), ("lt", ast.Lt()), ("le", ast.LtE()), ("gt", ast.Gt()), ("ge", ast.GtE()),
                     ("is_", ast.Is()), ("is_not", ast.IsNot())):
        t[f"operator.{name}"] = comparison(op)
    t["operator.contains"] = lambda I, fv, args, kwargs, node: Const(I.contains(args[0], args[1], node))
    t["operator.not_"] = lambda I, fv, args, kwargs, node: Const(not I.truth(args[0]))
    t["operator.truth"] = lambda I, fv, args, kwargs, node: Const(I.truth(args[0]))
    t["operator.neg"] = neg
    t["operator.getitem"] = lambda I, fv, args, kwargs, node: I.getitem(args[0], args[1], node)


# ------------------------------------------------------------------ helpers
def _num(I, v):
    return I.as_num(v)


def _kwclean(kwargs):
    kw = dict(kwargs)
    kw.pop("**", None)
    return kw


def _list_items(I, v):
    v = I.force(v)
    if isinstance(v, (Tup, NT, ArrV)):
        return list(v.items)
    if isinstance(v, IterV):
        return list(v.items)
    if isinstance(v, Ref):
        o = I.deref(v)
        if isinstance(o, AList) and o.items is not None:
            return list(o.items)
    if isinstance(v, Const) and isinstance(v.v, (tuple, list, str)):
        return [Const(x) for x in v.v]
    return None


from .interp import GenV, IterV, GenCM, AbsRaise, PathAbort  # noqa: E402


# ------------------------------------------------------------------ builtins
def b_len(I, fv, args, kwargs, node):
    v = I.force(args[0])
    if isinstance(v, BV):
        return Num(I.bv_len(v.parts), True)
    items = _list_items(I, v)
    if items is not None:
        return Const(len(items))
    if isinstance(v, Ref):
        o = I.deref(v)
        if isinstance(o, ADict):
            if not o.open:
                return Const(len(o.entries))
            sym = f"len({o.label or v.addr})"
            if o.entries or I.open_nonempty(o):
                I.assume("cmp:Gt:" + sym, True)
                I.assume("cmp:Lt:" + sym, False)
                I.assume("cmp:Eq:" + sym, False)
                I.assume("sign:" + sym, 1)
                return Num(Poly.sym(sym), True)
            return Const(0)
        if isinstance(o, AList):
            if not I.list_nonempty(o):
                return Const(0)
            sym = f"len({o.base})"
            I.assume("cmp:Gt:" + sym, True)
            I.assume("cmp:Lt:" + sym, False)
            I.assume("cmp:Eq:" + sym, False)
            I.assume("sign:" + sym, 1)
            return Num(Poly.sym(sym), True)
        if isinstance(o, AObj):
            f = o.cls.lookup("__len__")
            if f is not None:
                return I.call_function(f, [v], {}, node, dyncls=o.cls)
    s = I.strval(v)
    if s is not None:
        return Const(len(s))
    if isinstance(v, Const) and v.v is None:
        I.raise_("TypeError", node, note="len(None)")
    sv = I.as_str(v)
    if sv is not None:
        sym = f"len({sv!r})"
        if any(isinstance(p, Lit) and p.text for p in sv.parts):
            I.assume("cmp:Gt:" + sym, True)
            I.assume("cmp:Lt:" + sym, False)
            I.assume("cmp:Eq:" + sym, False)
        else:
            I.assume("cmp:Lt:" + sym, False)
        return Num(Poly.sym(sym), True)
    return Num(Poly.sym(f"len({I.tag(v)})"), True)


PY_TYPES = {"int": int, "float": float, "str": str, "bytes": bytes, "bool": bool, "dict": dict, "list": list,
            "tuple": tuple, "set": set, "type": type, "object": object}


def _type_names(I, t):
    """Flatten the second argument of isinstance into class descriptors."""
    t = I.force(t)
    if isinstance(t, Tup):
        out = []
        for x in t.items:
            out += _type_names(I, x)
        return out
    if isinstance(t, ClassV):
        return [("cls", t.ci)]
    if isinstance(t, ExtV):
        return [("ext", t.name.split(".")[-1])]
    return [("unk", I.tag(t))]


def _isinstance1(I, v, kind, what):
    """True / False / None(unknown)."""
    if kind == "unk":
        return None
    if isinstance(v, Const):
        if v.v is None:
            return what == "object" if kind == "ext" else False
        if kind == "ext":
            if what in PY_TYPES:
                return isinstance(v.v, PY_TYPES[what])
            if what in ("Number", "Real", "Complex"):
                return isinstance(v.v, (int, float))
            if what in ("Integral",):
                return isinstance(v.v, int)
            return False
        return False
    if isinstance(v, Num):
        syms = v.p.symbols()
        if syms and all(x.startswith("np32:") for x in syms):
            # a numpy scalar such as np.float32 / np.int64: registered with the numbers ABCs,
            # an instance of numpy's own scalar classes, but neither int nor float
            if kind == "ext":
                return what in ("Number", "Real", "Complex", "object", "number", "generic", "floating", "inexact", "float32")
            return False
        if kind == "ext":
            if what in ("Number", "Real", "Complex", "object"):
                return True
            if what == "int":
                return True if v.is_int else None
            if what == "float":
                return False if v.is_int else None
            if what in ("Integral",):
                return True if v.is_int else None
            if what == "bool":
                return False
            return False
        return False
    if isinstance(v, NT):
        if kind == "cls":
            return I.P.cls(v.cls).is_subclass_of(what.name)
        return what in ("tuple", "object", "Sequence")
    if isinstance(v, Tup):
        return kind == "ext" and what in ("tuple", "object", "Sequence")
    if isinstance(v, Member):
        if kind == "cls":
            return I.P.cls(v.cls).is_subclass_of(what.name)
        return what in ("str", "object", "Enum")
    if isinstance(v, (Str,)):
        return kind == "ext" and what in ("str", "object")
    if isinstance(v, Bytes):
        return kind == "ext" and what in ("bytes", "object")
    if isinstance(v, Ref):
        o = I.deref(v)
        if isinstance(o, AObj):
            if kind == "cls":
                return o.cls.is_subclass_of(what.name)
            return what == "object" or what in o.cls.ext_bases()
        if isinstance(o, ADict):
            if kind == "cls":
                return o.cls is not None and o.cls.is_subclass_of(what.name)
            return what in ("dict", "object", "Mapping")
        if isinstance(o, AList):
            return kind == "ext" and what in (("list", "object", "Sequence") if o.kind == "list" else ("set", "object"))
    if isinstance(v, Unk):
        if v.typ == "str":
            return kind == "ext" and what in ("str", "object")
        if v.typ == "num":
            return kind == "ext" and what in ("Number", "Real", "int", "float", "object")
        if v.typ == "array":
            return kind == "ext" and what in ("ndarray", "object")
        return None
    if isinstance(v, (FuncV, Closure)):
        return kind == "ext" and what in ("object", "Callable")
    if isinstance(v, ExcV):
        if kind == "cls":
            return what.name in I.P.exception_parent_chain(v.cls)
        return what in I.P.exception_parent_chain(v.cls)
    return None


def b_isinstance(I, fv, args, kwargs, node):
    v = I.force(args[0])
    unknown = False
    names = _type_names(I, args[1])
    if isinstance(v, Num) and {("ext", "int"), ("ext", "float")} <= set(n for n in names if n[0] == "ext") \
            and not (v.p.symbols() and all(x.startswith("np32:") for x in v.p.symbols())):
        return TRUE
    for kind, what in names:
        r = _isinstance1(I, v, kind, what)
        if r is True:
            return TRUE
        if r is None:
            unknown = True
    if unknown:
        return Const(I.decide(f"isinstance:{I.tag(v)}:{ast.unparse(node.args[1]) if hasattr(node, 'args') and len(node.args) > 1 else '?'}", [True, False]))
    return FALSE


def b_issubclass(I, fv, args, kwargs, node):
    a, b = I.force(args[0]), I.force(args[1])
    if isinstance(a, ClassV) and isinstance(b, ClassV):
        return Const(a.ci.is_subclass_of(b.ci.name))
    return Const(I.decide(f"issubclass:{I.tag(a)}:{I.tag(b)}", [True, False]))


def b_str(I, fv, args, kwargs, node):
    if not args:
        return Const("")
    v = I.force(args[0])
    if I.as_str(v) is not None:
        return v
    if isinstance(v, Const):
        return Const(str(v.v))
    if isinstance(v, ExcV):
        return I.mkstr([StrOf(v)])
    if isinstance(v, Bytes) and len(args) > 1:
        return v.s
    return I.mkstr([StrOf(v)])


def b_repr(I, fv, args, kwargs, node):
    v = I.force(args[0])
    if isinstance(v, Const):
        return Const(repr(v.v))
    return I.mkstr([StrOf(v, "!r")])


def b_float(I, fv, args, kwargs, node):
    if not args:
        return Const(0.0)
    v = I.force(args[0])
    n = _num(I, v)
    if n is not None:
        return Num(n.p)
    s = I.strval(v)
    if s is not None:
        try:
            return Const(float(s))
        except ValueError:
            I.raise_("ValueError", node, note="float() of a non-numeric string")
    if isinstance(v, Const) and v.v is None:
        I.raise_("TypeError", node, note="float(None)")
    if isinstance(v, (Str,)) or (isinstance(v, Unk) and v.typ == "str"):
        if I.decide(f"floatok:{I.tag(v)}", [True, False]):
            return Num(Poly.sym(f"float({I.tag(v)})"))
        I.raise_("ValueError", node, note="float() of a non-numeric string")
    return Num(Poly.sym(f"float({I.tag(v)})"))


def b_int(I, fv, args, kwargs, node):
    if not args:
        return Const(0)
    v = I.force(args[0])
    n = _num(I, v)
    if n is not None:
        if n.is_int:
            return n
        if n.p.is_const():
            return Const(int(n.p.const_value()))
        r = app("int", n.p)
        _mark_int(I, r)
        return Num(r, True)
    s = I.strval(v)
    if s is not None:
        try:
            return Const(int(s))
        except ValueError:
            I.raise_("ValueError", node, note="int() of a non-numeric string")
    return Num(Poly.sym(f"int({I.tag(v)})"), True)


def b_abs(I, fv, args, kwargs, node):
    n = _num(I, args[0])
    if n is not None:
        if n.p.is_const():
            return Num(Poly.const(abs(n.p.const_value())), n.is_int)
        sm = n.p.single_monomial()
        if sm is not None and len(sm[0]) == 1 and sm[0][0][1] == 1:
            ent = I.apps.get(sm[0][0][0])
            if ent is not None and ent[0] == "copysign" and len(ent[1]) == 2:      # |c * copysign(a, b)| = |c| * |a|
                return Num(even_app("abs", ent[1][0]) * Poly.const(abs(sm[1])), False)
        return Num(even_app("abs", n.p), n.is_int)
    return Unk(f"abs({I.tag(args[0])})")


def _minmax(name):
    def h(I, fv, args, kwargs, node):
        items = args if len(args) > 1 else (_list_items(I, args[0]) or [])
        nums = [_num(I, x) for x in items]
        if nums and all(n is not None for n in nums):
            if all(n.p.is_const() for n in nums):
                f = max if name == "max" else min
                return Num(Poly.const(f(n.p.const_value() for n in nums)), all(n.is_int for n in nums))
            r = app(name, *[n.p for n in nums])
            if all(n.is_int for n in nums):
                _mark_int(I, r)
            return Num(r, all(n.is_int for n in nums))
        return Unk(f"{name}({', '.join(I.tag(x) for x in items)})")
    return h


b_max = _minmax("max")
b_min = _minmax("min")


def b_bool(I, fv, args, kwargs, node):
    return Const(I.truth(args[0])) if args else FALSE


def b_bytes(I, fv, args, kwargs, node):
    if not args:
        return Const(b"")
    v = I.force(args[0])
    enc = I.strval(args[1]) if len(args) > 1 else (I.strval(kwargs["encoding"]) if "encoding" in kwargs else None)
    if isinstance(v, Const) and isinstance(v.v, str) and enc:
        try:
            return Const(v.v.encode(enc))
        except Exception:
            pass
    if I.as_str(v) is not None or (isinstance(v, Unk) and enc):
        _strict_encode(I, v, enc, kwargs.get("errors", args[2] if len(args) > 2 else None), node)
        return Bytes(v, enc or "?")
    return Unk(f"bytes({I.tag(v)})")


UNICODE_COMPLETE = ("utf-8", "utf8", "utf-16", "utf-32", "utf-16-le", "utf-16-be", "utf-32-le", "utf-32-be", "utf-7", "gb18030")


def _strict_encode(I, v, enc, errors, node):
    """Encoding arbitrary text with a codec that does not cover Unicode (ascii, latin-1, cp1252, ...) and the
    default 'strict' error handler raises UnicodeEncodeError for some texts."""
    if not enc or enc.lower().replace("_", "-") in UNICODE_COMPLETE:
        return
    e = I.strval(I.force(errors)) if errors is not None else "strict"
    if e != "strict":
        return
    sv = I.as_str(v)
    free = [p_ for p_ in (sv.parts if sv is not None else [v]) if isinstance(p_, (Text, Fmt, StrOf, Unk)) and not (isinstance(p_, StrOf) and isinstance(p_.value, (Num, Const)))]
    if free and not I.decide(f"encodable:{enc}:{I.tag(v)[:120]}", [True, False]):
        I.raise_("UnicodeEncodeError", node, note=f"'{enc}' codec can't encode a character of the text")


def b_dict(I, fv, args, kwargs, node):
    d = ADict()
    kw = dict(kwargs)
    star = kw.pop("**", None)
    if args:
        src = I.force(args[0])
        if isinstance(src, Ref) and isinstance(I.deref(src), ADict):
            I.dict_merge(d, src, node)
        else:
            items = _list_items(I, src)
            if items is not None:
                for it in items:
                    kv = _list_items(I, it)
                    if kv and len(kv) == 2:
                        I.dict_set(d, kv[0], kv[1])
            else:
                d.open = True
                d.bases = (f"map({I.tag(src)})",)
    for k, v in kw.items():
        d.entries[k] = v
    if star is not None:
        d.open = True
        d.bases = d.bases + tuple(b for b in star.bases if b not in d.bases)
        if star.upper or star.keymap:
            d.keymap = "upper"
    return I.alloc(d)


RE_FLAGS = {"re.IGNORECASE": 2, "re.I": 2, "re.MULTILINE": 8, "re.M": 8, "re.DOTALL": 16, "re.S": 16, "re.VERBOSE": 64, "re.X": 64,
            "re.ASCII": 256, "re.A": 256, "re.UNICODE": 32, "re.U": 32}


def _re_function(name):
    """re.match(pattern, text, flags) & co. with a constant pattern: the compiled pattern's method."""
    def h(I, fv, args, kwargs, node):
        pat = I.strval(I.force(args[0])) if args else None
        fl = I.force(kwargs.get("flags", Const(0)))
        flags = fl.v if isinstance(fl, Const) and isinstance(fl.v, int) else (RE_FLAGS.get(fl.name) if isinstance(fl, ExtV) else None)
        if pat is None or flags is None:
            return I.ext_call(fv, list(args), dict(kwargs), node)
        return pattern_method(I, PatV(pat, flags), name, list(args[1:]), {k: v for k, v in kwargs.items() if k != "flags"}, node)
    return h


def b_re_escape(I, fv, args, kwargs, node):
    s_ = I.strval(I.force(args[0])) if args else None
    if s_ is None:
        return I.ext_call(fv, list(args), dict(kwargs), node)
    import re
    return Const(re.escape(s_))


def b_re_compile(I, fv, args, kwargs, node):
    pat = I.strval(I.force(args[0])) if args else None
    fl = kwargs.get("flags", args[1] if len(args) > 1 else Const(0))
    fl = I.force(fl)
    flags = fl.v if isinstance(fl, Const) and isinstance(fl.v, int) else (RE_FLAGS.get(fl.name) if isinstance(fl, ExtV) else None)
    if pat is None or flags is None:
        return I.ext_call(fv, list(args), dict(kwargs), node)            # not a constant pattern: an ordinary external object
    import re
    try:
        re.compile(pat, flags)
    except re.error:
        I.raise_("error", node, note="invalid regular expression")
    return PatV(pat, flags)


def _context_free(pattern, flags):
    """No anchors, look-arounds or back-references: whether a position starts a match does not depend on its surroundings."""
    import re._parser as sre
    bad = {"AT", "ASSERT", "ASSERT_NOT", "GROUPREF", "GROUPREF_EXISTS"}

    def walk(t):
        for op, av in t:
            if str(op) in bad:
                return False
            if isinstance(av, (list, tuple)):
                for x in av:
                    if hasattr(x, "data") or (isinstance(x, list) and x and isinstance(x[0], tuple)):
                        if not walk(x):
                            return False
                    elif isinstance(x, (list, tuple)):
                        for y in x:
                            if hasattr(y, "data") and not walk(y):
                                return False
        return True
    try:
        return walk(sre.parse(pattern, flags))
    except Exception:
        return False


def pattern_method(I, pv: PatV, name, args, kwargs, node):
    """Methods of a constant compiled pattern: constant folding on constant strings, a provenance model for sub()."""
    import re
    rx = re.compile(pv.pattern, pv.flags)
    # rules that substitute their own answer for a pattern method keep working
    if I.ext_result is not None:
        callee = Unk(f"{pv!r}.{name}", "ext")
        r = I.ext_result(I, callee, args, kwargs, node)
        if r is not None:
            ev = I.emit("EXT", node, callee=callee, args=tuple(args), kwargs=dict(kwargs))
            ev.data["result"] = r
            return r
    if name in ("match", "search", "fullmatch") and args:
        s_ = I.strval(I.force(args[0]))
        if s_ is not None:
            return TRUE if getattr(rx, name)(s_) else NONE       # a match object only serves as a truth value here
        return TRUE if I.decide(f"re.{name}:{pv.pattern}:{I.tag(args[0])}", [True, False]) else NONE
    if name == "sub" and len(args) >= 2:
        repl = I.strval(I.force(args[0]))
        s_ = I.strval(I.force(args[1]))
        if repl is not None and s_ is not None:
            return Const(rx.sub(repl, s_))
        sv = I.as_str(args[1])
        if repl is not None and sv is not None and "\\" not in repl:
            candidates = set(LINE_BREAKS) | set(")]}>\"'*/")
            gone = frozenset(c for c in candidates if _context_free(pv.pattern, pv.flags) and rx.fullmatch(c) and c not in repl)
            back = frozenset(repl)
            return I.mkstr(_map_text(I, sv, lambda t: Text(t.name, (t.removed - back) | gone, t.stripped), lambda text: rx.sub(repl, text)))
    if name == "findall" and args:
        s_ = I.strval(I.force(args[0]))
        if s_ is not None:
            return I.alloc(AList([Tup(tuple(Const(x) for x in m)) if isinstance(m, tuple) else Const(m) for m in rx.findall(s_)]))
    return I.ext_call(Unk(f"{pv!r}.{name}", "ext"), list(args), dict(kwargs), node)


def b_ord(I, fv, args, kwargs, node):
    v = I.force(args[0]) if args else NONE
    s = I.strval(v)
    if s is not None:
        if len(s) == 1:
            return Const(ord(s))
        I.raise_("TypeError", node, note=f"ord() expected a character, but string of length {len(s)} found")
    tag = I.tag(v)
    # an unknown string: ord() raises unless it has exactly one character
    if not I.decide(f"len1:{tag}", [True, False]):
        I.raise_("TypeError", node, note="ord() expected a character, but a string of another length found")
    return Unk(f"ord({tag})", "int")


# ASCII characters a *canonical* (NFC/NFD) normalisation can produce from non-ASCII input
# (KELVIN SIGN -> K, GREEK QUESTION MARK -> ;, GREEK VARIA -> `)
CANONICAL_ASCII_IMAGES = frozenset("K;`")


def b_unicode_normalize(I, fv, args, kwargs, node):
    """unicodedata.normalize(form, text): the text keeps its provenance; what was 'removed' from it is only
    still absent if the normalisation cannot re-create it.  Compatibility forms (NFKC/NFKD) fold look-alikes
    (fullwidth, small, superscript, enclosed forms) onto nearly every printable ASCII character, so only the
    line breaks stay removed; canonical forms can only re-create K ; `."""
    form = I.strval(I.force(args[0])) if args else None
    sv = I.as_str(args[1]) if len(args) > 1 else None
    if sv is None or form is None:
        return Unk(f"normalize({', '.join(I.tag(a) for a in args)})", "str")
    if form.upper() in ("NFC", "NFD"):
        keep = lambda t: t.removed - CANONICAL_ASCII_IMAGES
    else:
        keep = lambda t: t.removed & LINE_BREAKS
    def walk(v):
        sv_ = I.as_str(v)
        if sv_ is None:
            return v
        out = []
        for p_ in sv_.parts:
            if isinstance(p_, Text):
                out.append(Text(p_.name, keep(p_), p_.stripped))
            elif isinstance(p_, Fmt):
                out.append(Fmt(p_.template, tuple(walk(a) for a in p_.args)))
            else:
                out.append(p_)          # literals, rendered numbers and parameter lists are ASCII already
        r = I.mkstr(out)
        return Str(r.parts, sv_.rstripped) if isinstance(r, Str) else r
    return walk(args[1])


def b_dict_fromkeys(I, fv, args, kwargs, node):
    items = _list_items(I, args[0]) if args else None
    val = args[1] if len(args) > 1 else NONE
    d = ADict()
    if items is None:
        d.open = True
        d.bases = (f"fromkeys({I.tag(args[0]) if args else ''})",)
    else:
        for k in items:
            I.dict_set(d, k, val)
    return I.alloc(d)


def b_str_maketrans(I, fv, args, kwargs, node):
    if len(args) == 1:
        return args[0]
    a, b = (I.strval(I.force(x)) for x in args[:2])
    d = ADict()
    if a is None or b is None or len(a) != len(b):
        d.open = True
        d.bases = (f"maketrans({', '.join(I.tag(x) for x in args)})",)
    else:
        for x, y in zip(a, b):
            d.entries[ord(x)] = Const(y)
        c = I.strval(I.force(args[2])) if len(args) > 2 else ""
        for x in (c or ""):
            d.entries[ord(x)] = NONE
    return I.alloc(d)


def b_list(I, fv, args, kwargs, node):
    if not args:
        return I.alloc(AList([]))
    v = I.force(args[0])
    if isinstance(v, Unk):
        return Unk(f"list({v.tag})", v.typ)
    if isinstance(v, Ref) and isinstance(I.deref(v), AList) and I.deref(v).items is None:
        o = I.deref(v)
        return I.alloc(AList(None, o.base, o.universal, o.elem))
    return I.alloc(AList(I.iterate(v, node)))


def b_set(I, fv, args, kwargs, node):
    if not args:
        return I.alloc(AList([], kind="set"))
    return I.alloc(AList(I.iterate(args[0], node), kind="set"))


b_frozenset = b_set


def b_tuple(I, fv, args, kwargs, node):
    if not args:
        return Tup(())
    return Tup(tuple(I.iterate(args[0], node)))


def b_zip(I, fv, args, kwargs, node):
    lists = []
    strict = _kwclean(kwargs).get("strict")
    for a in args:
        items = _list_items(I, a)
        if items is None:
            a2 = I.force(a)
            if isinstance(a2, (GenV,)):
                items = I.iterate(a2, node)
            else:
                return Unk(f"zip({', '.join(I.tag(x) for x in args)})")
        lists.append(items)
    if strict is not None and I.truth(strict) and len({len(x) for x in lists}) > 1:
        I.raise_("ValueError", node, note="zip() arguments have different lengths (strict)")
    return IterV(tuple(Tup(t) for t in zip(*lists)))


def b_enumerate(I, fv, args, kwargs, node):
    items = _list_items(I, args[0])
    if items is None:
        v = I.force(args[0])
        items = I.iterate(v, node)
        return IterV(tuple(Tup((Num(Poly.sym(f"idx({I.tag(x)})"), True) if len(items) == 1 and isinstance(x, Unk) else Const(i), x))
                           for i, x in enumerate(items)))
    start = 0
    st = _kwclean(kwargs).get("start", args[1] if len(args) > 1 else None)
    if st is not None:
        start = I.const_int(st)
        if start is None:
            return I.ext_call(fv, args, kwargs, node)
    return IterV(tuple(Tup((Const(i), x)) for i, x in enumerate(items, start)))


def b_map(I, fv, args, kwargs, node):
    items = _list_items(I, args[1]) if len(args) > 1 else None
    if items is None:
        return Unk(f"map({', '.join(I.tag(x) for x in args)})")
    return IterV(tuple(I.call(args[0], [x], {}, node) for x in items))


def b_range(I, fv, args, kwargs, node):
    ints = [I.const_int(a) for a in args]
    if all(i is not None for i in ints) and ints:
        r = range(*ints)
        if len(r) <= 64:
            return IterV(tuple(Const(i) for i in r))
    return Unk(f"range({', '.join(I.tag(x) for x in args)})")


def b_sorted(I, fv, args, kwargs, node):
    items = _list_items(I, args[0])
    if items is not None and all(isinstance(x, Const) for x in items) and "key" not in kwargs:
        try:
            return I.alloc(AList([Const(x) for x in sorted(i.v for i in items)]))
        except TypeError:
            pass
    return Unk(f"sorted({I.tag(args[0])})")


def b_reversed(I, fv, args, kwargs, node):
    items = _list_items(I, args[0])
    if items is not None:
        return IterV(tuple(reversed(items)))
    v = I.force(args[0])
    if isinstance(v, Ref) and isinstance(I.deref(v), AList):
        return IterV(tuple(reversed(I.iterate(v, node))))
    return Unk(f"reversed({I.tag(args[0])})")


def b_next(I, fv, args, kwargs, node):
    it = I.force(args[0])
    default = args[1] if len(args) > 1 else None
    if isinstance(it, GenV):
        # first element that passes the filters, evaluated lazily in source order
        class _Found(Exception):
            def __init__(self, v):
                self.v = v

        def body(f):
            raise _Found(I.eval(it.node.elt, f))
        try:
            I.comp_iter(it.node.generators, it.frame, body)
        except _Found as f:
            return f.v
        if default is not None:
            return default
        I.raise_("StopIteration", node)
    items = _list_items(I, it)
    if items is not None:
        if items:
            return items[0]
        if default is not None:
            return default
        I.raise_("StopIteration", node)
    return Unk(f"next({I.tag(it)})")


def b_iter(I, fv, args, kwargs, node):
    return args[0]


def b_hasattr(I, fv, args, kwargs, node):
    v = I.force(args[0])
    name = I.strval(args[1])
    if isinstance(v, Ref) and name is not None:
        o = I.deref(v)
        if isinstance(o, AObj):
            if name in o.fields or o.cls.lookup(name) is not None or o.cls.lookup_attr(name)[1] is not None:
                return TRUE
            return FALSE
    return Const(I.decide(f"hasattr:{I.tag(v)}:{name}", [True, False]))


def b_getattr(I, fv, args, kwargs, node):
    name = I.strval(args[1])
    if name is None:
        return Unk(f"getattr({I.tag(args[0])},{I.tag(args[1])})")
    return I.getattr(args[0], name, node)


def b_setattr(I, fv, args, kwargs, node):
    name = I.strval(args[1])
    if name is not None:
        I.setattr(args[0], name, args[2], node)
    return NONE


def b_type(I, fv, args, kwargs, node):
    v = I.force(args[0])
    if isinstance(v, Member):
        return ClassV(I.P.cls(v.cls))
    if isinstance(v, NT):
        return ClassV(I.P.cls(v.cls))
    if isinstance(v, Ref) and isinstance(I.deref(v), AObj):
        return ClassV(I.deref(v).cls)
    if isinstance(v, Const):
        return ExtV(type(v.v).__name__)
    if isinstance(v, Num):
        return ExtV("int" if v.is_int else "float")
    return Unk(f"type({I.tag(v)})")


def b_any(I, fv, args, kwargs, node):
    it = I.force(args[0])
    if isinstance(it, GenV):
        class _Found(Exception):
            pass

        def body(f):
            if I.truth(I.eval(it.node.elt, f)):
                raise _Found()
        try:
            I.comp_iter(it.node.generators, it.frame, body)
        except _Found:
            return TRUE
        return FALSE
    for x in I.iterate(it, node):
        if I.truth(x):
            return TRUE
    return FALSE


def b_all(I, fv, args, kwargs, node):
    it = I.force(args[0])
    if isinstance(it, GenV):
        class _Found(Exception):
            pass

        def body(f):
            if not I.truth(I.eval(it.node.elt, f)):
                raise _Found()
        try:
            I.comp_iter(it.node.generators, it.frame, body)
        except _Found:
            return FALSE
        return TRUE
    for x in I.iterate(it, node):
        if not I.truth(x):
            return FALSE
    return TRUE


def b_print(I, fv, args, kwargs, node):
    return NONE


def b_round(I, fv, args, kwargs, node):
    n = _num(I, args[0])
    if n is not None:
        return Num(app("round", n.p, *[_num(I, a).p for a in args[1:] if _num(I, a) is not None]), len(args) == 1)
    return Unk(f"round({I.tag(args[0])})")


def b_id(I, fv, args, kwargs, node):
    return Unk(f"id({I.tag(args[0])})")


def b_sum(I, fv, args, kwargs, node):
    items = _list_items(I, args[0])
    if items is None and isinstance(I.force(args[0]), GenV):
        items = I.iterate(args[0], node)
    if items is not None:
        acc = Num(Poly.const(0), True)
        for x in items:
            acc = I.binop(acc, ast.Add(), x, node)
        return acc
    return Unk(f"sum({I.tag(args[0])})")


def b_callable(I, fv, args, kwargs, node):
    v = I.force(args[0])
    if isinstance(v, (FuncV, Closure, ClassV, BoundBuiltin)):
        return TRUE
    if isinstance(v, (Const, Num, NT, Tup, Member)):
        return FALSE
    return Const(I.decide(f"callable:{I.tag(v)}", [True, False]))


def b_object(I, fv, args, kwargs, node):
    return Unk(I.fresh("object"))


def b_deepcopy(I, fv, args, kwargs, node):
    memo = {}

    def cp(v):
        v = I.force(v) if isinstance(v, (Opt, Choice)) else v
        if isinstance(v, Ref):
            if v.addr in memo:
                return memo[v.addr]
            o = I.deref(v)
            if isinstance(o, AObj):
                n = AObj(o.cls, {}, o.label)
                r = I.alloc(n)
                memo[v.addr] = r
                for k, x in o.fields.items():
                    n.fields[k] = cp(x)
                I.emit("COPY", node, src=v.addr, dst=r.addr, cls=o.cls.name, deep=True)
                return r
            if isinstance(o, ADict):
                n = o.clone()
                r = I.alloc(n)
                memo[v.addr] = r
                n.entries = {k: cp(x) for k, x in o.entries.items()}
                return r
            if isinstance(o, AList):
                n = o.clone()
                r = I.alloc(n)
                memo[v.addr] = r
                if o.items is not None:
                    n.items = [cp(x) for x in o.items]
                else:
                    n.base = f"copy({o.base})"
                I.emit("COPY", node, src=v.addr, dst=r.addr, cls="list", deep=True)
                return r
        if isinstance(v, Tup):
            return Tup(tuple(cp(x) for x in v.items))
        return v
    return cp(args[0])


def b_shallowcopy(I, fv, args, kwargs, node):
    v = I.force(args[0])
    if isinstance(v, Ref):
        o = I.deref(v)
        r = I.alloc(o.clone())
        I.emit("COPY", node, src=v.addr, dst=r.addr, cls=getattr(getattr(o, "cls", None), "name", type(o).__name__), deep=False)
        return r
    return v


# ------------------------------------------------------------------ math
def _mark_int(I, p: Poly):
    sm = p.single_monomial()
    if sm is not None and len(sm[0]) == 1 and sm[0][0][1] == 1:
        I.int_symbols.add(sm[0][0][0])


def mk_app(I, name, ps, even=False):
    """Uninterpreted application as a canonical symbol; its structure is kept in I.apps."""
    p = even_app(name, *ps) if even else app(name, *ps)
    sm = p.single_monomial()
    if sm is not None and len(sm[0]) == 1:
        sym = sm[0][0][0]
        if sym not in I.apps:
            # arguments as canonicalised by even_app: re-derive from the chosen sign
            args = []
            for a in ps:
                if even and a.terms and a.terms[min(a.terms)] < 0:
                    a = -a
                args.append(a)
            I.apps[sym] = (name, tuple(args))
    return p


def _two_pi_multiple(I, rest: Poly) -> bool:
    """Is `rest` an integer multiple of 2*pi (for integer values of the integer symbols)?"""
    if rest.is_zero():
        return True
    q = rest.coeff_of("pi")
    if not (Poly.sym("pi") * q - rest).is_zero() or "pi" in q.symbols():
        return False
    for m, c in q.terms.items():
        if (c / 2).denominator != 1:
            return False
        for sym, e in m:
            if sym not in I.int_symbols or e < 0:
                return False
    return True


def _trig(I, fname, A: Poly):
    """cos/sin with the identities the tracer's closed forms rely on:
    cos(arctan2(y, x) + 2*pi*k) = x / hypot(x, y), sin(...) = y / hypot(x, y)."""
    for sign in (1, -1):
        B = A if sign == 1 else -A
        for sym in sorted(B.symbols()):
            ent = I.apps.get(sym)
            if ent is None or ent[0] != "arctan2":
                continue
            c = B.coeff_of(sym)
            if not (c - Poly.const(1)).is_zero():
                continue
            if not _two_pi_multiple(I, B - Poly.sym(sym)):
                continue
            y, x = ent[1]
            h = mk_app(I, "hypot", [x, y], even=True)
            if h.is_zero():
                continue
            val = (x if fname == "cos" else y) * h.inverse()
            if fname == "sin" and sign == -1:
                val = -val
            return val
    if _two_pi_multiple(I, A):
        return Poly.const(1 if fname == "cos" else 0)
    if fname == "cos":
        return mk_app(I, "cos", [A], even=True)
    # sin is odd: canonicalise the sign of the argument
    if A.terms and A.terms[min(A.terms)] < 0:
        return -mk_app(I, "sin", [-A])
    return mk_app(I, "sin", [A])


def make_math(name):
    canon = {"atan2": "arctan2"}.get(name, name)

    def h(I, fv, args, kwargs, node):
        nums = [_num(I, a) for a in args]
        if not nums or any(n is None for n in nums):
            for a in args:
                a2 = I.force(a)
                if isinstance(a2, Const) and a2.v is None:
                    I.raise_("TypeError", node, note=f"{canon}(None)")
            return Unk(f"{canon}({', '.join(I.tag(a) for a in args)})", "array")
        ps = [n.p for n in nums]
        if all(p.is_const() for p in ps):
            try:
                f = getattr(math, {"arctan2": "atan2"}.get(canon, canon))
                r = f(*[float(p.const_value()) for p in ps])
                if canon in ("ceil", "floor"):
                    return Num(Poly.const(int(r)), True)
                if float(r).is_integer() and abs(r) < 1e9:
                    return Num(Poly.const(int(r)))
            except Exception:
                pass
        if canon in ("cos", "sin"):
            return Num(_trig(I, canon, ps[0]))
        if canon in ("hypot",):
            return Num(mk_app(I, canon, ps, even=True))
        r = mk_app(I, canon, ps)
        if canon in ("ceil", "floor"):
            _mark_int(I, r)
        return Num(r, canon in ("ceil", "floor"))
    return h


def b_isfinite(I, fv, args, kwargs, node):
    n = _num(I, args[0])
    if n is None:
        return Const(I.decide(f"finite:{I.tag(args[0])}", [True, False]))
    if n.p.is_const():
        return TRUE
    if n.p.symbols() & {"nan", "inf", "-inf"}:
        return FALSE
    return Const(I.decide(f"finite:{n.p.key()}", [True, False]))


def b_isnan(I, fv, args, kwargs, node):
    n = _num(I, args[0])
    if n is not None and n.p.is_const():
        return FALSE
    return Const(I.decide(f"isnan:{I.tag(args[0])}", [False, True]))


def b_isclose(I, fv, args, kwargs, node):
    a, b = _num(I, args[0]), _num(I, args[1])
    if a is not None and b is not None and (a.p - b.p).is_zero():
        return TRUE
    return Const(I.decide(f"isclose:{I.tag(args[0])}:{I.tag(args[1])}", [True, False]))


def b_format_float(I, fv, args, kwargs, node):
    return I.mkstr([NumFmt(args[0])])


# ------------------------------------------------------------------ matrices
def n_eye(I, fv, args, kwargs, node):
    n = I.const_int(args[0]) if args else None
    return I.alloc(AMat(I.fresh(f"eye{n if n is not None else ''}")))


def n_array(I, fv, args, kwargs, node):
    items = _list_items(I, args[0]) if args else None
    if items is not None:
        return ArrV(tuple(items))
    return Unk(f"array({I.tag(args[0]) if args else ''})", "array")


def n_matmul(I, fv, args, kwargs, node):
    out = ()
    for a in args[:2]:
        a = I.force(a)
        out += a.factors if isinstance(a, MatProd) else (a,)
    return MatProd(out)


def n_multi_dot(I, fv, args, kwargs, node):
    items = _list_items(I, args[0]) if args else None
    if items is None:
        return Unk(f"multi_dot({I.tag(args[0]) if args else ''})", "array")
    out = ()
    for a in items:
        a = I.force(a)
        out += a.factors if isinstance(a, MatProd) else (a,)
    return MatProd(out)


def n_column_stack(I, fv, args, kwargs, node):
    items = _list_items(I, args[0]) if args else None
    if items is not None and all(I.as_num(x) is not None for x in items if not isinstance(x, (Opt, Choice))):
        return Tup(tuple(I.as_num(x) for x in items))       # one sample (scalar parameter)
    I.emit("NOTE", node, what="column_stack", items=tuple(items or ()))
    return Unk(f"column_stack({I.tag(args[0]) if args else ''})", "array")


def n_linspace(I, fv, args, kwargs, node):
    kw = _kwclean(kwargs)
    a = list(args) + [None] * 3
    return LinV(a[0], a[1], a[2] if a[2] is not None else kw.get("num", Const(50)), kw.get("endpoint", TRUE))


def n_diff(I, fv, args, kwargs, node):
    v = I.force(args[0])
    if isinstance(v, ArrV):
        return ArrV(tuple(Unk(f"diff({I.tag(b)},{I.tag(a)})", "row") for a, b in zip(v.items, v.items[1:])))
    return Unk(f"diff({I.tag(v)})", "array")


def n_norm(I, fv, args, kwargs, node):
    v = I.force(args[0])
    if isinstance(v, ArrV):
        out = []
        for i, x in enumerate(v.items):
            sym = f"norm({I.tag(x)})"
            I.positive_syms.add(sym)
            out.append(Num(Poly.sym(sym)))
        return ArrV(tuple(out))
    n = _num(I, v)
    if n is not None:
        return Num(even_app("abs", n.p))
    return Unk(f"norm({I.tag(v)})", "array")


def n_ones(I, fv, args, kwargs, node):
    n = I.const_int(args[0]) if args else None
    kw = _kwclean(kwargs)
    isbool = "bool" in I.tag(kw.get("dtype", NONE))
    if n is not None and n <= 64:
        return I.alloc(AList([TRUE if isbool else Const(1.0) for _ in range(n)]))
    return Unk(f"ones({I.tag(args[0]) if args else ''})", "array")


def n_fromiter(I, fv, args, kwargs, node):
    """numpy.fromiter(iterable, dtype[, count]): the items of an enumerable iterable as a 1-D array."""
    src = I.force(args[0]) if args else NONE
    if isinstance(src, (Unk, Str)) or not args:
        return I.ext_call(fv, args, kwargs, node)
    kw = _kwclean(kwargs)
    items = I.iterate(src, node)
    count = kw.get("count", args[2] if len(args) > 2 else None)
    if count is not None:
        c = I.const_int(count)
        if c is None:
            return I.ext_call(fv, args, kwargs, node)
        if c >= 0:
            if c > len(items):
                I.raise_("ValueError", node, note="iterator too short")
            items = items[:c]
    isbool = "bool" in I.tag(kw.get("dtype", args[1] if len(args) > 1 else NONE))
    if isbool:
        items = [Const(I.truth(x)) for x in items]
    return I.alloc(AList(list(items)))


def n_vstack(I, fv, args, kwargs, node):
    items = _list_items(I, args[0]) if args else None
    if items is None:
        return Unk("vstack(?)", "array")
    rows = []
    for x in items:
        x = I.force(x)
        if isinstance(x, ArrV):
            rows += list(x.items)
        elif isinstance(x, (Tup, NT)):
            rows.append(x)
        else:
            return Unk(f"vstack({I.tag(args[0])})", "array")
    return ArrV(tuple(rows))


def n_inv(I, fv, args, kwargs, node):
    return Unk(f"inv({I.tag(I.force(args[0]))})", "array")


# ------------------------------------------------------------------ formatter contract
class pseudo_frame:
    def __init__(self, I, qualname, module="gscrib.formatters.default_formatter"):
        from .interp import Frame
        self.I = I
        self.fr = Frame(None, module, {}, qualname=qualname)

    def __enter__(self):
        self.I.frames.append(self.fr)

    def __exit__(self, *a):
        self.I.frames.pop()


def _number_may_raise(I, v, node):
    """Contract of number(): ValueError iff the value is not finite."""
    v = I.force(v)
    n = _num(I, v)
    if n is None:
        return
    if n.p.is_const():
        return
    if n.p.symbols() & {"nan", "inf", "-inf"}:
        I.raise_("ValueError", node, note="non-finite number")
    if not I.decide(f"finite:{n.p.key()}", [True, False]):
        I.raise_("ValueError", node, note="non-finite number")


def f_number(I, fv, args, kwargs, node):
    v = args[1] if len(args) > 1 else kwargs.get("number")
    with pseudo_frame(I, "DefaultFormatter.number"):
        _number_may_raise(I, v, node)
    return I.mkstr([NumFmt(I.force(v))])


AXES = ("X", "Y", "Z")


def f_parameters(I, fv, args, kwargs, node):
    d = args[1] if len(args) > 1 else kwargs.get("params")
    d = I.force(d)
    if not (isinstance(d, Ref) and isinstance(I.deref(d), ADict)):
        return Unk(f"parameters({I.tag(d)})", "str")
    o = I.deref(d)
    entries = []
    for k, v in o.entries.items():
        kk = k.upper() if isinstance(k, str) else k
        v = I.force(v)
        entries.append((kk, v))
    with pseudo_frame(I, "DefaultFormatter.number"):
        for kk, v in entries:
            _number_may_raise(I, v, node)
        if o.open:
            if not I.decide(f"finite:rest({o.bases[0]})", [True, False]):
                I.raise_("ValueError", node, note="non-finite number among the other parameters")
    snap = ParamsFmt(tuple(entries), o.open, tuple(o.bases), True)
    return Str((snap,))


# ------------------------------------------------------------------ transform contract
def _xform(I, args, node, fname):
    """Transform.apply(point): an (uninterpreted) affine map of the resolved point.

    The map is named after the value number of the matrix it multiplies with, so
    that two applications under an unchanged transform use the same map."""
    selfv, point = args[0], I.force(args[1])
    comps = _list_items(I, point)
    if comps is None:
        return Unk(f"{fname}({I.tag(point)})", "point")
    comps = (list(comps) + [NONE, NONE, NONE])[:3]
    nums = []
    for c in comps:
        c = I.force(c)
        if isinstance(c, Const) and c.v is None:
            nums.append(Poly.const(0))
        else:
            n = I.as_num(c)
            if n is None:
                return Unk(f"{fname}({I.tag(point)})", "point")
            nums.append(n.p)
    ci = I.P.cls("Point")
    names = tuple(ci.annotations)
    if I.transform_mode == "identity":
        return NT("Point", names, tuple(Num(p) for p in nums))
    o = I.deref(I.force(selfv))
    field = "_matrix" if fname == "X" else "_inverse"
    ver = I.tag(o.fields.get(field, Unk("?")))
    return NT("Point", names, tuple(Num(app(f"{fname}.{a}@{ver}", *nums)) for a in "xyz"))


def x_apply(I, fv, args, kwargs, node):
    return _xform(I, args, node, "X")


def x_reverse(I, fv, args, kwargs, node):
    return _xform(I, args, node, "Xinv")


# ------------------------------------------------------------------ ParamsDict contract
def c_paramsdict(I, fv, args, kwargs, node):
    ci = fv.ci
    d = ADict(upper=True, cls=ci, label=I.fresh("params"))
    kw = dict(kwargs)
    star = kw.pop("**", None)
    if args:
        I.dict_merge(d, args[0], node)
    for k, v in kw.items():
        d.entries[k.upper()] = v
    if star is not None:
        d.open = True
        d.bases = d.bases + tuple(b for b in star.bases if b not in d.bases)
    return I.alloc(d)


# ------------------------------------------------------------------ bound builtins
def call_bound_builtin(I, bb: BoundBuiltin, args, kwargs, node):
    recv = I.force(bb.recv)
    name = bb.name
    if isinstance(recv, PatV):
        return pattern_method(I, recv, name, args, kwargs, node)
    if isinstance(recv, Ref):
        o = I.deref(recv)
        if isinstance(o, ADict):
            return dict_method(I, recv, o, name, args, kwargs, node)
        if isinstance(o, AList):
            return list_method(I, recv, o, name, args, kwargs, node)
        if isinstance(o, AObj):
            if o.label == "ExitStack":
                return I.exit_stack_method(recv, name, list(args), dict(kwargs), node)
            # super().__init__() and friends on builtin bases
            return NONE
    s = I.as_str(recv)
    if s is not None or isinstance(recv, (Str,)):
        return str_method(I, recv, name, args, kwargs, node)
    if isinstance(recv, Member):
        return str_method(I, Const(I.member_value(recv)), name, args, kwargs, node)
    if isinstance(recv, Bytes):
        if name == "decode":
            enc = I.strval(args[0]) if args else (I.strval(kwargs["encoding"]) if "encoding" in kwargs else "utf-8")
            I.emit("NOTE", node, what="decode", codec=enc, encoded_as=recv.enc)
            if enc is not None and enc.lower().replace("_", "-") == str(recv.enc).lower().replace("_", "-"):
                return recv.s
            return Unk(f"decode({I.tag(recv.s)},{recv.enc}->{enc})", "str")
        if name in ("strip", "rstrip", "lstrip"):
            return Bytes(Str((StrOf(recv.s, name),)), recv.enc)
        return Unk(f"{I.tag(recv)}.{name}()")
    if isinstance(recv, BV):
        if name == "find" and args:
            t = I.as_bv(I.force(args[0]))
            if t is not None and t.parts == (BNL(),):
                for i, x in enumerate(recv.parts):
                    if isinstance(x, BNL):
                        return Num(I.bv_len(recv.parts[:i]), True)
                return Const(-1)
        if name in ("index",) and args:
            t = I.as_bv(I.force(args[0]))
            if t is not None and t.parts == (BNL(),):
                for i, x in enumerate(recv.parts):
                    if isinstance(x, BNL):
                        return Num(I.bv_len(recv.parts[:i]), True)
                I.raise_("ValueError", node, note="subsection not found")
        if name == "endswith" and args:
            t = I.as_bv(I.force(args[0]))
            if t is not None and t.parts == (BNL(),):
                return Const(bool(recv.parts) and isinstance(recv.parts[-1], BNL))
        if name == "count" and args:
            t = I.as_bv(I.force(args[0]))
            if t is not None and t.parts == (BNL(),):
                return Const(sum(1 for x in recv.parts if isinstance(x, BNL)))
        if name == "splitlines":
            # bytes.splitlines breaks at \n, \r and \r\n.  Segments are newline-free but may contain a carriage
            # return: decided per segment (at most one CR per segment is explored), splitting it into a head that
            # ends with the CR and an optional tail.
            keep = kwargs.get("keepends", args[0] if args else FALSE)
            if not (isinstance(keep, Const) and keep.v is True):
                return Unk(I.fresh(f"{recv!r}.splitlines()"), "byteslist")
            lines, cur = [], []
            parts = list(recv.parts)
            i = 0
            while i < len(parts):
                x = parts[i]
                if isinstance(x, BNL):
                    cur.append(x)
                    lines.append(BV(tuple(cur)))
                    cur = []
                elif isinstance(x, BSeg) and not (x.lo or x.hi) and not x.name.endswith(("~h", "~t")) and I.decide(f"hascr:{x.name}", [False, True]):
                    head = BSeg(x.name + "~h")
                    I.positive_syms.add(f"len({head.name})")
                    tail = I.decide(f"crtail:{x.name}", [True, False])
                    cur.append(head)
                    if not tail and i + 1 < len(parts) and isinstance(parts[i + 1], BNL):
                        cur.append(parts[i + 1])         # \r\n is one line break
                        i += 1
                    lines.append(BV(tuple(cur)))
                    cur = []
                    if tail:
                        t_ = BSeg(x.name + "~t")
                        I.positive_syms.add(f"len({t_.name})")
                        cur.append(t_)
                else:
                    cur.append(x)
                i += 1
            if cur:
                lines.append(BV(tuple(cur)))
            return I.alloc(AList(lines))
        if name in ("partition", "split"):
            t = I.as_bv(I.force(args[0])) if args else BV((BNL(),))
            if t is not None and t.parts == (BNL(),) and name == "partition":
                for i, x in enumerate(recv.parts):
                    if isinstance(x, BNL):
                        return Tup((BV(recv.parts[:i]), BV((BNL(),)), BV(recv.parts[i + 1:])))
                return Tup((recv, BV(()), BV(())))
        return Unk(I.fresh(f"{recv!r}.{name}()"), "bytes")
    if isinstance(recv, Const) and isinstance(recv.v, bytes):
        if name == "join" and args and recv.v == b"":
            items = _list_items(I, args[0])
            if items is not None:
                parts = ()
                ok = True
                for x in items:
                    bx = I.as_bv(I.force(x))
                    if bx is None:
                        ok = False
                        break
                    parts += bx.parts
                if ok:
                    return BV(parts) if (parts or any(isinstance(I.force(x), BV) for x in items)) else Const(b"")
        if name == "decode":
            try:
                return Const(recv.v.decode(I.strval(args[0]) if args else "utf-8"))
            except Exception:
                I.raise_("UnicodeDecodeError", node)
        return Unk(f"bytes.{name}()")
    if isinstance(recv, (Tup, NT)):
        if name == "index" and args:
            for i, x in enumerate(recv.items):
                if I.eq(x, args[0], node):
                    return Const(i)
            I.raise_("ValueError", node, note="tuple.index: not found")
        if name == "count" and args:
            return Const(sum(1 for x in recv.items if I.eq(x, args[0], node)))
        if name == "_replace" and isinstance(recv, NT):
            kw = _kwclean(kwargs)
            return NT(recv.cls, recv.names, tuple(kw.get(n, v) for n, v in zip(recv.names, recv.items)))
        if name == "_asdict" and isinstance(recv, NT):
            return I.alloc(ADict(entries=dict(zip(recv.names, recv.items))))
    if isinstance(recv, (MatProd, ArrV)):
        if name in ("copy", "astype", "view"):
            return recv
        return Unk(f"{I.tag(recv)}.{name}()", "array")
    if isinstance(recv, Ref) and isinstance(I.deref(recv), AMat):
        if name == "copy":
            return I.alloc(I.deref(recv).clone())
        return Unk(f"{I.tag(recv)}.{name}()", "array")
    if isinstance(recv, Num):
        if name == "is_integer":
            return Const(I.decide(f"is_integer:{recv.p.key()}", [True, False]))
        if name in ("copy", "item", "real"):
            return recv
    if name == "__init__":
        return NONE
    return I.ext_call(Unk(f"{I.tag(recv)}.{name}"), args, kwargs, node)


def dict_method(I, ref, o: ADict, name, args, kwargs, node):
    if name in ("get", "__getitem__"):
        default = args[1] if len(args) > 1 else kwargs.get("default")
        return I.dict_get(o, args[0], node, ref, default=default, strict=(name == "__getitem__" and not o.upper))
    if name == "pop":
        k = I.dkey(o, args[0])
        default = args[1] if len(args) > 1 else None
        if k in o.entries:
            v = o.entries.pop(k)
            if isinstance(k, str):
                o.removed.add(I.canon_key(o, k))
            I.emit("MUT", node, obj=ref.addr, label=o.label, method="pop", args=(k,))
            return v
        if o.open and isinstance(k, str) and I.canon_key(o, k) not in o.removed:
            ck = I.canon_key(o, k)
            nm = f"{o.bases[0]}[{ck}]"
            if I.decide(f"has:{nm}", [True, False]):
                o.removed.add(ck)
                I.emit("MUT", node, obj=ref.addr, label=o.label, method="pop", args=(k,))
                return I.open_value(nm)
        if default is not None:
            return default
        I.raise_("KeyError", node, note=f"pop({k!r})")
    if name in ("update",):
        I.emit("MUT", node, obj=ref.addr, label=o.label, method="update", args=tuple(args), kwargs=_kwclean(kwargs))
        for a in args:
            I.dict_merge(o, a, node)
        kw = dict(kwargs)
        star = kw.pop("**", None)
        for k, v in kw.items():
            o.entries[k.upper() if o.upper else k] = v
        if star is not None:
            o.open = True
            o.bases = o.bases + tuple(b for b in star.bases if b not in o.bases)
        return NONE
    if name in ("__setitem__", "setdefault"):
        k = I.dkey(o, args[0])
        if name == "setdefault" and k in o.entries:
            return o.entries[k]
        I.emit("MUT", node, obj=ref.addr, label=o.label, method=name, args=(k, args[1] if len(args) > 1 else NONE))
        o.entries[k] = args[1] if len(args) > 1 else NONE
        return o.entries[k] if name == "setdefault" else NONE
    if name == "__contains__":
        return Const(I.dict_has(o, args[0], ref))
    if name == "__delitem__":
        k = I.dkey(o, args[0])
        I.emit("MUT", node, obj=ref.addr, label=o.label, method="__delitem__", args=(k,))
        o.entries.pop(k, None)
        return NONE
    if name == "items":
        items = [Tup((k if isinstance(k, V) else Const(k), v)) for k, v in o.entries.items()]
        if o.open:
            if I.decide("morekeys:" + (o.label or str(ref.addr)), [False, True]):
                items.append(Tup((Unk(f"key({o.bases[0]})", "str"), Unk(f"val({o.bases[0]})"))))
        return IterV(tuple(items))
    if name == "keys":
        return IterV(tuple(I.iterate(ref, node)))
    if name == "values":
        vals = list(o.entries.values())
        if o.open and I.decide("morekeys:" + (o.label or str(ref.addr)), [False, True]):
            vals.append(Unk(f"val({o.bases[0]})"))
        return IterV(tuple(vals))
    if name == "copy":
        return I.alloc(o.clone())
    if name == "clear":
        I.emit("MUT", node, obj=ref.addr, label=o.label, method="clear", args=())
        o.entries.clear()
        o.open = False
        return NONE
    if name == "__init__":
        return NONE
    return I.ext_call(Unk(f"dict.{name}"), args, kwargs, node)


def list_method(I, ref, o: AList, name, args, kwargs, node):
    mut = {"append", "remove", "clear", "pop", "extend", "insert", "add", "discard", "sort", "reverse", "update"}
    if name in mut:
        I.emit("MUT", node, obj=ref.addr, label=o.base, method=name, args=tuple(args))
    if o.items is None:
        if name == "clear":
            o.items = []
            return NONE
        if name == "pop":
            return o.elem if o.elem is not None else Unk(I.fresh(f"pop({o.base})"), "elem")
        if name in ("index", "count"):
            return Num(Poly.sym(I.fresh(f"{name}({o.base})")), True)
        if name == "copy":
            return I.alloc(o.clone())
        return NONE
    if name in ("append", "add"):
        if name == "add" and any(I.eq(x, args[0], node) for x in o.items):
            return NONE
        o.items.append(args[0])
        return NONE
    if name in ("extend", "update"):
        o.items.extend(I.iterate(args[0], node))
        return NONE
    if name == "insert":
        i = I.const_int(args[0])
        o.items.insert(i if i is not None else 0, args[1])
        return NONE
    if name in ("remove", "discard"):
        for i, x in enumerate(o.items):
            if I.eq(x, args[0], node):
                del o.items[i]
                return NONE
        if name == "remove":
            I.raise_("ValueError", node, note="list.remove(x): x not in list")
        return NONE
    if name == "pop":
        if not o.items:
            I.raise_("IndexError", node, note="pop from empty list")
        i = I.const_int(args[0]) if args else -1
        return o.items.pop(i if i is not None else -1)
    if name == "clear":
        o.items.clear()
        return NONE
    if name == "copy":
        return I.alloc(o.clone())
    if name == "index":
        for i, x in enumerate(o.items):
            if I.eq(x, args[0], node):
                return Const(i)
        I.raise_("ValueError", node, note="list.index: not found")
    if name == "count":
        return Const(sum(1 for x in o.items if I.eq(x, args[0], node)))
    if name in ("sort", "reverse"):
        if name == "reverse":
            o.items.reverse()
        return NONE
    if name == "__init__":
        return NONE
    return I.ext_call(Unk(f"list.{name}"), args, kwargs, node)


LINE_BREAKS = frozenset("\n\r\x0b\x0c\x1c\x1d\x1e\x85\u2028\u2029")


def _map_text(I, sv, on_text, on_lit):
    """Apply a character-removing operation to every part of a composite string."""
    out = []
    for p in sv.parts:
        if isinstance(p, Text):
            out.append(on_text(p))
        elif isinstance(p, Lit):
            out.append(Lit(on_lit(p.text)))
        elif isinstance(p, StrOf):
            out.append(on_text(Text(f"str({I.tag(p.value)})")))
        elif isinstance(p, Fmt):
            out.append(Fmt(p.template, tuple(_map_value(I, a, on_text, on_lit) for a in p.args)))
        else:
            out.append(p)
    return out


def _map_value(I, v, on_text, on_lit):
    sv = I.as_str(v)
    if sv is not None:
        return I.mkstr(_map_text(I, sv, on_text, on_lit))
    return v



def str_method(I, recv, name, args, kwargs, node):
    s = I.strval(recv)
    consts = [I.strval(a) for a in args]
    if s is not None and all(c is not None for c in consts) and name in ("upper", "lower", "strip", "lstrip", "rstrip", "startswith",
                                                                          "endswith", "isidentifier", "isalnum", "isdigit", "replace",
                                                                          "find", "index", "count", "title", "capitalize", "isalpha",
                                                                          "zfill", "isspace", "isupper", "islower", "casefold",
                                                                          "removeprefix", "removesuffix", "swapcase", "isdecimal",
                                                                          "isnumeric", "isascii", "isprintable", "istitle", "rfind",
                                                                          "rindex", "center", "ljust", "rjust", "expandtabs",
                                                                          "partition", "rpartition"):
        try:
            r = getattr(s, name)(*consts)
        except ValueError:
            I.raise_("ValueError", node, note=f"str.{name}")
        if isinstance(r, tuple):
            return Tup(tuple(Const(x) for x in r))
        return Const(r)
    if s is not None and name == "startswith" and args:
        t = I.force(args[0])
        if isinstance(t, Tup):
            vals = [I.strval(x) for x in t.items]
            if all(v is not None for v in vals):
                return Const(s.startswith(tuple(vals)))
    if s is not None and name == "split" and all(c is not None for c in consts):
        return I.alloc(AList([Const(x) for x in s.split(*consts)]))
    if s is not None and name == "splitlines":
        return I.alloc(AList([Const(x) for x in s.splitlines()]))
    if s is not None and name == "encode":
        enc = consts[0] if consts else "utf-8"
        try:
            return Const(s.encode(enc or "utf-8"))
        except Exception:
            return Bytes(recv, enc or "?")
    if name == "format":
        tmpl = recv
        if s is not None and not args and not kwargs:
            return recv
        if s is not None:
            # constant template with symbolic arguments: expand positional fields
            try:
                import string
                parts = []
                auto = 0
                ok = True
                for lit, field, spec, conv in string.Formatter().parse(s):
                    if lit:
                        parts.append(Lit(lit))
                    if field is None:
                        continue
                    if field == "":
                        idx = auto
                        auto += 1
                    elif field.isdigit():
                        idx = int(field)
                    else:
                        kw = _kwclean(kwargs)
                        if field in kw:
                            parts += I.str_parts(kw[field], spec or "")
                            continue
                        ok = False
                        break
                    if idx >= len(args):
                        I.raise_("IndexError", node, note="format index out of range")
                    parts += I.str_parts(args[idx], (spec or "") + (("!" + conv) if conv else ""))
                if ok:
                    return I.mkstr(parts)
            except ValueError:
                # e.g. "{ {} }".format(x): Python itself rejects the template
                I.raise_("ValueError", node, note=f"malformed format template {s!r}")
        return Str((Fmt(tmpl, tuple(args)),))
    if name == "join":
        items = _list_items(I, args[0]) if args else None
        if items is None and args and isinstance(I.force(args[0]), GenV):
            items = I.iterate(args[0], node)
        if items is not None:
            parts = []
            sep = I.as_str(recv)
            for i, x in enumerate(items):
                if i and sep is not None:
                    parts += list(sep.parts)
                parts += I.str_parts(x)
            return I.mkstr(parts)
        a = I.force(args[0]) if args else None
        # sep.join(text.splitlines()) -- a sanitiser idiom: no line break survives
        if isinstance(a, LinesV):
            sepv = I.strval(recv)
            if sepv is not None and not (set(sepv) & LINE_BREAKS):
                return I.mkstr(_map_text(I, a.src, lambda t: Text(t.name, t.removed | LINE_BREAKS, t.stripped),
                                         lambda text: sepv.join(text.splitlines())))
            # joined with something that may itself contain a line break: nothing is removed
            return I.mkstr(_map_text(I, a.src, lambda t: Text(t.name, t.removed - LINE_BREAKS, t.stripped), lambda text: text))
        return Unk(f"join({I.tag(recv)},{I.tag(a)})", "str")
    sv = I.as_str(recv)
    if sv is not None:
        if name in ("strip", "rstrip", "lstrip"):
            if len(sv.parts) == 1 and isinstance(sv.parts[0], Text):
                t = sv.parts[0]
                return Str((Text(t.name, t.removed, True),), name in ("rstrip", "strip") and not args)
            if name in ("rstrip", "strip") and not args:
                return Str(sv.parts, True)
            # stripping given characters from a rendered number: '.' alone is harmless; digits may only be
            # stripped from the right of a text known to contain a decimal point ('10'.rstrip('0') == '1')
            ends = ([sv.parts[-1]] if name in ("rstrip", "strip") and sv.parts else []) + ([sv.parts[0]] if name in ("lstrip", "strip") and sv.parts else [])
            if args and any(isinstance(p_, (NumFmt, StrOf)) for p_ in ends):
                chars = consts[0] if consts else None
                if chars is not None and set(chars) <= {"."}:
                    return sv if isinstance(recv, Str) else recv
                has_point = I.facts.get(f"in:{Const('.')!r}:{I.force(recv)!r}")
                if chars is not None and name == "rstrip" and set(chars) <= {"0", "."} and has_point is True:
                    return sv if isinstance(recv, Str) else recv
                return Unk(f"{name}({I.tag(recv)}, {chars!r})", "str")
            return sv if isinstance(recv, Str) else recv
        if name == "splitlines":
            return LinesV(sv)
        if name == "replace" and len(args) >= 2:
            old, new = consts[0], consts[1]
            if old is None:
                o = I.force(args[0])
                old_tag = "val:" + I.tag(o)
            else:
                old_tag = old if len(old) == 1 else "seq:" + old
            if new is None or (old is not None and old in new) or (set(new) & LINE_BREAKS):
                return Unk(f"replace({I.tag(recv)})", "str")
            single = len(sv.parts) == 1

            def on_text(t):
                # a multi-character pattern could straddle two parts of a composite string
                if old is not None and len(old) > 1 and not single:
                    return t
                # ... and deleting it (or replacing it by characters of its own) can splice a new
                # occurrence together: "**//".replace("*/", "") == "*/"
                if old is not None and len(old) > 1 and (new == "" or set(new) & set(old)):
                    return t
                if old is None and new == "":
                    return t
                return Text(t.name, t.removed | {old_tag}, t.stripped)
            return I.mkstr(_map_text(I, sv, on_text, (lambda text: text.replace(old, new)) if old is not None else (lambda text: text)))
        if name in ("upper", "lower", "title", "capitalize"):
            if len(sv.parts) == 1 and isinstance(sv.parts[0], Text):
                t = sv.parts[0]
                return Str((Text(f"{t.name}.{name}()", t.removed, t.stripped),))
            return Unk(f"{name}({I.tag(recv)})", "str")
        if name in ("startswith", "endswith"):
            t = I.force(args[0]) if args else NONE
            return Const(I.decide(f"{name}:{I.tag(recv)}:{I.tag(t)}", [True, False]))
        if name in ("isidentifier", "isalnum", "isdigit", "isalpha", "isspace"):
            r = I.decide(f"{name}:{I.tag(recv)}", [True, False])
            return Const(r)
        if name == "encode":
            enc = consts[0] if consts else (I.strval(I.force(kwargs["encoding"])) if "encoding" in kwargs else "utf-8")
            _strict_encode(I, recv, enc, kwargs.get("errors", args[1] if len(args) > 1 else None), node)
            return Bytes(recv, enc or "?")
        if name == "split":
            return Unk(f"split({I.tag(recv)})", "strlist")
        if name in ("find", "index", "count"):
            return Num(Poly.sym(f"{name}({I.tag(recv)},{', '.join(I.tag(a) for a in args)})"), True)
        if name == "translate" and args:
            # Every known key character is replaced; it counts as removed when no replacement brings it (or, for
            # line breaks, any line break) back. Keys the analysis does not know remove nothing that is claimed;
            # a replacement it does not know may bring anything back.
            tab = I.force(args[0])
            o = I.deref(tab) if isinstance(tab, Ref) else None
            if isinstance(o, ADict) and not o.open:
                repl, out_chars, opaque_value = {}, set(), False
                for k, v in o.entries.items():
                    v = I.force(v)
                    r = "" if (isinstance(v, Const) and v.v is None) else (chr(v.v) if isinstance(v, Const) and isinstance(v.v, int) else I.strval(v))
                    if r is None:
                        opaque_value = True
                        continue
                    out_chars |= set(r)
                    if isinstance(k, int):
                        repl[chr(k)] = r
                gone = frozenset() if opaque_value else frozenset(c for c in repl if c not in out_chars)
                if out_chars & LINE_BREAKS:
                    gone = gone - LINE_BREAKS
                keep = (lambda t: frozenset()) if opaque_value else (lambda t: t.removed - frozenset(out_chars))
                exact = all(isinstance(k, int) for k in o.entries) and not opaque_value
                return I.mkstr(_map_text(I, sv, lambda t: Text(t.name, keep(t) | gone, t.stripped),
                                         (lambda text: "".join(repl.get(c, c) for c in text)) if exact else (lambda text: text)))
            return Unk(f"translate({I.tag(recv)})", "str")
    return Unk(f"{I.tag(recv)}.{name}({', '.join(I.tag(a) for a in args)})")
