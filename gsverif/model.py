"""Program model of the gscrib package, built from source with ``ast`` only.

Nothing in here imports or executes gscrib.  The model resolves modules,
imports (including package re-exports and star imports), classes with a
linear MRO, methods, decorators, enum members and module-level constants.
"""
from __future__ import annotations

import ast
import hashlib
import pathlib
from dataclasses import dataclass, field


class AnalysisError(Exception):
    """The analysis itself is broken (anchor vanished, file unparsable...).

    Reported as ``ANALYSIS-ERROR`` with exit status 2, never as a violation
    and never as a silent pass."""


@dataclass
class FuncInfo:
    name: str
    qualname: str
    module: str
    cls: "ClassInfo | None"
    node: ast.FunctionDef
    decorators: frozenset

    @property
    def is_property(self):
        return "property" in self.decorators or "cached_property" in self.decorators

    @property
    def is_classmethod(self):
        return "classmethod" in self.decorators

    @property
    def is_staticmethod(self):
        return "staticmethod" in self.decorators

    @property
    def is_contextmanager(self):
        return "contextmanager" in self.decorators

    @property
    def is_generator(self):
        """A plain generator function: its own body yields (nested defs and lambdas do not count)."""
        if self.is_contextmanager:
            return False
        import ast as _ast
        stack = list(self.node.body)
        while stack:
            n = stack.pop()
            if isinstance(n, (_ast.Yield, _ast.YieldFrom)):
                return True
            if isinstance(n, (_ast.FunctionDef, _ast.AsyncFunctionDef, _ast.Lambda, _ast.ClassDef)):
                continue
            stack.extend(_ast.iter_child_nodes(n))
        return False

    @property
    def is_abstract(self):
        return "abstractmethod" in self.decorators

    @property
    def file(self):
        return self.module.replace(".", "/") + ".py"

    def __hash__(self):
        return id(self)

    def __repr__(self):
        return f"<func {self.qualname}>"


@dataclass
class ClassInfo:
    name: str
    module: str
    node: ast.ClassDef
    base_exprs: list
    bases: list = field(default_factory=list)        # ClassInfo or str (external)
    methods: dict = field(default_factory=dict)      # name -> FuncInfo
    attrs: dict = field(default_factory=dict)        # class-level name -> ast expr
    annotations: dict = field(default_factory=dict)  # class-level name -> annotation expr (ordered)
    decorators: frozenset = frozenset()
    _mro: list | None = None

    def mro(self):
        if self._mro is None:
            out = [self]
            for b in self.bases:
                if isinstance(b, ClassInfo):
                    for k in b.mro():
                        if k not in out:
                            out.append(k)
            self._mro = out
        return self._mro

    def ext_bases(self):
        out = []
        for k in self.mro():
            out += [b for b in k.bases if isinstance(b, str)]
        return out

    def is_subclass_of(self, name: str) -> bool:
        return any(k.name == name for k in self.mro()) or name in self.ext_bases()

    @property
    def is_enum(self):
        return self.is_subclass_of("BaseEnum") or "Enum" in self.ext_bases()

    @property
    def is_exception(self):
        return any(b in ("Exception", "BaseException", "ValueError", "TypeError",
                         "KeyError", "IndexError", "RuntimeError", "IOError", "OSError")
                   for b in self.ext_bases())

    @property
    def is_namedtuple(self):
        return "NamedTuple" in self.ext_bases()

    @property
    def is_dataclass(self):
        return "dataclass" in self.decorators

    def lookup(self, name: str, after: "ClassInfo | None" = None):
        chain = self.mro()
        if after is not None:
            chain = chain[chain.index(after) + 1:]
        for k in chain:
            if name in k.methods:
                return k.methods[name]
        return None

    def lookup_attr(self, name: str):
        for k in self.mro():
            if name in k.attrs:
                return k, k.attrs[name]
        return None, None

    def enum_members(self) -> dict:
        """member name -> python value (string for BaseEnum subclasses)."""
        out = {}
        for k in reversed(self.mro()):
            for n, e in k.attrs.items():
                if n.startswith("_"):
                    continue
                if isinstance(e, ast.Constant):
                    out[n] = e.value
        return out

    def __hash__(self):
        return id(self)

    def __repr__(self):
        return f"<class {self.module}.{self.name}>"


@dataclass
class ModuleInfo:
    name: str
    path: pathlib.Path
    tree: ast.Module
    is_pkg: bool
    ns: dict = field(default_factory=dict)   # name -> binding tuple
    source: str = ""


def _deco_name(d: ast.expr) -> str:
    if isinstance(d, ast.Call):
        d = d.func
    if isinstance(d, ast.Attribute):
        return d.attr
    if isinstance(d, ast.Name):
        return d.id
    return ast.unparse(d)


class Program:
    """All modules of one package directory."""

    def __init__(self, repo: str | pathlib.Path, package: str = "gscrib"):
        self.repo = pathlib.Path(repo)
        self.package = package
        self.pkg_dir = self.repo / package
        if not self.pkg_dir.is_dir():
            raise AnalysisError(f"package directory {self.pkg_dir} not found")
        self.modules: dict[str, ModuleInfo] = {}
        self.classes: dict[str, list[ClassInfo]] = {}
        self.functions: list[FuncInfo] = []
        self._load()
        self._bind()

    # ------------------------------------------------------------------ load
    def _load(self):
        files = sorted(self.pkg_dir.rglob("*.py"))
        if not files:
            raise AnalysisError(f"no python files under {self.pkg_dir}")
        h = hashlib.sha256()
        for p in files:
            rel = p.relative_to(self.repo)
            parts = list(rel.with_suffix("").parts)
            is_pkg = parts[-1] == "__init__"
            if is_pkg:
                parts = parts[:-1]
            name = ".".join(parts)
            src = p.read_text(encoding="utf-8")
            h.update(rel.as_posix().encode() + b"\0" + src.encode() + b"\0")
            try:
                tree = ast.parse(src, filename=str(p))
            except SyntaxError as e:
                raise AnalysisError(f"{rel}: does not parse: {e}") from e
            self.modules[name] = ModuleInfo(name, p, tree, is_pkg, source=src)
        self.digest = h.hexdigest()

    def _abs_module(self, mod: ModuleInfo, level: int, name: str | None) -> str:
        if level == 0:
            return name or ""
        parts = mod.name.split(".")
        if not mod.is_pkg:
            parts = parts[:-1]
        parts = parts[: len(parts) - (level - 1)]
        if name:
            parts += name.split(".")
        return ".".join(parts)

    def _bind(self):
        # pass 1: local definitions
        for mod in self.modules.values():
            for n in mod.tree.body:
                self._bind_stmt(mod, n)
        # pass 2: imports, to fixpoint (star imports and re-exports)
        pending = True
        rounds = 0
        while pending and rounds < 20:
            pending = False
            rounds += 1
            for mod in self.modules.values():
                for n in ast.walk(mod.tree) if False else self._toplevel_imports(mod):
                    if self._bind_import(mod, n):
                        pending = True
        # pass 3: resolve bases
        for lst in self.classes.values():
            for c in lst:
                mod = self.modules[c.module]
                for b in c.base_exprs:
                    r = self.resolve_expr_static(mod, b)
                    if r and r[0] == "class":
                        c.bases.append(r[1])
                    else:
                        c.bases.append(ast.unparse(b).split(".")[-1])

    def _toplevel_imports(self, mod):
        out = []

        def walk(body):
            for n in body:
                if isinstance(n, (ast.Import, ast.ImportFrom)):
                    out.append(n)
                elif isinstance(n, ast.If):
                    # `if TYPE_CHECKING:` imports are typing-only; still bind them
                    walk(n.body)
                    walk(n.orelse)
                elif isinstance(n, ast.Try):
                    walk(n.body)
        walk(mod.tree.body)
        return out

    def _bind_stmt(self, mod: ModuleInfo, n: ast.stmt):
        if isinstance(n, ast.ClassDef):
            ci = ClassInfo(n.name, mod.name, n, list(n.bases),
                           decorators=frozenset(_deco_name(d) for d in n.decorator_list))
            for s in n.body:
                if isinstance(s, ast.FunctionDef):
                    fi = FuncInfo(s.name, f"{n.name}.{s.name}", mod.name, ci, s,
                                  frozenset(_deco_name(d) for d in s.decorator_list))
                    # property setters etc. would overwrite; the repo has none
                    ci.methods[s.name] = fi
                    self.functions.append(fi)
                elif isinstance(s, ast.Assign):
                    for t in s.targets:
                        if isinstance(t, ast.Name):
                            ci.attrs[t.id] = s.value
                elif isinstance(s, ast.AnnAssign) and isinstance(s.target, ast.Name):
                    ci.annotations[s.target.id] = s.annotation
                    if s.value is not None:
                        ci.attrs[s.target.id] = s.value
            self.classes.setdefault(n.name, []).append(ci)
            mod.ns[n.name] = ("class", ci)
        elif isinstance(n, ast.FunctionDef):
            fi = FuncInfo(n.name, n.name, mod.name, None, n,
                          frozenset(_deco_name(d) for d in n.decorator_list))
            self.functions.append(fi)
            mod.ns[n.name] = ("func", fi)
        elif isinstance(n, ast.Assign):
            for t in n.targets:
                if isinstance(t, ast.Name):
                    mod.ns[t.id] = ("var", n.value, mod.name)
        elif isinstance(n, ast.AnnAssign) and isinstance(n.target, ast.Name) and n.value is not None:
            mod.ns[n.target.id] = ("var", n.value, mod.name)
        elif isinstance(n, (ast.If, ast.Try)):
            for s in n.body:
                self._bind_stmt(mod, s)

    def _bind_import(self, mod: ModuleInfo, n) -> bool:
        changed = False

        def put(name, binding):
            nonlocal changed
            cur = mod.ns.get(name)
            if cur == binding:
                return
            # a definition made in this module's own body is never replaced by an import
            if cur is not None and cur[0] in ("class", "func") and cur[1].module == mod.name:
                return
            if cur is not None and cur[0] == "var" and cur[2] == mod.name:
                return
            mod.ns[name] = binding
            changed = True

        if isinstance(n, ast.Import):
            for a in n.names:
                top = a.name.split(".")[0]
                if a.name in self.modules:
                    put(a.asname or top, ("module", a.name if a.asname else top))
                else:
                    put(a.asname or top, ("ext", a.name if a.asname else top))
        else:
            target = self._abs_module(mod, n.level, n.module)
            for a in n.names:
                if a.name == "*":
                    src = self.modules.get(target)
                    if src is None:
                        continue
                    exported = None
                    allv = src.ns.get("__all__")
                    if allv and allv[0] == "var":
                        try:
                            exported = list(ast.literal_eval(allv[1]))
                        except Exception:
                            exported = None
                    names = exported if exported is not None else [k for k in src.ns if not k.startswith("_")]
                    for k in names:
                        if k in src.ns:
                            put(k, src.ns[k])
                    continue
                sub = f"{target}.{a.name}" if target else a.name
                src = self.modules.get(target)
                # attribute of the package first (a re-export shadows the submodule of the same name)
                if src is not None and a.name in src.ns and src.ns[a.name] != ("module", sub):
                    put(a.asname or a.name, src.ns[a.name])
                elif sub in self.modules:
                    put(a.asname or a.name, ("module", sub))
                elif src is not None:
                    pass   # unresolved yet, later round
                else:
                    put(a.asname or a.name, ("ext", f"{target}.{a.name}"))
        return changed

    # ------------------------------------------------------------- resolve
    def resolve_name(self, modname: str, name: str):
        mod = self.modules.get(modname)
        if mod is None:
            return None
        return mod.ns.get(name)

    def resolve_expr_static(self, mod: ModuleInfo, e: ast.expr):
        """Resolve Name / dotted Attribute to a binding, statically."""
        if isinstance(e, ast.Name):
            return mod.ns.get(e.id)
        if isinstance(e, ast.Attribute):
            b = self.resolve_expr_static(mod, e.value)
            if b is None:
                return None
            if b[0] == "module":
                m = self.modules.get(b[1])
                if m is not None:
                    return m.ns.get(e.attr) or (("module", f"{b[1]}.{e.attr}") if f"{b[1]}.{e.attr}" in self.modules else None)
            if b[0] == "ext":
                return ("ext", f"{b[1]}.{e.attr}")
        return None

    def cls(self, name: str, module_hint: str | None = None) -> ClassInfo:
        lst = self.classes.get(name)
        if not lst:
            raise AnalysisError(f"class {name} not found in {self.package}")
        if module_hint:
            for c in lst:
                if module_hint in c.module:
                    return c
        if len(lst) > 1:
            raise AnalysisError(f"class name {name} is ambiguous: {[c.module for c in lst]}")
        return lst[0]

    def has_cls(self, name: str) -> bool:
        return name in self.classes

    def func(self, qualname: str, module_hint: str | None = None) -> FuncInfo:
        if "." in qualname:
            c, m = qualname.split(".", 1)
            ci = self.cls(c, module_hint)
            f = ci.lookup(m)
            if f is None:
                raise AnalysisError(f"method {qualname} not found")
            return f
        for mod in self.modules.values():
            if module_hint and module_hint not in mod.name:
                continue
            b = mod.ns.get(qualname)
            if b and b[0] == "func" and b[1].module == mod.name:
                return b[1]
        raise AnalysisError(f"function {qualname} not found")

    def enums(self) -> dict:
        out = {}
        for lst in self.classes.values():
            for c in lst:
                if c.is_enum and c.name != "BaseEnum":
                    out[c.name] = c
        return out

    def exception_parent_chain(self, name: str) -> list[str]:
        """Names of all (transitive) base classes of exception class `name`."""
        builtin_parents = {
            "ValueError": ["Exception"], "TypeError": ["Exception"], "KeyError": ["LookupError", "Exception"],
            "IndexError": ["LookupError", "Exception"], "LookupError": ["Exception"],
            "RuntimeError": ["Exception"], "OSError": ["Exception"], "IOError": ["OSError", "Exception"],
            "AttributeError": ["Exception"], "StopIteration": ["Exception"], "NotImplementedError": ["RuntimeError", "Exception"],
            "ZeroDivisionError": ["ArithmeticError", "Exception"], "Exception": ["BaseException"], "BaseException": [],
            "UnicodeDecodeError": ["ValueError", "Exception"], "UnicodeError": ["ValueError", "Exception"],
        }
        out = [name]
        if name in self.classes:
            for c in self.classes[name]:
                for k in c.mro():
                    if k.name not in out:
                        out.append(k.name)
                for b in c.ext_bases():
                    if b not in out:
                        out.append(b)
                    for p in builtin_parents.get(b, []):
                        if p not in out:
                            out.append(p)
        else:
            for p in builtin_parents.get(name, ["Exception"]):
                if p not in out:
                    out.append(p)
            if "BaseException" not in out:
                out.append("BaseException")
        return out

    def stats(self) -> dict:
        return {
            "modules": len(self.modules),
            "classes": sum(len(v) for v in self.classes.values()),
            "functions": len(self.functions),
            "enum_classes": len(self.enums()),
            "source_digest": self.digest[:16],
        }
