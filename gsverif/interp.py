"""Path-sensitive abstract interpreter over the gscrib sources.

* values: constants, enum members, polynomials of symbols (numbers are what
  expression of the inputs they are, not how big), optional numbers, finite
  unknowns (bool / enum), provenance terms for strings, heap references;
* every undecidable test forks; one *abstract path* is one complete sequence
  of decisions.  Paths are enumerated depth-first by re-executing from the
  entry with a recorded decision prefix (no solver, no concrete execution of
  gscrib code, no import of gscrib);
* along a path the interpreter records *events* (attribute stores, container
  mutations, calls of designated functions, calls leaving the package,
  raises) with the call chain that reached them.
"""
from __future__ import annotations

import ast
import itertools
from dataclasses import dataclass, field
from fractions import Fraction

from .model import Program, FuncInfo, ClassInfo, AnalysisError
from .poly import Poly, app, even_app
from .values import *


# ------------------------------------------------------------------ control
class AbsRaise(Exception):
    def __init__(self, exc: ExcV, site, stack):
        self.exc = exc
        self.site = site
        self.stack = stack

    def __str__(self):
        return f"{self.exc.cls}@{self.site}"


class _Return(Exception):
    def __init__(self, value):
        self.value = value


class _Break(Exception):
    pass


class _Continue(Exception):
    pass


class PathAbort(Exception):
    """Abandon this abstract path (infeasible by assumption or over budget)."""


@dataclass
class Event:
    kind: str          # SET, MUT, CALL, EXT, RAISE, NOTE
    site: tuple        # (function qualname, lineno)
    stack: tuple       # qualnames of the call chain, outermost first
    data: dict

    def where(self):
        return f"{self.site[0]}:{self.site[1]}"


class Frame:
    __slots__ = ("func", "module", "env", "dyncls", "owner", "selfv", "parent", "yield_cb", "qualname", "cur_exc", "globals_decl")

    def __init__(self, func, module, env, dyncls=None, owner=None, selfv=None, parent=None, qualname="<entry>"):
        self.func = func
        self.module = module
        self.env = env
        self.dyncls = dyncls
        self.owner = owner
        self.selfv = selfv
        self.parent = parent
        self.yield_cb = None
        self.qualname = qualname
        self.cur_exc = None
        self.globals_decl = None


@dataclass
class PathResult:
    outcome: str               # 'return' | 'raise'
    value: object              # return value or ExcV
    raise_site: tuple | None
    raise_stack: tuple | None
    trace: list
    facts: dict
    heap: dict
    decisions: list

    def events(self, *kinds):
        return [e for e in self.trace if e.kind in kinds]


class Chooser:
    """Depth-first enumeration of decision sequences by replay.

    `max_dev` bounds the number of decisions per path that deviate from the
    first (default) option; None = exhaustive."""

    def __init__(self, max_dev=None):
        self.stack = []     # [idx, n]
        self.pos = 0
        self.max_dev = max_dev
        self.truncated = 0  # alternatives skipped because of the deviation bound

    def start(self):
        self.pos = 0

    def choose(self, n: int) -> int:
        if n <= 1:
            return 0
        if self.pos < len(self.stack):
            idx, m = self.stack[self.pos]
            if m != n:
                raise AnalysisError("non-deterministic replay (option count changed)")
        else:
            idx = 0
            self.stack.append([0, n])
        self.pos += 1
        return idx

    def advance(self) -> bool:
        del self.stack[self.pos:]
        while self.stack:
            top = self.stack[-1]
            if top[0] < top[1] - 1:
                if self.max_dev is None or top[0] > 0:
                    top[0] += 1
                    return True
                devs = sum(1 for e in self.stack[:-1] if e[0] > 0)
                if devs + 1 <= self.max_dev:
                    top[0] += 1
                    return True
                self.truncated += top[1] - 1 - top[0]
            self.stack.pop()
        return False


PURE_STR_METHODS = {"upper", "lower", "strip", "lstrip", "rstrip", "startswith", "endswith", "isidentifier",
                    "isalnum", "isdigit", "split", "join", "replace", "format", "find", "index", "count",
                    "title", "capitalize", "isalpha", "encode", "splitlines", "zfill", "ljust", "rjust"}


class Interp:
    def __init__(self, program: Program, *, max_depth=40, loop_unroll=1):
        self.P = program
        self.max_depth = max_depth
        self.loop_unroll = loop_unroll
        self.intrinsics = {}          # qualname or ext name -> callable(interp, fv, args, kwargs, node)
        self.event_funcs = set()      # qualnames whose calls are recorded as CALL events
        self.ext_result = None        # callable(interp, callee, args, kwargs) -> V | None
        self.tracked_classes = None   # None: record SET on every heap object
        self.sign_mode = "bool"       # bool | sign | sign+nan
        self.nanable = lambda sym: False
        self.default_fact = None      # callable(key) -> pinned value | None
        self.apps = {}                # symbol name of an uninterpreted application -> (function, argument polys)
        self.int_symbols = set()      # symbols that only take integer values
        self.while_bound = None       # iterations of a `while` before the path is abandoned
        self.positive_syms = set()    # symbols known to be > 0 (lengths of non-empty things)
        self.transform_mode = "uninterpreted"   # or "identity"
        self.ext_quiet = lambda tag: "logger" in tag or tag.startswith("logging")
        self.globals_cache = {}
        self.member_attrs = {}
        self.static_heap = {}
        self._addr = itertools.count(1)
        self._fresh = itertools.count(1)
        self.static_depth = 0
        self.unsupported = {}
        self.io_failures = False  # when set: a writer's write() may fail with DeviceWriteError after the line was handed to it
        self.key_poly = {}        # canonical key of a compared polynomial -> the polynomial (for rules that use equalities)
        self.unresolved_calls = {}
        self._memo_reads = {}
        self.resolved_calls = 0
        # per path
        self.heap = {}
        self.facts = {}
        self.trace = []
        self.chooser = Chooser()
        self.frames = []
        self.decisions = []
        self.steps = 0
        self.max_steps = 400000
        from . import intrinsics
        intrinsics.install(self)

    # ================================================================ paths
    def explore(self, setup, entry, *, max_paths=200000, on_path=None, max_dev=None):
        """Enumerate abstract paths.  `setup(interp)` prepares heap/facts and
        returns a context object; `entry(interp, ctx)` runs the entry point."""
        results = []
        self.chooser = Chooser(max_dev)
        n = 0
        while True:
            self.chooser.start()
            self.heap = {a: o.clone() for a, o in self.static_heap.items()}
            self.facts = {}
            self.trace = []
            self.frames = []
            self.decisions = []
            self.steps = 0
            self._fresh = itertools.count(1)
            res = None
            try:
                ctx = setup(self)
                try:
                    v = entry(self, ctx)
                    res = PathResult("return", v, None, None, self.trace, self.facts, self.heap, self.decisions)
                except AbsRaise as e:
                    res = PathResult("raise", e.exc, e.site, e.stack, self.trace, self.facts, self.heap, self.decisions)
            except PathAbort:
                res = None
            n += 1
            if res is not None:
                if on_path is not None:
                    if on_path(res) is True:
                        break
                else:
                    results.append(res)
            if n > max_paths:
                raise AnalysisError(f"path budget exceeded ({max_paths})")
            if not self.chooser.advance():
                break
        self.last_path_count = n
        self.last_truncated = self.chooser.truncated
        return results

    # ================================================================ choices
    def decide(self, key: str, options: list):
        """Pick (and remember) one of `options` for the fact `key` on this path."""
        if key in self.facts:
            return self.facts[key]
        if self.default_fact is not None:
            d = self.default_fact(key)
            if d is not None and d in options:
                self.facts[key] = d
                return d
        if self.static_depth:
            v = options[0]
        else:
            i = self.chooser.choose(len(options))
            v = options[i]
            self.decisions.append((key, v))
        self.facts[key] = v
        return v

    def assume(self, key: str, value):
        self.facts[key] = value

    def fresh(self, tag: str) -> str:
        return f"{tag}#{next(self._fresh)}"

    # ================================================================ heap
    def alloc(self, obj) -> Ref:
        a = next(self._addr)
        self.heap[a] = obj
        if self.static_depth:
            self.static_heap[a] = obj.clone()
        return Ref(a)

    def deref(self, r: Ref):
        return self.heap[r.addr]

    def site(self, node):
        f = self.frames[-1] if self.frames else None
        return (f.qualname if f else "<entry>", getattr(node, "lineno", 0))

    def stack(self):
        return tuple(f.qualname for f in self.frames)

    def emit(self, kind, node, **data):
        ev = Event(kind, self.site(node), self.stack(), data)
        self.trace.append(ev)
        return ev

    def raise_(self, cls: str, node, *args, note=None):
        exc = ExcV(cls, tuple(args))
        self.emit("RAISE", node, exc=cls, note=note)
        raise AbsRaise(exc, self.site(node), self.stack())

    # ================================================================ forcing
    def force(self, v):
        """Resolve Opt / Choice through the path facts (forking if undecided)."""
        if isinstance(v, Opt):
            k = self.decide("opt:" + v.name, ["some", "none"])
            return NONE if k == "none" else Num(Poly.sym(v.name))
        if isinstance(v, Choice):
            if v.kind == "bool":
                return Const(self.decide("bool:" + v.name, [False, True]))
            if v.kind == "optional":
                k = self.decide("opt:" + v.name, ["none", "some"])
                return NONE if k == "none" else Unk(v.name, "object")
            if v.kind.startswith("enum:"):
                cname = v.kind[5:]
                ci = self.P.cls(cname)
                names = list(ci.enum_members())
                return Member(cname, self.decide("enum:" + v.name, names))
        return v

    def member_value(self, m: Member):
        return self.P.cls(m.cls).enum_members()[m.name]

    # ---------------------------------------------------------------- numbers
    def as_num(self, v):
        v = self.force(v)
        if isinstance(v, Num):
            return v
        if isinstance(v, Const) and isinstance(v.v, (int, float)) and not isinstance(v.v, bool):
            try:
                return Num(Poly.const(v.v), isinstance(v.v, int))
            except ValueError:
                return Num(Poly.sym("nan" if v.v != v.v else ("inf" if v.v > 0 else "-inf")))
        if isinstance(v, Const) and isinstance(v.v, bool):
            return Num(Poly.const(int(v.v)), True)
        return None

    def definite_sign(self, p: Poly):
        """Sign of p when it follows from the positivity of its symbols alone."""
        if not p.terms:
            return 0
        if not self.positive_syms:
            return None
        signs = set()
        for m, c in p.terms.items():
            if any(s not in self.positive_syms or e < 0 or e % 1 for s, e in m):
                return None
            signs.add(c > 0)
        if len(signs) == 1:
            return 1 if signs.pop() else -1
        return None

    def _copysign_reduce(self, p: Poly) -> Poly:
        """c * copysign(a, b) has the sign of c * b (a magnitude, taken as non-zero)."""
        sm = p.single_monomial()
        if sm is not None and len(sm[0]) == 1 and sm[0][0][1] == 1:
            ent = self.apps.get(sm[0][0][0])
            if ent is not None and ent[0] == "copysign" and len(ent[1]) == 2:
                return ent[1][1] * Poly.const(sm[1])
        return p

    def sign(self, p: Poly):
        """-1, 0, 1 for the sign of p; None when unordered (NaN)."""
        p = self._copysign_reduce(p)
        if p.is_const():
            c = p.const_value()
            return (c > 0) - (c < 0)
        ds = self.definite_sign(p)
        if ds is not None:
            return ds
        lead = p.terms[min(p.terms)]
        flip = lead < 0
        q = -p if flip else p
        key = "sign:" + q.key()
        self.key_poly[q.key()] = q
        opts = [1, -1, 0]
        if self.sign_mode == "sign+nan" and any(self.nanable(s) for s in q.symbols()):
            opts = [1, -1, 0, None]
        s = self.decide(key, opts)
        if s is None:
            return None
        return -s if flip else s

    def num_compare(self, a: Poly, op, b: Poly) -> bool:
        d = self._copysign_reduce(a - b)
        if d.is_const() or self.sign_mode != "bool" or self.definite_sign(d) is not None:
            s = self.sign(d)
            if s is None:
                return isinstance(op, ast.NotEq)
            return {ast.Lt: s < 0, ast.LtE: s <= 0, ast.Gt: s > 0, ast.GtE: s >= 0,
                    ast.Eq: s == 0, ast.NotEq: s != 0}[type(op)]
        # two-valued mode: decide each comparison text once
        lead = d.terms[min(d.terms)]
        flip = lead < 0
        q = -d if flip else d
        opn = type(op).__name__
        if flip:
            opn = {"Lt": "Gt", "LtE": "GtE", "Gt": "Lt", "GtE": "LtE"}.get(opn, opn)
        # q opn 0
        self.key_poly[q.key()] = q
        kind = "Eq" if opn in ("Eq", "NotEq") else ("Lt" if opn in ("Lt", "GtE") else "Gt")
        key = f"cmp:{kind}:" + q.key()
        if key not in self.facts and any(self.facts.get(f"cmp:{other}:" + q.key()) is True for other in ("Eq", "Lt", "Gt") if other != kind):
            # q < 0, q == 0 and q > 0 exclude one another: a path that established one of them cannot take another
            # (sound for NaN as well); recorded as a fact so that rules reading the facts see it
            self.facts[key] = False
        r = self.decide(key, [False, True])
        return r if opn == kind else not r

    # ---------------------------------------------------------------- truth
    def truth(self, v) -> bool:
        v = self.force(v)
        if isinstance(v, Const):
            return bool(v.v)
        if isinstance(v, Num):
            return self.num_compare(v.p, ast.NotEq(), Poly())
        if isinstance(v, (Member, FuncV, ClassV, ExtV, Closure, BoundBuiltin, ModuleV, ExcV)):
            if isinstance(v, Member):
                return bool(self.member_value(v))
            return True
        if isinstance(v, Tup):
            return len(v.items) > 0
        if isinstance(v, NT):
            return True
        if isinstance(v, Ref):
            o = self.deref(v)
            if isinstance(o, ADict):
                if o.entries:
                    return True
                if not o.open:
                    return False
                return self.open_nonempty(o)
            if isinstance(o, AList):
                if o.items is not None:
                    return len(o.items) > 0
                return self.list_nonempty(o)
            return True
        if isinstance(v, Str):
            if any(isinstance(p, Lit) and p.text for p in v.parts):
                return True
            if not v.parts:
                return False
            return self.decide("nonempty:" + repr(v), [True, False])
        if isinstance(v, Bytes):
            return self.truth(v.s)
        if isinstance(v, BV):
            return len(v.parts) > 0
        if isinstance(v, Unk):
            return self.decide("truth:" + v.tag, [True, False])
        return self.decide("truth:" + repr(v), [True, False])

    def list_nonempty(self, o: AList) -> bool:
        if o.universal:
            return True
        return self.decide("nonempty:" + o.base, [True, False])

    # ---------------------------------------------------------------- equality
    def strval(self, v):
        if isinstance(v, Member):
            return self.member_value(v)
        if isinstance(v, Const) and isinstance(v.v, str):
            return v.v
        if isinstance(v, Str) and all(isinstance(p, Lit) for p in v.parts):
            return "".join(p.text for p in v.parts)
        return None

    def eq(self, a, b, node=None) -> bool:
        a = self.force(a)
        b = self.force(b)
        if isinstance(a, NT) or isinstance(b, NT):
            nt, other = (a, b) if isinstance(a, NT) else (b, a)
            ci = self.P.cls(nt.cls)
            f = ci.lookup("__eq__")
            if f is not None:
                return self.truth(self.call_function(f, [nt, other], {}, node, dyncls=ci))
            if isinstance(other, (NT, Tup)):
                if len(other.items) != len(nt.items):
                    return False
                return all(self.eq(x, y, node) for x, y in zip(nt.items, other.items))
            return False
        sa, sb = self.strval(a), self.strval(b)
        if sa is not None and sb is not None:
            return sa == sb
        na, nb = self.as_num(a), self.as_num(b)
        if na is not None and nb is not None:
            return self.num_compare(na.p, ast.Eq(), nb.p)
        if isinstance(a, Const) and isinstance(b, Const):
            return a.v == b.v
        if isinstance(a, Const) and a.v is None or isinstance(b, Const) and b.v is None:
            x = b if (isinstance(a, Const) and a.v is None) else a
            if isinstance(x, (Num, Member, Tup, Ref, Str, FuncV, ClassV, Closure, Bytes)):
                return False
            if isinstance(x, Const):
                return x.v is None
            return self.decide(f"isnone:{x!r}", [False, True])
        if isinstance(a, Tup) and isinstance(b, Tup):
            if len(a.items) != len(b.items):
                return False
            return all(self.eq(x, y, node) for x, y in zip(a.items, b.items))
        if isinstance(a, Ref) and isinstance(b, Ref):
            if a.addr == b.addr:
                return True
            oa, ob = self.deref(a), self.deref(b)
            if isinstance(oa, AObj) or isinstance(ob, AObj):
                return False
            if isinstance(oa, AList) and isinstance(ob, AList) and oa.items is not None and ob.items is not None:
                if len(oa.items) != len(ob.items):
                    return False
                return all(self.eq(x, y, node) for x, y in zip(oa.items, ob.items))
            return self.decide(f"eq:{a.addr}:{b.addr}", [False, True])
        if isinstance(a, (ClassV, FuncV, Member)) or isinstance(b, (ClassV, FuncV, Member)):
            if type(a) is type(b):
                return a == b
            if (sa is None) != (sb is None) and isinstance(a, (Num,)) or isinstance(b, (Num,)):
                return False
            if isinstance(a, (Unk, Str)) or isinstance(b, (Unk, Str)):
                k = sorted([repr(a), repr(b)])
                return self.decide(f"eq:{k[0]}:{k[1]}", [False, True])
            return False
        if a == b and isinstance(a, (Unk, Str)):
            return True
        if isinstance(a, Unk) and isinstance(b, Unk) and a.typ == b.typ and a.typ in self.IDENTITY_TYPES:
            return a.tag == b.tag      # distinct external objects
        if type(a) is not type(b) and not isinstance(a, (Unk, Str)) and not isinstance(b, (Unk, Str)):
            return False
        k = sorted([repr(a), repr(b)])
        return self.decide(f"eq:{k[0]}:{k[1]}", [False, True])

    def is_none(self, v) -> bool:
        v = self.force(v)
        if isinstance(v, Const):
            return v.v is None
        if isinstance(v, Unk):
            if v.typ and v.typ != "opt":
                return False
            if v.tag.startswith(self.ARITHMETIC_TAGS):
                return False                     # the result of an arithmetic operator is never None
            return self.decide("isnone:" + v.tag, [False, True])
        return False

    ARITHMETIC_TAGS = tuple(f"{n}(" for n in ("add", "sub", "mult", "div", "matmult", "floordiv", "mod", "pow", "unary"))

    # ================================================================ names
    def lookup_name(self, name: str, frame: Frame, node=None):
        f = frame
        while f is not None:
            if name in f.env:
                return f.env[name]
            f = f.parent
        return self.lookup_global(frame.module, name, node)

    def lookup_global(self, modname: str, name: str, node=None):
        b = self.P.resolve_name(modname, name)
        if b is None:
            return self.builtin(name)
        return self.binding_value(b, name)

    def binding_value(self, b, name):
        kind = b[0]
        if kind == "class":
            return ClassV(b[1])
        if kind == "func":
            return FuncV(b[1])
        if kind == "module":
            return ModuleV(b[1])
        if kind == "ext":
            return ExtV(b[1])
        if kind == "var":
            key = (b[2], name)
            if key not in self.globals_cache:
                self.globals_cache[key] = Unk(f"global:{name}")  # recursion guard
                self.static_depth += 1
                saved = (self.frames, self.facts)
                try:
                    self.frames = []
                    self.facts = {}
                    fr = Frame(None, b[2], {}, qualname=f"<module {b[2]}>")
                    self.frames.append(fr)
                    try:
                        v = self.eval(b[1], fr)
                    except AbsRaise:
                        v = Unk(f"global:{name}")
                finally:
                    self.frames, self.facts = saved
                    self.static_depth -= 1
                self.globals_cache[key] = v
                # make freshly created static objects visible on the current path
                for a, o in self.static_heap.items():
                    if a not in self.heap:
                        self.heap[a] = o.clone()
            return self.globals_cache[key]
        return Unk(f"global:{name}")

    BUILTINS = {"len", "isinstance", "str", "float", "int", "abs", "max", "min", "bool", "bytes", "dict", "list",
                "tuple", "set", "zip", "enumerate", "map", "range", "sorted", "next", "iter", "hasattr", "getattr",
                "type", "any", "all", "super", "print", "round", "repr", "id", "sum", "reversed", "object", "frozenset",
                "callable", "issubclass", "setattr", "filter", "ord", "chr", "divmod", "pow", "open", "format", "vars", "__import__"}
    BUILTIN_EXC = {"ValueError", "TypeError", "KeyError", "IndexError", "RuntimeError", "Exception", "IOError",
                   "OSError", "AttributeError", "StopIteration", "NotImplementedError", "ZeroDivisionError",
                   "BaseException", "UnicodeDecodeError", "LookupError", "AssertionError", "TimeoutError",
                   "ConnectionError", "InterruptedError", "EOFError", "KeyboardInterrupt", "SystemExit"}

    def builtin(self, name):
        if name in ("True", "False", "None"):
            return Const({"True": True, "False": False, "None": None}[name])
        if name in self.BUILTINS or name in self.BUILTIN_EXC:
            return ExtV(name)
        if name == "__name__":
            return Const("module")
        return Unk(f"name:{name}")

    # ================================================================ eval
    def eval(self, e: ast.expr, fr: Frame):
        self.steps += 1
        if self.steps > self.max_steps:
            raise AnalysisError("step budget exceeded on one abstract path")
        m = getattr(self, "e_" + type(e).__name__, None)
        if m is None:
            self.unsupported[type(e).__name__] = self.unsupported.get(type(e).__name__, 0) + 1
            # never guess what unknown syntax does: the run is analysis-broken, not a pass and not a violation
            raise AnalysisError(f"expression syntax the interpreter does not implement: {type(e).__name__} at "
                                f"{fr.qualname} line {getattr(e, 'lineno', '?')}")
        return m(e, fr)

    def e_Constant(self, e, fr):
        if isinstance(e.value, (int, float)) and not isinstance(e.value, bool):
            return Const(e.value)
        return Const(e.value)

    def e_Name(self, e, fr):
        return self.lookup_name(e.id, fr, e)

    def e_Tuple(self, e, fr):
        return Tup(tuple(self.eval_seq(e.elts, fr)))

    def e_List(self, e, fr):
        return self.alloc(AList(self.eval_seq(e.elts, fr)))

    def e_Set(self, e, fr):
        return self.alloc(AList(self.eval_seq(e.elts, fr), kind="set"))

    def eval_seq(self, elts, fr):
        out = []
        for x in elts:
            if isinstance(x, ast.Starred):
                out += self.iterate(self.eval(x.value, fr), x, star=True)
            else:
                out.append(self.eval(x, fr))
        return out

    def e_Dict(self, e, fr):
        d = ADict()
        for k, v in zip(e.keys, e.values):
            val = self.eval(v, fr)
            if k is None:
                self.dict_merge(d, val, e)
            else:
                self.dict_set(d, self.eval(k, fr), val)
        return self.alloc(d)

    def e_JoinedStr(self, e, fr):
        parts = []
        for v in e.values:
            if isinstance(v, ast.Constant):
                parts.append(Lit(v.value))
            elif isinstance(v, ast.FormattedValue):
                val = self.eval(v.value, fr)
                spec = ""
                if v.format_spec is not None:
                    sv = self.eval(v.format_spec, fr)
                    spec = self.strval(sv)
                    if spec is None:
                        ss = self.as_str(sv)
                        spec = "".join(p.text if isinstance(p, Lit) else "{" + (self.tag(p.value) if isinstance(p, (StrOf, NumFmt)) else "?") + "}"
                                       for p in ss.parts) if ss is not None else "?"
                conv = {115: "!s", 114: "!r", 97: "!a"}.get(v.conversion, "")
                parts += self.str_parts(val, spec + conv)
        return self.mkstr(parts)

    def str_parts(self, val, spec=""):
        """Parts that the textual interpolation of `val` contributes."""
        val = self.force(val) if isinstance(val, (Choice,)) else val
        if isinstance(val, Str):
            return list(val.parts) + ([RStripEnd()] if val.rstripped else [])
        if isinstance(val, Const) and isinstance(val.v, str) and not spec.strip("!s"):
            return [Lit(val.v)]
        if isinstance(val, Const) and not spec:
            return [Lit(str(val.v))]
        if isinstance(val, Member) and not spec:
            return [StrOf(val, spec)]
        if isinstance(val, Unk) and val.typ == "str":
            return [Text(val.tag)]
        return [StrOf(val, spec)]

    def mkstr(self, parts):
        out = []
        for p in parts:
            if isinstance(p, Lit) and out and isinstance(out[-1], Lit):
                out[-1] = Lit(out[-1].text + p.text)
            elif isinstance(p, Lit) and p.text == "":
                continue
            else:
                out.append(p)
        if all(isinstance(p, Lit) for p in out):
            return Const("".join(p.text for p in out))
        return Str(tuple(out))

    def as_bv(self, v):
        if isinstance(v, BV):
            return v
        if isinstance(v, Const) and isinstance(v.v, bytes) and v.v == b"":
            return BV(())
        if isinstance(v, Const) and isinstance(v.v, bytes) and v.v == b"\n":
            return BV((BNL(),))
        return None

    def bv_refine(self, parts):
        """View segments the path has decided to contain a carriage return as head (ends with the CR) + tail."""
        out = []
        for x in parts:
            if isinstance(x, BSeg) and not (x.lo or x.hi) and self.facts.get(f"hascr:{x.name}") is True:
                out.append(BSeg(x.name + "~h"))
                if self.facts.get(f"crtail:{x.name}") is True:
                    out.append(BSeg(x.name + "~t"))
            else:
                out.append(x)
        return tuple(out)

    def bv_len(self, parts) -> Poly:
        p = Poly()
        for x in self.bv_refine(parts):
            if isinstance(x, BNL):
                p = p + Poly.const(1)
            else:
                p = p + Poly.sym(f"len({x.name})") - Poly.const(x.lo + x.hi)
        return p

    def bv_split(self, parts, pos: Poly):
        """Split `parts` at byte offset `pos` -> (left, right), or None when the offset is
        neither at a part boundary nor a constant number of bytes from one."""
        acc = Poly()
        parts = self.bv_refine(parts)
        for i, x in enumerate(parts):
            if (pos - acc).is_zero():
                return tuple(parts[:i]), tuple(parts[i:])
            nxt = acc + self.bv_len((x,))
            if isinstance(x, BSeg) and not (pos - nxt).is_zero():
                d1, d2 = pos - acc, nxt - pos
                if d1.is_const() and d1.const_value() > 0 and d1.const_value().denominator == 1:
                    k = int(d1.const_value())
                    # (for a segment longer than k bytes: one such input suffices to expose a wrong cut)
                    self.positive_syms.update({f"len({x.name}<:{k}>)", f"len({x.name}<{k}:>)"})
                    return tuple(parts[:i]) + (BSeg(f"{x.name}<:{k}>"),), (BSeg(f"{x.name}<{k}:>"),) + tuple(parts[i + 1:])
                if d2.is_const() and d2.const_value() > 0 and d2.const_value().denominator == 1:
                    k = int(d2.const_value())
                    self.positive_syms.update({f"len({x.name}<:-{k}>)", f"len({x.name}<-{k}:>)"})
                    return tuple(parts[:i]) + (BSeg(f"{x.name}<:-{k}>"),), (BSeg(f"{x.name}<-{k}:>"),) + tuple(parts[i + 1:])
            acc = nxt
        if (pos - acc).is_zero():
            return tuple(parts), ()
        d = pos - acc
        if d.is_const() and d.const_value() > 0:
            return tuple(parts), ()        # slicing past the end
        return None

    def as_str(self, v):
        """Str view of a string-like value (or None)."""
        if isinstance(v, Str):
            return v
        if isinstance(v, Const) and isinstance(v.v, str):
            return Str((Lit(v.v),) if v.v else ())
        if isinstance(v, Unk) and v.typ == "str":
            return Str((Text(v.tag),))
        return None

    def e_Attribute(self, e, fr):
        return self.getattr(self.eval(e.value, fr), e.attr, e)

    def e_Compare(self, e, fr):
        left = self.eval(e.left, fr)
        result = True
        for op, c in zip(e.ops, e.comparators):
            right = self.eval(c, fr)
            if not self.compare(left, op, right, e):
                return FALSE
            left = right
        return TRUE

    def compare(self, a, op, b, node) -> bool:
        if isinstance(op, ast.Eq):
            return self.eq(a, b, node)
        if isinstance(op, ast.NotEq):
            a2, b2 = self.force(a), self.force(b)
            if isinstance(a2, NT):
                f = self.P.cls(a2.cls).lookup("__ne__")
                if f is not None:
                    return self.truth(self.call_function(f, [a2, b2], {}, node, dyncls=self.P.cls(a2.cls)))
            return not self.eq(a, b, node)
        if isinstance(op, (ast.Is, ast.IsNot)):
            r = self.identical(a, b)
            return r if isinstance(op, ast.Is) else not r
        if isinstance(op, (ast.In, ast.NotIn)):
            r = self.contains(b, a, node)
            return r if isinstance(op, ast.In) else not r
        # ordering
        a2, b2 = self.force(a), self.force(b)
        if isinstance(a2, NT):
            name = {ast.Lt: "__lt__", ast.LtE: "__le__", ast.Gt: "__gt__", ast.GtE: "__ge__"}[type(op)]
            ci = self.P.cls(a2.cls)
            f = ci.lookup(name)
            if f is not None:
                return self.truth(self.call_function(f, [a2, b2], {}, node, dyncls=ci))
        na, nb = self.as_num(a2), self.as_num(b2)
        if na is not None and nb is not None:
            return self.num_compare(na.p, op, nb.p)
        if isinstance(a2, Const) and isinstance(b2, Const):
            try:
                return {ast.Lt: a2.v < b2.v, ast.LtE: a2.v <= b2.v, ast.Gt: a2.v > b2.v, ast.GtE: a2.v >= b2.v}[type(op)]
            except TypeError:
                self.raise_("TypeError", node, note="ordering of incomparable constants")
        if (isinstance(a2, Const) and a2.v is None) or (isinstance(b2, Const) and b2.v is None):
            self.raise_("TypeError", node, note="ordering comparison with None")
        key = f"cmp:{type(op).__name__}:{a2!r}:{b2!r}"
        return self.decide(key, [True, False])

    def identical(self, a, b) -> bool:
        a, b = self.force(a), self.force(b)
        if isinstance(b, Const) and b.v is None:
            return self.is_none(a)
        if isinstance(a, Const) and a.v is None:
            return self.is_none(b)
        if isinstance(a, Const) and isinstance(b, Const):
            if isinstance(a.v, bool) or isinstance(b.v, bool):
                return a.v is b.v
            return a.v == b.v and type(a.v) is type(b.v)
        if isinstance(a, Member) or isinstance(b, Member):
            return a == b if type(a) is type(b) else False
        if isinstance(a, Ref) and isinstance(b, Ref):
            return a.addr == b.addr
        if isinstance(a, ClassV) and isinstance(b, ClassV):
            return a.ci is b.ci
        if isinstance(a, Const) and isinstance(a.v, bool) or isinstance(b, Const) and isinstance(b.v, bool):
            x = b if isinstance(a, Const) else a
            if isinstance(x, Unk):
                want = a.v if isinstance(a, Const) else b.v
                got = self.decide("istrue:" + x.tag, [False, True, "other"])
                return got is want
            return False
        if a == b:
            return True
        if type(a) is not type(b):
            return False
        k = sorted([repr(a), repr(b)])
        return self.decide(f"is:{k[0]}:{k[1]}", [False, True])

    def contains(self, container, item, node) -> bool:
        container = self.force(container)
        item = self.force(item)
        if isinstance(container, Tup):
            return any(self.eq(item, x, node) for x in container.items)
        if isinstance(container, NT):
            return any(self.eq(item, x, node) for x in container.items)
        if isinstance(container, Const) and isinstance(container.v, str):
            s = self.strval(item)
            if s is not None:
                return s in container.v
        if isinstance(container, Ref):
            o = self.deref(container)
            if isinstance(o, ADict):
                return self.dict_has(o, item, container)
            if isinstance(o, AList):
                if o.items is not None:
                    return any(self.eq(item, x, node) for x in o.items)
                return self.decide(f"in:{item!r}:{o.base}", [False, True])
        s = self.as_str(container)
        if s is not None:
            si = self.strval(item)
            if si is not None and any(isinstance(p, Lit) and si in p.text for p in s.parts):
                return True
        return self.decide(f"in:{item!r}:{container!r}", [False, True])

    def e_BoolOp(self, e, fr):
        is_and = isinstance(e.op, ast.And)
        v = None
        for i, x in enumerate(e.values):
            v = self.eval(x, fr)
            if i == len(e.values) - 1:
                return v
            # `x or 0` on a number is numerically x
            if not is_and and isinstance(self.force(v), Num):
                nxt = e.values[i + 1]
                if isinstance(nxt, ast.Constant) and nxt.value in (0, 0.0) and not isinstance(nxt.value, bool) and i + 1 == len(e.values) - 1:
                    return self.force(v)
            t = self.truth(v)
            if t != is_and:
                return v
        return v

    def e_UnaryOp(self, e, fr):
        v = self.eval(e.operand, fr)
        if isinstance(e.op, ast.Not):
            return Const(not self.truth(v))
        v = self.force(v)
        if isinstance(v, NT):
            name = {ast.USub: "__neg__", ast.UAdd: "__pos__"}.get(type(e.op))
            ci = self.P.cls(v.cls)
            f = ci.lookup(name) if name else None
            if f is not None:
                return self.call_function(f, [v], {}, e, dyncls=ci)
        n = self.as_num(v)
        if n is not None:
            if isinstance(e.op, ast.USub):
                return Num(-n.p, n.is_int)
            if isinstance(e.op, ast.UAdd):
                return n
        if isinstance(v, Const) and v.v is None:
            self.raise_("TypeError", e, note="unary operator on None")
        return Unk(f"unary({type(e.op).__name__},{self.tag(v)})")

    def e_IfExp(self, e, fr):
        return self.eval(e.body if self.truth(self.eval(e.test, fr)) else e.orelse, fr)

    def tag(self, v):
        if isinstance(v, Unk):
            return v.tag
        if isinstance(v, MatProd):
            return "(" + " @ ".join(self.tag(f) for f in v.factors) + ")"
        if isinstance(v, Ref) and isinstance(self.heap.get(v.addr), AMat):
            o = self.heap[v.addr]
            return o.base + "".join("{" + k + "=" + self.tag(x) + "}" for k, x in o.sets)
        if isinstance(v, Ref) and isinstance(self.heap.get(v.addr), AList) and self.heap[v.addr].items is not None:
            return "[" + ", ".join(self.tag(x) for x in self.heap[v.addr].items) + "]"
        if isinstance(v, (Tup, ArrV)):
            return "(" + ", ".join(self.tag(x) for x in v.items) + ")"
        if isinstance(v, NT):
            return v.cls + "(" + ", ".join(self.tag(x) for x in v.items) + ")"
        if isinstance(v, Num):
            return v.p.key()
        return repr(v)

    BINOP_DUNDER = {ast.Add: ("__add__", "__radd__"), ast.Sub: ("__sub__", "__rsub__"), ast.Mult: ("__mul__", "__rmul__"),
                    ast.Div: ("__truediv__", "__rtruediv__"), ast.MatMult: ("__matmul__", "__rmatmul__")}

    def e_BinOp(self, e, fr):
        a = self.eval(e.left, fr)
        b = self.eval(e.right, fr)
        return self.binop(a, e.op, b, e)

    def binop(self, a, op, b, node):
        a, b = self.force(a), self.force(b)
        dn = self.BINOP_DUNDER.get(type(op))
        if isinstance(a, NT) and dn:
            ci = self.P.cls(a.cls)
            f = ci.lookup(dn[0])
            if f is not None:
                return self.call_function(f, [a, b], {}, node, dyncls=ci)
        if isinstance(b, NT) and dn:
            ci = self.P.cls(b.cls)
            f = ci.lookup(dn[1])
            if f is not None:
                return self.call_function(f, [b, a], {}, node, dyncls=ci)
        if isinstance(op, ast.MatMult):
            fa = a.factors if isinstance(a, MatProd) else (a,)
            fb = b.factors if isinstance(b, MatProd) else (b,)
            return MatProd(tuple(fa) + tuple(fb))
        na, nb = self.as_num(a), self.as_num(b)
        if na is not None and nb is not None:
            try:
                if isinstance(op, ast.Add):
                    return Num(na.p + nb.p, na.is_int and nb.is_int)
                if isinstance(op, ast.Sub):
                    return Num(na.p - nb.p, na.is_int and nb.is_int)
                if isinstance(op, ast.Mult):
                    return Num(na.p * nb.p, na.is_int and nb.is_int)
                if isinstance(op, ast.Div):
                    if nb.p.is_zero():
                        self.raise_("ZeroDivisionError", node)
                    return Num(na.p / nb.p)
                if isinstance(op, ast.Pow) and nb.p.is_const() and nb.p.const_value().denominator == 1 and abs(nb.p.const_value()) <= 8:
                    return Num(na.p.pow(int(nb.p.const_value())), na.is_int and nb.p.const_value() >= 0)
                if na.p.is_const() and nb.p.is_const():
                    x, y = na.p.const_value(), nb.p.const_value()
                    if isinstance(op, ast.FloorDiv) and y != 0:
                        return Num(Poly.const(x // y), True)
                    if isinstance(op, ast.Mod) and y != 0:
                        return Num(Poly.const(x % y))
                    if isinstance(op, ast.Pow):
                        try:
                            return Num(Poly.const(Fraction(float(x) ** float(y))))
                        except Exception:
                            pass
                return Num(app(type(op).__name__.lower(), na.p, nb.p))
            except ZeroDivisionError:
                self.raise_("ZeroDivisionError", node)
        if isinstance(op, ast.Add):
            ba, bb = self.as_bv(a), self.as_bv(b)
            if ba is not None and bb is not None and (isinstance(a, BV) or isinstance(b, BV)):
                return BV(ba.parts + bb.parts)
        # string concatenation / formatting
        sa, sb = self.as_str(a), self.as_str(b)
        if isinstance(op, ast.Add) and sa is not None and sb is not None:
            # the left operand keeps its "right-stripped up to here" marker, as it does when interpolated into an f-string
            r = self.mkstr(list(sa.parts) + ([RStripEnd()] if sa.rstripped else []) + list(sb.parts))
            if isinstance(r, Str) and sb.rstripped:
                r = Str(r.parts, True)
            return r
        if isinstance(op, ast.Add) and isinstance(a, Tup) and isinstance(b, Tup):
            return Tup(a.items + b.items)
        if isinstance(op, ast.Mult) and isinstance(a, Tup) and nb is not None and nb.p.is_const():
            return Tup(a.items * int(nb.p.const_value()))
        if isinstance(op, ast.Mod) and sa is not None:
            args = list(b.items) if isinstance(b, Tup) else [b]
            # constant folding: a constant template with constant arguments
            tmpl = self.strval(a)
            consts = [self.strval(x) if self.strval(x) is not None else (x.v if isinstance(x, Const) and isinstance(x.v, (int, float)) else None) for x in args]
            if tmpl is not None and all(c is not None for c in consts):
                try:
                    return Const(tmpl % (tuple(consts) if isinstance(b, Tup) else consts[0]))
                except (TypeError, ValueError):
                    pass
            # a constant template whose conversions are all plain %s (and %%): the same text as an f-string / join
            if tmpl is not None:
                import re as _re
                pieces = _re.split(r"(%%|%s)", tmpl)
                if "%" not in "".join(x for x in pieces if x not in ("%%", "%s")) and pieces.count("%s") == len(args):
                    parts, k = [], 0
                    for piece in pieces:
                        if piece == "%s":
                            parts += self.str_parts(args[k])
                            k += 1
                        elif piece == "%%":
                            parts.append(Lit("%"))
                        elif piece:
                            parts.append(Lit(piece))
                    return self.mkstr(parts)
            parts = [Lit("%")]
            for x in args:
                parts += self.str_parts(x, "%")
            return Str((Fmt(a, tuple(args)),))
        if isinstance(op, ast.Add) and isinstance(a, Ref) and isinstance(b, Ref):
            oa, ob = self.deref(a), self.deref(b)
            if isinstance(oa, AList) and isinstance(ob, AList) and oa.items is not None and ob.items is not None:
                return self.alloc(AList(oa.items + ob.items))
        if isinstance(op, ast.BitOr) and (isinstance(a, (ClassV, ExtV)) or isinstance(b, (ClassV, ExtV))):
            return Tup((a, b))   # X | Y type unions used in isinstance
        if isinstance(op, ast.BitOr) and isinstance(a, Ref) and isinstance(b, Ref) and isinstance(self.deref(a), ADict) and isinstance(self.deref(b), ADict):
            merged = self.deref(a).clone()          # d1 | d2: a new dict, right operand wins
            merged.label = None
            self.dict_merge(merged, b, node)
            return self.alloc(merged)
        if (isinstance(a, Const) and a.v is None) or (isinstance(b, Const) and b.v is None):
            if isinstance(op, (ast.Add, ast.Sub, ast.Mult, ast.Div)):
                self.raise_("TypeError", node, note="arithmetic on None")
        return Unk(f"{type(op).__name__.lower()}({self.tag(a)}, {self.tag(b)})")

    def e_Subscript(self, e, fr):
        base = self.eval(e.value, fr)
        if isinstance(e.slice, ast.Slice):
            lo = self.eval(e.slice.lower, fr) if e.slice.lower else NONE
            hi = self.eval(e.slice.upper, fr) if e.slice.upper else NONE
            st = self.eval(e.slice.step, fr) if e.slice.step else NONE
            return self.getslice(base, lo, hi, st, e)
        idx = self.eval(e.slice, fr)
        return self.getitem(base, idx, e)

    def const_int(self, v, bools=False):
        v = self.force(v)
        if bools and isinstance(v, Const) and isinstance(v.v, bool):
            return int(v.v)                      # a bool used as an index: (a, b)[flag]
        if isinstance(v, Const) and isinstance(v.v, int) and not isinstance(v.v, bool):
            return v.v
        if isinstance(v, Num) and v.p.is_const() and v.p.const_value().denominator == 1:
            return int(v.p.const_value())
        return None

    def getslice(self, base, lo, hi, st, node):
        base = self.force(base)
        items = None
        if isinstance(base, LinV):
            k = self.const_int(lo) if not (isinstance(lo, Const) and lo.v is None) else 0
            if k is not None and k >= 0 and isinstance(hi, Const) and hi.v is None and isinstance(st, Const) and st.v is None:
                return LinV(base.start, base.stop, base.num, base.endpoint, base.dropped + k)
            return Unk(f"slice({self.tag(base)})", "array")
        if isinstance(base, BV):
            parts = base.parts
            total = self.bv_len(parts)
            def pos(v, default):
                if isinstance(v, Const) and v.v is None:
                    return default
                n = self.as_num(v)
                if n is None:
                    return None
                p = n.p
                if p.is_const() and p.const_value() < 0:
                    p = total + p
                return p
            plo, phi = pos(lo, Poly()), pos(hi, total)
            hi_default = isinstance(hi, Const) and hi.v is None
            if plo is not None and phi is not None:
                a = self.bv_split(parts, plo)
                if a is not None:
                    if hi_default:
                        return BV(a[1])
                    b = self.bv_split(a[1], phi - plo)
                    if b is not None:
                        return BV(b[0])
            return Unk(self.fresh(f"byteslice({base!r})"), "bytes")
        if isinstance(base, (Tup, NT, ArrV)):
            items = list(base.items)
        elif isinstance(base, Ref) and isinstance(self.deref(base), AList) and self.deref(base).items is not None:
            items = list(self.deref(base).items)
        elif isinstance(base, Const) and isinstance(base.v, (str, bytes)):
            items = base.v
        if items is not None:
            def ci(v):
                return None if (isinstance(v, Const) and v.v is None) else self.const_int(v)
            l, h, s = ci(lo), ci(hi), ci(st)
            if all(x is not None or (isinstance(y, Const) and y.v is None) for x, y in ((l, lo), (h, hi), (s, st))):
                r = items[slice(l, h, s)]
                if isinstance(base, Const):
                    return Const(r)
                if isinstance(base, Ref):
                    return self.alloc(AList(list(r)))
                if isinstance(base, ArrV):
                    return ArrV(tuple(r))
                return Tup(tuple(r))
        return Unk(f"slice({self.tag(base)},{self.tag(lo)},{self.tag(hi)},{self.tag(st)})", typ=getattr(base, "typ", ""))

    def getitem(self, base, idx, node):
        base = self.force(base)
        idx = self.force(idx)
        if isinstance(base, ArrV) and isinstance(idx, Ref) and isinstance(self.heap.get(idx.addr), AList) and self.heap[idx.addr].items is not None \
                and len(self.heap[idx.addr].items) == len(base.items) and all(isinstance(m, Const) and isinstance(m.v, bool) for m in self.heap[idx.addr].items):
            return ArrV(tuple(x for x, m in zip(base.items, self.heap[idx.addr].items) if m.v))
        if isinstance(base, (Tup, NT, ArrV)):
            i = self.const_int(idx, bools=True)
            if i is not None:
                if -len(base.items) <= i < len(base.items):
                    return base.items[i]
                self.raise_("IndexError", node)
            return Unk(f"item({self.tag(base)},{self.tag(idx)})")
        if isinstance(base, Ref):
            o = self.deref(base)
            if isinstance(o, ADict):
                f = self.class_method(o.cls, "__getitem__")
                if f is not None and f.qualname not in self.intrinsics:
                    return self.call_function(f, [base, idx], {}, node, dyncls=o.cls)
                return self.dict_get(o, idx, node, base, strict=not o.upper)
            if isinstance(o, AList):
                i = self.const_int(idx, bools=True)
                if o.items is not None and i is not None:
                    if -len(o.items) <= i < len(o.items):
                        return o.items[i]
                    self.raise_("IndexError", node)
                return Unk(f"item({o.base or base.addr},{self.tag(idx)})")
            if isinstance(o, AObj):
                f = o.cls.lookup("__getitem__")
                if f is not None:
                    return self.call_function(f, [base, idx], {}, node, dyncls=o.cls)
        if isinstance(base, Const) and isinstance(base.v, (str, bytes, tuple)):
            i = self.const_int(idx, bools=True)
            if i is not None:
                try:
                    return Const(base.v[i])
                except IndexError:
                    self.raise_("IndexError", node)
        if isinstance(base, (ExtV, ClassV)):
            return base    # typing subscripts such as List[int]
        return Unk(f"item({self.tag(base)},{self.tag(idx)})")

    def e_Starred(self, e, fr):
        return self.eval(e.value, fr)

    def e_Lambda(self, e, fr):
        return Closure(e, fr, "<lambda>")

    def e_Yield(self, e, fr):
        val = self.eval(e.value, fr) if e.value is not None else NONE
        f = fr
        while f is not None and f.yield_cb is None:
            f = f.parent
        if f is None or f.yield_cb is None:
            return NONE
        cb = f.yield_cb
        cb(val)
        return NONE

    def e_YieldFrom(self, e, fr):
        src = self.force(self.eval(e.value, fr))
        f = fr
        while f is not None and f.yield_cb is None:
            f = f.parent
        if f is None or f.yield_cb is None:
            return NONE
        cb = f.yield_cb
        if isinstance(src, GenFn):
            # the delegate's body runs here; what the consumer raises at a yield point travels through its try/finally blocks
            self.run_generator(src, cb)
            return NONE
        if isinstance(src, Unk):
            raise AnalysisError(f"yield from an iterable the analysis cannot enumerate (line {getattr(e, 'lineno', '?')})")
        for v in self.iterate(src, e):
            cb(v)
        return NONE

    def e_NamedExpr(self, e, fr):
        v = self.eval(e.value, fr)
        fr.env[e.target.id] = v
        return v

    def e_Await(self, e, fr):
        return self.eval(e.value, fr)

    def e_Slice(self, e, fr):
        return Unk("slice")

    # ---------------------------------------------------------------- comprehensions
    def comp_iter(self, gens, fr, body):
        """Run `body(frame)` for every binding of the comprehension generators."""
        sub = Frame(fr.func, fr.module, {}, fr.dyncls, fr.owner, fr.selfv, parent=fr, qualname=fr.qualname)

        def go(i):
            if i == len(gens):
                body(sub)
                return
            g = gens[i]
            it = self.eval(g.iter, sub if i else fr)
            for x in self.iterate(it, g.iter):
                self.assign(g.target, x, sub, g.iter)
                if all(self.truth(self.eval(c, sub)) for c in g.ifs):
                    go(i + 1)
        go(0)

    def e_ListComp(self, e, fr):
        out = []
        self.comp_iter(e.generators, fr, lambda f: out.append(self.eval(e.elt, f)))
        return self.alloc(AList(out))

    def e_SetComp(self, e, fr):
        out = []
        self.comp_iter(e.generators, fr, lambda f: out.append(self.eval(e.elt, f)))
        return self.alloc(AList(out, kind="set"))

    def e_GeneratorExp(self, e, fr):
        # evaluated eagerly; consumers that stop early (next, any) use gen_first
        return GenV(e, fr)

    def e_DictComp(self, e, fr):
        # special form: {f(k): v for k, v in d.items()} over an abstract dict keeps openness
        g = e.generators[0] if len(e.generators) == 1 else None
        if g is not None and isinstance(g.iter, ast.Call) and isinstance(g.iter.func, ast.Attribute) and g.iter.func.attr == "items" and not g.ifs:
            src = self.force(self.eval(g.iter.func.value, fr))
            if isinstance(src, Ref) and isinstance(self.deref(src), ADict) and self.deref(src).open:
                so = self.deref(src)
                if isinstance(g.target, ast.Tuple) and len(g.target.elts) == 2 and all(isinstance(t, ast.Name) for t in g.target.elts):
                    kn, vn = g.target.elts[0].id, g.target.elts[1].id
                    value_is_v = isinstance(e.value, ast.Name) and e.value.id == vn
                    key_upper = (isinstance(e.key, ast.Call) and isinstance(e.key.func, ast.Attribute) and e.key.func.attr == "upper"
                                 and isinstance(e.key.func.value, ast.Name) and e.key.func.value.id == kn and not e.key.args)
                    key_plain = isinstance(e.key, ast.Name) and e.key.id == kn
                    if value_is_v and (key_upper or key_plain):
                        d = ADict(open=True, bases=so.bases, upper=False, label=(so.label + ".upper") if key_upper else so.label)
                        d.keymap = "upper" if (key_upper or so.upper) else so.keymap
                        for k, v in so.entries.items():
                            kk = k.upper() if (key_upper and isinstance(k, str)) else k
                            d.entries[kk] = v
                        return self.alloc(d)
                d = ADict(open=True, bases=(self.fresh("dictcomp"),))
                return self.alloc(d)
        d = ADict()
        self.comp_iter(e.generators, fr, lambda f: self.dict_set(d, self.eval(e.key, f), self.eval(e.value, f)))
        return self.alloc(d)

    # ---------------------------------------------------------------- iteration
    def iterate(self, it, node, star=False):
        """Concrete list of abstract elements of an iterable (forks for opaque ones)."""
        it = self.force(it)
        if isinstance(it, (Tup, NT, ArrV)):
            return list(it.items)
        if isinstance(it, GenV):
            out = []
            self.comp_iter(it.node.generators, it.frame, lambda f: out.append(self.eval(it.node.elt, f)))
            return out
        if isinstance(it, IterV):
            return list(it.items)
        if isinstance(it, GenFn):
            out = []
            self.run_generator(it, out.append)
            return out
        if isinstance(it, Const):
            if isinstance(it.v, (str, tuple, list)):
                return [Const(x) for x in it.v]
            if it.v is None:
                self.raise_("TypeError", node, note="iteration over None")
        if isinstance(it, ClassV) and it.ci.is_enum:
            return [Member(it.ci.name, n) for n in it.ci.enum_members()]
        if isinstance(it, Ref):
            o = self.deref(it)
            if isinstance(o, AList):
                if o.items is not None:
                    return list(o.items)
                return self.opaque_elems(o.base or f"list{it.addr}", o, star)
            if isinstance(o, ADict):
                keys = [k if isinstance(k, V) else Const(k) for k in o.entries]
                if o.open:
                    keys += [Unk(f"key({b})", "str") for b in o.bases[:1]] if self.decide("morekeys:" + (o.label or str(it.addr)), [False, True]) else []
                return keys
        if isinstance(it, Unk):
            n = 3 if star else None
            if star:
                return [Unk(f"{it.tag}[{i}]", "opt" if it.typ in ("point", "opt") else "") for i in range(3)]
            k = self.decide("iter:" + it.tag, list(range(0, self.loop_unroll + 1)))
            return [Unk(f"elem({it.tag})#{i}") for i in range(k)]
        if isinstance(it, Str):
            return [Unk(f"char({it!r})", "str")]
        return []

    def opaque_elems(self, base, o: AList, star=False):
        if o.universal:
            n = 1
        else:
            if not self.list_nonempty(o):
                return []
            n = 1 if self.loop_unroll <= 1 else self.decide("iter:" + base, list(range(1, self.loop_unroll + 1)))
        out = []
        for i in range(n):
            out.append(o.elem if o.elem is not None else Unk(f"elem({base})#{i}", "elem"))
        return out

    # ---------------------------------------------------------------- dicts
    def deep_force(self, v):
        v = self.force(v)
        if isinstance(v, Tup):
            return Tup(tuple(self.deep_force(x) for x in v.items))
        return v

    def dkey(self, d: ADict, k):
        k = self.deep_force(k)
        s = self.strval(k)
        if s is not None:
            return s.upper() if d.upper else s
        if isinstance(k, Const):
            return k.v
        return k

    def dict_set(self, d: ADict, k, v):
        d.entries[self.dkey(d, k)] = v

    def dict_merge(self, d: ADict, src, node):
        src = self.force(src)
        if isinstance(src, Ref) and isinstance(self.deref(src), ADict):
            so = self.deref(src)
            for k, v in so.entries.items():
                kk = k.upper() if (d.upper and isinstance(k, str)) else k
                d.entries[kk] = v
            if so.open:
                d.open = True
                d.bases = d.bases + tuple(b for b in so.bases if b not in d.bases)
                if so.upper or so.keymap == "upper":
                    d.keymap = "upper"
        elif isinstance(src, Const) and src.v is None:
            self.raise_("TypeError", node, note="None is not a mapping")
        elif (pairs := self._pairs(src, node)) is not None:
            for k, v in pairs:                            # an iterable of (key, value) pairs: zip(...), a list of tuples
                d.entries[self.dkey(d, k)] = v
        else:
            d.open = True
            d.bases = d.bases + (f"map({self.tag(src)})",)

    def _pairs(self, src, node):
        """The (key, value) pairs of an enumerable iterable of 2-tuples, else None."""
        if isinstance(src, (IterV, Tup, GenV)) or (isinstance(src, Ref) and isinstance(self.deref(src), AList) and self.deref(src).items is not None):
            items = [self.force(x) for x in self.iterate(src, node)]
            out = [(x.items[0], x.items[1]) for x in items if isinstance(x, Tup) and len(x.items) == 2]
            return out if len(out) == len(items) else None
        return None

    def dict_has(self, d: ADict, k, ref=None) -> bool:
        kk = self.dkey(d, k)
        if kk in d.entries:
            return True
        if not d.open:
            return False
        if isinstance(kk, str) and self.canon_key(d, kk) in d.removed:
            return False
        if self.facts.get(f"nonempty:{d.bases[0]}") is False:
            return False
        if not isinstance(kk, str):
            return self.decide(f"has:{d.bases[0]}:{kk!r}", [False, True])
        return self.decide(f"has:{d.bases[0]}[{self.canon_key(d, kk)}]", [True, False])

    def open_nonempty(self, d: ADict) -> bool:
        """Does the unknown part of an open record hold at least one entry?
        Consistent with the per-key presence facts of the same record."""
        base = d.bases[0]
        pre = f"has:{base}["
        for k, v in self.facts.items():
            if v is True and k.startswith(pre) and k[len(pre):-1] not in d.removed:
                return True
        return self.decide(f"nonempty:{base}", [True, False])

    def canon_key(self, d: ADict, kk: str) -> str:
        # value numbers of unknown entries are shared by every view of the same
        # open record; they are named by the upper-cased key
        return kk.upper()

    def dict_get(self, d: ADict, k, node, ref=None, default=None, strict=False):
        kk = self.dkey(d, k)
        if kk in d.entries:
            return d.entries[kk]
        if d.open and not (isinstance(kk, str) and self.canon_key(d, kk) in d.removed) \
                and self.facts.get(f"nonempty:{d.bases[0]}") is not False:
            if isinstance(kk, str):
                ck = self.canon_key(d, kk)
                name = f"{d.bases[0]}[{ck}]"
                present = self.decide(f"has:{name}", [True, False])
                if present:
                    return self.open_value(name)
            else:
                if self.decide(f"has:{d.bases[0]}:{kk!r}", [False, True]):
                    return Unk(f"{d.bases[0]}[{kk!r}]")
        if strict:
            self.raise_("KeyError", node, note=f"key {kk!r}")
        return default if default is not None else NONE

    def open_value(self, name):
        """Value of a present-but-unknown entry of an open record."""
        hook = getattr(self, "open_value_hook", None)
        if hook is not None:
            v = hook(name)
            if v is not None:
                return v
        return Unk(name)

    def class_method(self, ci, name):
        if ci is None:
            return None
        return ci.lookup(name)

    # ================================================================ attributes
    def getattr(self, b, attr, node):
        b = self.force(b)
        if isinstance(b, Ref):
            o = self.deref(b)
            if isinstance(o, AObj):
                if o.label == "ExitStack" and attr in ("callback", "push", "enter_context", "close", "pop_all", "__enter__", "__exit__"):
                    return BoundBuiltin(b, attr)
                if attr in o.fields:
                    return o.fields[attr]
                f = o.cls.lookup(attr)
                if f is not None:
                    if f.is_property:
                        return self.call_function(f, [b], {}, node, dyncls=o.cls)
                    if f.is_staticmethod:
                        return FuncV(f)
                    if f.is_classmethod:
                        return FuncV(f, ClassV(o.cls), o.cls)
                    return FuncV(f, b, o.cls)
                k, e = o.cls.lookup_attr(attr)
                if e is not None:
                    return self.eval_in_class(k, e)
                if attr == "__class__":
                    return ClassV(o.cls)
                v = Unk(f"{o.label or o.cls.name}.{attr}")
                o.fields[attr] = v
                return v
            if isinstance(o, ADict):
                f = self.class_method(o.cls, attr)
                if f is not None and f.qualname not in self.intrinsics and not self.is_intrinsic_class(o.cls):
                    return FuncV(f, b, o.cls)
                return BoundBuiltin(b, attr)
            if isinstance(o, AList):
                return BoundBuiltin(b, attr)
            if isinstance(o, AMat):
                if attr == "shape":
                    return Unk(f"{o.base}.shape")
                return BoundBuiltin(b, attr)
        if isinstance(b, NT):
            if attr in b.names:
                return b.get(attr)
            if attr == "_fields":
                return Tup(tuple(Const(n_) for n_ in b.names))
            ci = self.P.cls(b.cls)
            f = ci.lookup(attr)
            if f is not None:
                if f.is_property:
                    return self.call_function(f, [b], {}, node, dyncls=ci)
                if f.is_classmethod:
                    return FuncV(f, ClassV(ci), ci)
                return FuncV(f, b, ci)
            return BoundBuiltin(b, attr)
        if isinstance(b, Member):
            if attr == "value":
                return Const(self.member_value(b))
            if attr == "name":
                return Const(b.name)
            ci = self.P.cls(b.cls)
            f = ci.lookup(attr)
            if f is not None:
                if f.is_property:
                    return self.call_function(f, [b], {}, node, dyncls=ci)
                if f.is_classmethod:
                    return FuncV(f, ClassV(ci), ci)
                return FuncV(f, b, ci)
            attrs = self.member_instance_attrs(b, node)
            if attr in attrs:
                return attrs[attr]
            if attr in PURE_STR_METHODS:
                return BoundBuiltin(Const(self.member_value(b)), attr)
            if attr == "__class__":
                return ClassV(ci)
            return Unk(f"{b!r}.{attr}")
        if isinstance(b, ClassV):
            ci = b.ci
            if ci.is_enum:
                mem = ci.enum_members()
                if attr in mem:
                    return Member(ci.name, attr)
            f = ci.lookup(attr)
            if f is not None:
                if f.is_classmethod:
                    return FuncV(f, b, ci)
                return FuncV(f, None, ci)
            k, e = ci.lookup_attr(attr)
            if e is not None:
                return self.eval_in_class(k, e)
            if attr == "__name__":
                return Const(ci.name)
            if attr == "_fields" and ci.is_namedtuple:
                return Tup(tuple(Const(n_) for n_ in ci.annotations))
            return Unk(f"{ci.name}.{attr}")
        if isinstance(b, SuperV):
            f = b.dyncls.lookup(attr, after=b.after) if b.dyncls is not None else None
            if f is not None:
                if f.is_property:
                    return self.call_function(f, [b.selfv], {}, node, dyncls=b.dyncls)
                return FuncV(f, b.selfv, b.dyncls)
            # builtin base (dict, object, ABC ...)
            return BoundBuiltin(b.selfv, attr)
        if isinstance(b, ModuleV):
            bd = self.P.resolve_name(b.name, attr)
            if bd is not None:
                return self.binding_value(bd, attr)
            sub = f"{b.name}.{attr}"
            if sub in self.P.modules:
                return ModuleV(sub)
            return Unk(f"{b.name}.{attr}")
        if isinstance(b, ExtV):
            if attr == "pi" and b.name in ("math", "numpy"):
                return Num(Poly.sym("pi"))
            if attr == "tau" and b.name == "math":
                return Num(Poly.sym("pi") * Poly.const(2))
            if attr in ("inf", "nan") and b.name in ("math", "numpy"):
                return Num(Poly.sym(attr))
            return ExtV(f"{b.name}.{attr}")
        if isinstance(b, (Str, Bytes)) or (isinstance(b, Const) and isinstance(b.v, (str, bytes))):
            return BoundBuiltin(b, attr)
        if isinstance(b, PatV):
            if attr == "pattern":
                return Const(b.pattern)
            return BoundBuiltin(b, attr)
        if isinstance(b, Tup):
            return BoundBuiltin(b, attr)
        if isinstance(b, BV):
            return BoundBuiltin(b, attr)
        if isinstance(b, ArrV) and attr == "size":
            inner = len(b.items[0].items) if b.items and isinstance(b.items[0], (Tup, NT)) else 1
            return Const(len(b.items) * inner)
        if isinstance(b, LinV):
            return BoundBuiltin(b, attr)
        if isinstance(b, (MatProd, ArrV)):
            if attr in ("shape", "size", "ndim", "T", "dtype"):
                return Unk(f"{self.tag(b)}.{attr}")
            return BoundBuiltin(b, attr)
        if isinstance(b, Unk):
            if b.typ == "str":
                return BoundBuiltin(b, attr)
            return Unk(f"{b.tag}.{attr}")
        if isinstance(b, ExcV):
            if attr == "args":
                return Tup(b.args)
            return Unk(f"exc.{attr}")
        if isinstance(b, Const) and b.v is None:
            self.raise_("AttributeError", node, note=f"None.{attr}")
        if isinstance(b, (Num,)) or isinstance(b, Const):
            return BoundBuiltin(b, attr)
        if isinstance(b, (FuncV, Closure)):
            return Unk(f"func.{attr}")
        return Unk(f"attr({self.tag(b)}.{attr})")

    def is_intrinsic_class(self, ci):
        return ci is not None and ci.name in self.intrinsic_classes

    intrinsic_classes = {"ParamsDict"}
    IDENTITY_TYPES = {"writer", "hook", "object"}

    def eval_in_class(self, ci: ClassInfo, e):
        key = ("class", ci.module, ci.name, id(e))
        if key not in self.globals_cache:
            self.static_depth += 1
            saved = (self.frames, self.facts)
            try:
                self.frames = []
                self.facts = {}
                fr = Frame(None, ci.module, {}, qualname=f"<class {ci.name}>")
                self.frames.append(fr)
                try:
                    self.globals_cache[key] = self.eval(e, fr)
                except AbsRaise:
                    self.globals_cache[key] = Unk(f"classattr:{ci.name}")
            finally:
                self.frames, self.facts = saved
                self.static_depth -= 1
            for a, o in self.static_heap.items():
                if a not in self.heap:
                    self.heap[a] = o.clone()
        return self.globals_cache[key]

    def member_instance_attrs(self, m: Member, node):
        key = (m.cls, m.name)
        if key not in self.member_attrs:
            self.member_attrs[key] = {}
            ci = self.P.cls(m.cls)
            f = ci.lookup("__init__")
            if f is not None:
                self.static_depth += 1
                try:
                    self.call_function(f, [m, Const(self.member_value(m))], {}, node, dyncls=ci)
                except AbsRaise:
                    pass
                finally:
                    self.static_depth -= 1
        return self.member_attrs[key]

    def setattr(self, b, attr, v, node):
        b = self.force(b)
        if isinstance(b, Ref) and isinstance(self.deref(b), AObj):
            o = self.deref(b)
            old = o.fields.get(attr)
            o.fields[attr] = v
            self.emit("SET", node, obj=b.addr, cls=o.cls.name, label=o.label, field=attr, value=v, old=old)
            return
        if isinstance(b, Member):
            self.member_instance_attrs(b, node) if (b.cls, b.name) not in self.member_attrs else None
            self.member_attrs.setdefault((b.cls, b.name), {})[attr] = v
            return
        self.emit("EXTSET", node, target=b, field=attr, value=v)

    # ================================================================ calls
    def e_Call(self, e, fr):
        # super() needs the frame
        if isinstance(e.func, ast.Name) and e.func.id == "super" and not e.args:
            f = fr
            while f is not None and f.owner is None:
                f = f.parent
            if f is None:
                return Unk("super")
            return SuperV(f.owner, f.selfv, f.dyncls)
        fv = self.eval(e.func, fr)
        args = self.eval_seq(e.args, fr)
        kwargs = {}
        star_kw = None
        for k in e.keywords:
            v = self.eval(k.value, fr)
            if k.arg is None:
                v = self.force(v)
                if isinstance(v, Ref) and isinstance(self.deref(v), ADict):
                    d = self.deref(v)
                    for kk, vv in d.entries.items():
                        kwargs[kk if isinstance(kk, str) else repr(kk)] = vv
                    if d.open:
                        star_kw = d
                else:
                    star_kw = ADict(open=True, bases=(f"map({self.tag(v)})",))
            else:
                kwargs[k.arg] = v
        if star_kw is not None:
            kwargs["**"] = star_kw
        return self.call(fv, args, kwargs, e)

    def call(self, fv, args, kwargs, node):
        fv = self.force(fv)
        if isinstance(fv, FuncV):
            f = fv.func
            a = ([fv.selfv] if fv.selfv is not None else []) + list(args)
            return self.call_function(f, a, kwargs, node, dyncls=fv.dyncls)
        if isinstance(fv, ClassV):
            return self.instantiate(fv.ci, args, kwargs, node)
        if isinstance(fv, BoundBuiltin):
            from . import intrinsics
            return intrinsics.call_bound_builtin(self, fv, args, kwargs, node)
        if isinstance(fv, ExtV):
            h = self.intrinsics.get(fv.name)
            if h is not None:
                return h(self, fv, args, kwargs, node)
            if fv.name in self.BUILTIN_EXC or fv.name.split(".")[-1].endswith(("Error", "Exception")):
                return ExcV(fv.name.split(".")[-1], tuple(args))
            return self.ext_call(fv, args, kwargs, node)
        if isinstance(fv, Closure):
            return self.call_closure(fv, args, kwargs, node)
        if isinstance(fv, MemoV):
            inner = self.force(fv.func)
            if isinstance(inner, FuncV):
                self.note_memoised(inner.func, node)
            else:
                self.emit("NOTE", node, what="memoised-call", func=self.tag(inner), reads=("<callable the analysis cannot inspect>",))
            return self.call(inner, args, kwargs, node)
        if isinstance(fv, PartialV):
            if fv.kind == "partial":
                kw = dict(fv.kwargs)
                kw.update(kwargs)
                return self.call(fv.func, list(fv.args) + list(args), kw, node)
            if fv.kind == "itemgetter":
                got = [self.getitem(args[0], k, node) for k in fv.args]
                return got[0] if len(got) == 1 else Tup(tuple(got))
            if fv.kind == "attrgetter":
                def walk(o, dotted):
                    for part in dotted.split("."):
                        o = self.getattr(o, part, node)
                    return o
                got = [walk(args[0], self.strval(k)) for k in fv.args]
                return got[0] if len(got) == 1 else Tup(tuple(got))
            if fv.kind == "methodcaller":
                return self.call(self.getattr(args[0], self.strval(fv.func), node), list(fv.args), dict(fv.kwargs), node)
        return self.ext_call(fv, args, kwargs, node)

    MEMO_DECORATORS = ("lru_cache", "cache", "cached_property")

    def mutable_state_reads(self, f):
        """Attributes of `self` a function body reads although some method other than __init__ assigns them:
        state a memoised result depends on without it being part of the cache key."""
        out = self._memo_reads.get(f.qualname)
        if out is not None:
            return out
        out = []
        ci = f.cls
        a = f.node.args
        first = (a.posonlyargs + a.args)[0].arg if (ci is not None and not f.is_staticmethod and (a.posonlyargs + a.args)) else None
        if first is not None:
            assigned = set()
            for c in ci.mro():
                for fn in c.methods.values():
                    if fn.node.name == "__init__":
                        continue
                    for n in ast.walk(fn.node):
                        targets = n.targets if isinstance(n, ast.Assign) else ([n.target] if isinstance(n, (ast.AnnAssign, ast.AugAssign)) else [])
                        for t in targets:
                            for tt in (t.elts if isinstance(t, ast.Tuple) else [t]):
                                if isinstance(tt, ast.Attribute) and isinstance(tt.value, ast.Name) and tt.value.id == "self":
                                    assigned.add(tt.attr)
            for n in ast.walk(f.node):
                if isinstance(n, ast.Attribute) and isinstance(n.ctx, ast.Load) and isinstance(n.value, ast.Name) and n.value.id == first \
                        and n.attr in assigned and n.attr not in out:
                    out.append(n.attr)
        self._memo_reads[f.qualname] = tuple(out)
        return tuple(out)

    def note_memoised(self, f, node):
        self.emit("NOTE", node, what="memoised-call", func=f.qualname, reads=self.mutable_state_reads(f))

    def ext_call(self, fv, args, kwargs, node):
        tag = self.tag(fv)
        if self.ext_quiet(tag):
            return NONE
        self.unresolved_calls[self.tag(fv).split("#")[0]] = self.unresolved_calls.get(self.tag(fv).split("#")[0], 0) + 1
        ev = self.emit("EXT", node, callee=fv, args=tuple(args), kwargs=dict(kwargs))
        r = None
        if self.ext_result is not None:
            r = self.ext_result(self, fv, args, kwargs, node)
        if r is None:
            r = Unk(self.fresh(f"ret({self.tag(fv)})"), "ext")
        ev.data["result"] = r
        if self.io_failures and isinstance(fv, Unk) and fv.tag.startswith("elem(g._writers)") and fv.tag.endswith(".write"):
            k = sum(1 for e in self.trace if e.kind == "EXT" and e is not ev and isinstance(e.data.get("callee"), Unk)
                    and e.data["callee"].tag.startswith("elem(g._writers)") and e.data["callee"].tag.endswith(".write"))
            if self.decide(f"io-failure:write#{k}", [False, True]):
                self.raise_("DeviceWriteError", node, note="a registered writer fails while it is handed the line")
        return r

    def bind_args(self, fnode, args, kwargs, fr: Frame, qualname, node):
        a = fnode.args
        env = fr.env
        kwargs = dict(kwargs)
        star_kw = kwargs.pop("**", None)
        pos = list(a.posonlyargs) + list(a.args)
        names = [x.arg for x in pos]
        defaults = dict(zip(names[len(names) - len(a.defaults):], a.defaults))
        args = list(args)
        for i, n in enumerate(names):
            if i < len(args):
                env[n] = args[i]
            elif n in kwargs:
                env[n] = kwargs.pop(n)
            elif star_kw is not None and self._open_has(star_kw, n):
                env[n] = self.open_value(f"{star_kw.bases[0]}[{n}]")
            elif n in defaults:
                env[n] = self.eval_default(defaults[n], fr)
            else:
                self.raise_("TypeError", node, note=f"missing argument {n} for {qualname}")
        extra = args[len(names):]
        if a.vararg:
            env[a.vararg.arg] = Tup(tuple(extra))
        elif extra:
            self.raise_("TypeError", node, note=f"too many positional arguments for {qualname}")
        for kw, d in zip(a.kwonlyargs, a.kw_defaults):
            if kw.arg in kwargs:
                env[kw.arg] = kwargs.pop(kw.arg)
            elif d is not None:
                env[kw.arg] = self.eval_default(d, fr)
            else:
                self.raise_("TypeError", node, note=f"missing keyword argument {kw.arg}")
        if a.kwarg:
            d = ADict(entries=dict(kwargs))
            if star_kw is not None:
                d.open = True
                d.bases = star_kw.bases
                if star_kw.upper or star_kw.keymap:
                    d.keymap = "upper" if star_kw.upper else star_kw.keymap
                d.removed = set(star_kw.removed)
                d.label = star_kw.label
            env[a.kwarg.arg] = self.alloc(d)
        elif kwargs:
            self.raise_("TypeError", node, note=f"unexpected keyword arguments {sorted(kwargs)} for {qualname}")

    def _open_has(self, d: ADict, name: str) -> bool:
        return self.decide(f"has:{d.bases[0]}[{self.canon_key(d, name)}]", [True, False])

    def eval_default(self, e, fr):
        mfr = Frame(None, fr.module, {}, qualname=fr.qualname)
        return self.eval(e, mfr)

    def call_function(self, f: FuncInfo, args, kwargs, node, dyncls=None):
        h = self.intrinsics.get(f.qualname)
        if h is not None:
            self.resolved_calls += 1
            return h(self, FuncV(f, None, dyncls), args, kwargs, node)
        if len(self.frames) > self.max_depth:
            raise AnalysisError(f"call depth exceeded at {f.qualname}")
        if sum(1 for fr in self.frames if fr.func is f) > 6:
            return Unk(self.fresh(f"rec({f.qualname})"))
        self.resolved_calls += 1
        if f.decorators & set(self.MEMO_DECORATORS):
            self.note_memoised(f, node)
        if f.is_abstract and not f.node.body[1:]:
            return Unk(self.fresh(f"abstract({f.qualname})"))
        selfv = args[0] if (f.cls is not None and not f.is_staticmethod and args) else None
        if dyncls is None and f.cls is not None:
            dyncls = f.cls
            sv = self.force(selfv) if selfv is not None else None
            if isinstance(sv, Ref) and isinstance(self.deref(sv), AObj):
                dyncls = self.deref(sv).cls
        fr = Frame(f, f.module, {}, dyncls, f.cls, selfv, qualname=f.qualname)
        if f.qualname in self.event_funcs:
            self.emit("CALL", node, func=f.qualname, args=tuple(args), kwargs=dict(kwargs))
        if f.is_contextmanager:
            # bind now, run at `with`
            self.frames.append(fr)
            try:
                self.bind_args(f.node, args, kwargs, fr, f.qualname, node)
            finally:
                self.frames.pop()
            return GenCM(f, fr)
        if f.is_generator:
            # a generator function: nothing runs until it is iterated (s_For runs the body lazily, one loop
            # iteration per yield; other consumers collect the yielded values)
            self.frames.append(fr)
            try:
                self.bind_args(f.node, args, kwargs, fr, f.qualname, node)
            finally:
                self.frames.pop()
            return GenFn(f, fr)
        self.frames.append(fr)
        try:
            self.bind_args(f.node, args, kwargs, fr, f.qualname, node)
            try:
                self.exec_block(f.node.body, fr)
            except _Return as r:
                return r.value
            return NONE
        finally:
            self.frames.pop()

    def call_closure(self, c: Closure, args, kwargs, node):
        defining = c.frame
        fr = Frame(defining.func, defining.module, {}, defining.dyncls, defining.owner, defining.selfv,
                   parent=defining, qualname=f"{defining.qualname}.<locals>.{c.name}")
        self.frames.append(fr)
        try:
            self.bind_args(c.node, args, kwargs, fr, c.name, node)
            if isinstance(c.node, ast.Lambda):
                return self.eval(c.node.body, fr)
            if _has_yield(c.node):
                # a nested generator function: nothing runs until it is iterated
                return GenFn(_ClosureFunc(c.node), fr)
            try:
                self.exec_block(c.node.body, fr)
            except _Return as r:
                return r.value
            return NONE
        finally:
            self.frames.pop()

    def instantiate(self, ci: ClassInfo, args, kwargs, node):
        h = self.intrinsics.get(ci.name)
        if h is not None:
            return h(self, ClassV(ci), args, kwargs, node)
        if ci.is_enum:
            return self.enum_convert(ci, args[0] if args else NONE, node)
        if ci.is_exception or ci.is_subclass_of("Exception"):
            return ExcV(ci.name, tuple(args))
        if ci.is_namedtuple:
            names = tuple(ci.annotations)
            vals = list(args)
            kw = dict(kwargs)
            kw.pop("**", None)
            if len(vals) > len(names):
                self.raise_("TypeError", node, note=f"{ci.name}() takes {len(names)} fields")
            for n in names[len(vals):]:
                if n in kw:
                    vals.append(kw.pop(n))
                elif n in ci.attrs:
                    vals.append(self.eval_in_class(ci, ci.attrs[n]))
                else:
                    self.raise_("TypeError", node, note=f"missing field {n}")
            return NT(ci.name, names, tuple(vals))
        if ci.is_dataclass:
            o = AObj(ci, {}, label=ci.name)
            names = list(ci.annotations)
            kw = dict(kwargs)
            star = kw.pop("**", None)
            for i, n in enumerate(names):
                if i < len(args):
                    o.fields[n] = args[i]
                elif n in kw:
                    o.fields[n] = kw.pop(n)
                elif star is not None:
                    o.fields[n] = Unk(f"{ci.name}.{n}")
                elif n in ci.attrs:
                    d = ci.attrs[n]
                    if isinstance(d, ast.Call) and isinstance(d.func, ast.Name) and d.func.id == "field":
                        dv = [k.value for k in d.keywords if k.arg == "default"]
                        o.fields[n] = self.eval_in_class(ci, dv[0]) if dv else Unk(f"{ci.name}.{n}")
                    else:
                        o.fields[n] = self.eval_in_class(ci, d)
            return self.alloc(o)
        o = AObj(ci, {}, label=ci.name)
        ref = self.alloc(o)
        init = ci.lookup("__init__")
        if init is not None:
            self.call_function(init, [ref] + list(args), kwargs, node, dyncls=ci)
        return ref

    def enum_convert(self, ci: ClassInfo, v, node):
        v = self.force(v)
        mem = ci.enum_members()
        if isinstance(v, Member) and v.cls == ci.name:
            return v
        s = self.strval(v)
        if s is not None or isinstance(v, Const):
            key = s if s is not None else v.v
            for n, val in mem.items():
                if val == key:
                    return Member(ci.name, n)
            miss = ci.lookup("_missing_")
            if miss is not None:
                r = self.force(self.call_function(miss, [ClassV(ci), Const(key)], {}, node, dyncls=ci))
                if isinstance(r, Member):
                    return r
            self.raise_("ValueError", node, note=f"{key!r} is not a valid {ci.name}")
        if isinstance(v, Unk) and v.typ == f"enum:{ci.name}":
            return v
        # unknown input: either a valid member (any) or rejected
        tag = self.tag(v)
        if self.decide(f"enumok:{ci.name}:{tag}", [True, False]):
            return self.force(Choice(f"conv({ci.name},{tag})", f"enum:{ci.name}"))
        self.raise_("ValueError", node, note=f"not a valid {ci.name}")

    # ================================================================ statements
    def exec_block(self, stmts, fr: Frame):
        for s in stmts:
            self.exec(s, fr)

    def exec(self, s: ast.stmt, fr: Frame):
        self.steps += 1
        if self.steps > self.max_steps:
            raise AnalysisError("step budget exceeded on one abstract path")
        m = getattr(self, "s_" + type(s).__name__, None)
        if m is None:
            self.unsupported[type(s).__name__] = self.unsupported.get(type(s).__name__, 0) + 1
            raise AnalysisError(f"statement syntax the interpreter does not implement: {type(s).__name__} at "
                                f"{fr.qualname} line {getattr(s, 'lineno', '?')}")
        m(s, fr)

    def s_Expr(self, s, fr):
        if isinstance(s.value, ast.Constant):
            return
        self.eval(s.value, fr)

    def s_Pass(self, s, fr):
        pass

    def s_Return(self, s, fr):
        raise _Return(self.eval(s.value, fr) if s.value is not None else NONE)

    def s_Break(self, s, fr):
        raise _Break()

    def s_Continue(self, s, fr):
        raise _Continue()

    def s_Raise(self, s, fr):
        if s.exc is None:
            f = fr
            while f is not None and f.cur_exc is None:
                f = f.parent
            if f is not None and f.cur_exc is not None:
                raise f.cur_exc
            self.raise_("RuntimeError", s, note="bare raise outside handler")
        v = self.force(self.eval(s.exc, fr))
        if isinstance(v, ClassV):
            v = ExcV(v.ci.name, ())
        elif isinstance(v, ExtV):
            v = ExcV(v.name.split(".")[-1], ())
        if not isinstance(v, ExcV):
            v = ExcV("Exception", (v,))
        self.emit("RAISE", s, exc=v.cls, note="explicit raise")
        raise AbsRaise(v, self.site(s), self.stack())

    def s_Assign(self, s, fr):
        v = self.eval(s.value, fr)
        for t in s.targets:
            self.assign(t, v, fr, s)

    def s_AnnAssign(self, s, fr):
        if s.value is None:
            return
        self.assign(s.target, self.eval(s.value, fr), fr, s)

    def s_AugAssign(self, s, fr):
        if isinstance(s.target, ast.Name):
            cur = self.lookup_name(s.target.id, fr, s)
        elif isinstance(s.target, ast.Attribute):
            cur = self.getattr(self.eval(s.target.value, fr), s.target.attr, s)
        else:
            cur = self.eval(s.target, fr)
        v = self.binop(cur, s.op, self.eval(s.value, fr), s)
        self.assign(s.target, v, fr, s)

    def assign(self, t, v, fr: Frame, node):
        if isinstance(t, ast.Name):
            if fr.globals_decl and t.id in fr.globals_decl:
                self.emit("GLOBALSET", node, name=t.id, value=v)
                return
            # nonlocal: assign where defined
            fr.env[t.id] = v
        elif isinstance(t, (ast.Tuple, ast.List)):
            items = self.iterate(v, node, star=True) if not isinstance(self.force(v), Unk) else None
            if items is None:
                u = self.force(v)
                items = [Unk(f"{u.tag}[{i}]") for i in range(len(t.elts))]
            if any(isinstance(x, ast.Starred) for x in t.elts):
                k = [i for i, x in enumerate(t.elts) if isinstance(x, ast.Starred)][0]
                after = len(t.elts) - k - 1
                for tt, vv in zip(t.elts[:k], items[:k]):
                    self.assign(tt, vv, fr, node)
                self.assign(t.elts[k].value, self.alloc(AList(items[k:len(items) - after])), fr, node)
                for tt, vv in zip(t.elts[k + 1:], items[len(items) - after:]):
                    self.assign(tt, vv, fr, node)
                return
            if len(items) != len(t.elts):
                self.raise_("ValueError", node, note="unpacking length mismatch")
            for tt, vv in zip(t.elts, items):
                self.assign(tt, vv, fr, node)
        elif isinstance(t, ast.Attribute):
            self.setattr(self.eval(t.value, fr), t.attr, v, node)
        elif isinstance(t, ast.Subscript):
            base = self.force(self.eval(t.value, fr))
            if isinstance(base, Ref) and isinstance(self.heap.get(base.addr), AMat):
                o = self.heap[base.addr]
                o.sets.append((ast.unparse(t.slice), v))
                self.emit("MUT", node, obj=base.addr, label=o.base, method="__setitem__", args=(ast.unparse(t.slice), v))
                return
            if isinstance(t.slice, ast.Slice):
                self.emit("MUT", node, obj=base, method="__setslice__", args=(v,))
                return
            idx = self.eval(t.slice, fr)
            self.setitem(base, idx, v, node)
        elif isinstance(t, ast.Starred):
            self.assign(t.value, v, fr, node)

    def setitem(self, base, idx, v, node):
        if isinstance(base, Ref):
            o = self.deref(base)
            if isinstance(o, ADict):
                f = self.class_method(o.cls, "__setitem__")
                if f is not None and not self.is_intrinsic_class(o.cls):
                    self.call_function(f, [base, idx, v], {}, node, dyncls=o.cls)
                    return
                k = self.dkey(o, idx)
                self.emit("MUT", node, obj=base.addr, label=o.label, method="__setitem__", args=(k, v))
                o.entries[k] = v
                return
            if isinstance(o, AList):
                i = self.const_int(idx)
                self.emit("MUT", node, obj=base.addr, label=o.base, method="__setitem__", args=(idx, v))
                if o.items is not None and i is not None and -len(o.items) <= i < len(o.items):
                    o.items[i] = v
                return
            if isinstance(o, AObj):
                f = o.cls.lookup("__setitem__")
                if f is not None:
                    self.call_function(f, [base, idx, v], {}, node, dyncls=o.cls)
                    return
        self.emit("MUT", node, obj=base, method="__setitem__", args=(idx, v))

    def s_Delete(self, s, fr):
        for t in s.targets:
            if isinstance(t, ast.Subscript):
                base = self.force(self.eval(t.value, fr))
                idx = self.eval(t.slice, fr) if not isinstance(t.slice, ast.Slice) else Unk("slice")
                if isinstance(base, Ref) and isinstance(self.deref(base), ADict):
                    o = self.deref(base)
                    k = self.dkey(o, idx)
                    self.emit("MUT", s, obj=base.addr, label=o.label, method="__delitem__", args=(k,))
                    o.entries.pop(k, None)
                else:
                    self.emit("MUT", s, obj=base, method="__delitem__", args=(idx,))
            elif isinstance(t, ast.Name):
                fr.env.pop(t.id, None)

    def s_If(self, s, fr):
        if self.truth(self.eval(s.test, fr)):
            self.exec_block(s.body, fr)
        else:
            self.exec_block(s.orelse, fr)

    def s_Match(self, s, fr):
        subject = self.eval(s.subject, fr)
        for case in s.cases:
            if self.match_pattern(case.pattern, subject, fr, s) and (case.guard is None or self.truth(self.eval(case.guard, fr))):
                self.exec_block(case.body, fr)
                return

    def match_pattern(self, p, v, fr, node) -> bool:
        """Structural pattern matching (PEP 634) on abstract values; forms that cannot be decided fail closed."""
        from .intrinsics import b_isinstance
        if isinstance(p, ast.MatchValue):
            return self.eq(v, self.eval(p.value, fr), node)
        if isinstance(p, ast.MatchSingleton):
            return self.identical(v, Const(p.value))
        if isinstance(p, ast.MatchOr):
            return any(self.match_pattern(q, v, fr, node) for q in p.patterns)
        if isinstance(p, ast.MatchAs):
            if p.pattern is not None and not self.match_pattern(p.pattern, v, fr, node):
                return False
            if p.name is not None:
                fr.env[p.name] = v
            return True
        if isinstance(p, ast.MatchSequence):
            v2 = self.force(v)
            items = None
            if isinstance(v2, (Tup, ArrV)):
                items = list(v2.items)
            elif isinstance(v2, NT):
                items = list(v2.items)
            elif isinstance(v2, Ref) and isinstance(self.deref(v2), AList) and self.deref(v2).items is not None:
                items = list(self.deref(v2).items)
            elif isinstance(v2, (Const, Str, Bytes, Num, Member)) or (isinstance(v2, Ref) and not isinstance(self.deref(v2), AList)):
                return False                      # str, bytes, numbers, None, enum members, dicts and objects are not sequences
            if items is None:
                raise AnalysisError(f"sequence pattern on a value the analysis cannot enumerate (line {getattr(p, 'lineno', '?')})")
            stars = [i for i, q in enumerate(p.patterns) if isinstance(q, ast.MatchStar)]
            if not stars:
                if len(items) != len(p.patterns):
                    return False
                return all(self.match_pattern(q, x, fr, node) for q, x in zip(p.patterns, items))
            k = stars[0]
            after = len(p.patterns) - k - 1
            if len(items) < k + after:
                return False
            head, mid, tail = items[:k], items[k:len(items) - after], items[len(items) - after:]
            if not all(self.match_pattern(q, x, fr, node) for q, x in zip(p.patterns[:k], head)):
                return False
            if not all(self.match_pattern(q, x, fr, node) for q, x in zip(p.patterns[k + 1:], tail)):
                return False
            if p.patterns[k].name is not None:
                fr.env[p.patterns[k].name] = self.alloc(AList(list(mid)))
            return True
        if isinstance(p, ast.MatchClass):
            clsv = self.eval(p.cls, fr)
            if not self.truth(b_isinstance(self, None, [v, clsv], {}, node)):
                return False
            if p.patterns:
                name = ast.unparse(p.cls)
                if len(p.patterns) == 1 and name in ("str", "int", "float", "bool", "bytes", "list", "tuple", "dict", "set", "frozenset", "bytearray"):
                    if not self.match_pattern(p.patterns[0], v, fr, node):
                        return False
                else:
                    v2 = self.force(v)
                    if isinstance(v2, NT) and len(p.patterns) <= len(v2.items):
                        if not all(self.match_pattern(q, x, fr, node) for q, x in zip(p.patterns, v2.items)):
                            return False
                    else:
                        raise AnalysisError(f"positional class pattern {name}(...) is not modelled (line {getattr(p, 'lineno', '?')})")
            for attr, q in zip(p.kwd_attrs, p.kwd_patterns):
                if not self.match_pattern(q, self.getattr(v, attr, node), fr, node):
                    return False
            return True
        raise AnalysisError(f"pattern {type(p).__name__} is not modelled (line {getattr(p, 'lineno', '?')})")

    def _live_list_iter(self, it):
        """Python iterates a list by index and re-reads it at every step, so a body that
        removes or appends elements changes which elements are visited."""
        o = self.heap[it.addr]
        i = 0
        while o.items is not None and i < len(o.items):
            yield o.items[i]
            i += 1
            if i > 10000:
                raise AnalysisError("runaway iteration over a growing list")

    def run_generator(self, g, on_value):
        """Run a generator function's body; `on_value(v)` is called at every yield (it may raise _Break)."""
        gfr = g.frame
        gfr.yield_cb = on_value
        depth = len(self.frames)
        self.frames.append(gfr)
        try:
            try:
                self.exec_block(g.func.node.body, gfr)
            except _Return:
                pass
        finally:
            del self.frames[depth:]
            gfr.yield_cb = None

    def s_For(self, s, fr):
        itv = self.force(self.eval(s.iter, fr))
        if isinstance(itv, GenFn):
            broke = False

            def body(x):
                self.assign(s.target, x, fr, s)
                try:
                    self.exec_block(s.body, fr)
                except _Continue:
                    pass
            try:
                self.run_generator(itv, body)
            except _Break:
                broke = True
            if not broke:
                self.exec_block(s.orelse, fr)
            return
        if isinstance(itv, Ref) and isinstance(self.heap.get(itv.addr), AList) and self.heap[itv.addr].items is not None \
                and self.heap[itv.addr].kind == "list":
            items = self._live_list_iter(itv)
        else:
            items = self.iterate(itv, s.iter)
        broke = False
        for x in items:
            self.assign(s.target, x, fr, s)
            try:
                self.exec_block(s.body, fr)
            except _Break:
                broke = True
                break
            except _Continue:
                continue
        if not broke:
            self.exec_block(s.orelse, fr)

    def s_While(self, s, fr):
        n = 0
        broke = False
        while self.truth(self.eval(s.test, fr)):
            n += 1
            if n > (self.while_bound or max(2, self.loop_unroll + 1)):
                raise PathAbort()
            try:
                self.exec_block(s.body, fr)
            except _Break:
                broke = True
                break
            except _Continue:
                continue
        if not broke:
            self.exec_block(s.orelse, fr)

    def s_Try(self, s, fr):
        try:
            self._try_body(s, fr)
        except (AbsRaise, _Return, _Break, _Continue):
            # the finally clause runs for abstract raises and control flow alike
            self.exec_block(s.finalbody, fr)
            raise
        else:
            self.exec_block(s.finalbody, fr)

    def _try_body(self, s, fr):
        if True:
            try:
                self.exec_block(s.body, fr)
            except AbsRaise as e:
                chain = self.P.exception_parent_chain(e.exc.cls)
                for h in s.handlers:
                    if self.handler_matches(h, chain, fr):
                        if h.name:
                            fr.env[h.name] = e.exc
                        saved = fr.cur_exc
                        fr.cur_exc = e
                        try:
                            self.emit("CATCH", h, exc=e.exc.cls)
                            self.exec_block(h.body, fr)
                        finally:
                            fr.cur_exc = saved
                        break
                else:
                    raise
            else:
                self.exec_block(s.orelse, fr)

    def exit_stack_class(self):
        ci = getattr(self, "_exit_stack_ci", None)
        if ci is None:
            ci = self._exit_stack_ci = ClassInfo("ExitStack", "contextlib", ast.parse("class ExitStack: pass").body[0], [])
        return ci

    def exit_stack_method(self, ref, name, args, kwargs, node):
        o = self.deref(ref)
        if name == "callback" and args:
            kw = {k: v for k, v in kwargs.items() if k != "**"}
            self.deref(o.fields["callbacks"]).items.append(Tup((args[0], Tup(tuple(args[1:])), Tup(tuple(Tup((Const(k), v)) for k, v in kw.items())))))
            return args[0]
        if name == "close":
            self.exit_stack_unwind(ref, node)
            return NONE
        if name == "__enter__":
            return ref
        if name == "__exit__":
            self.exit_stack_unwind(ref, node)
            return FALSE
        raise AnalysisError(f"contextlib.ExitStack.{name} is not modelled (line {getattr(node, 'lineno', '?')})")

    def exit_stack_unwind(self, ref, node):
        """Run the callbacks of a contextlib.ExitStack in reverse registration order (also when the block raised)."""
        o = self.deref(ref)
        cbs = o.fields.get("callbacks")
        items = list(self.deref(cbs).items) if isinstance(cbs, Ref) else []
        self.deref(cbs).items[:] = []
        for cb in reversed(items):
            fn, a, kw = cb.items
            self.call(fn, list(a.items), {k.v: v for k, v in (p.items for p in kw.items)}, node)

    def handler_matches(self, h, chain, fr):
        if h.type is None:
            return True
        types = h.type.elts if isinstance(h.type, ast.Tuple) else [h.type]
        for t in types:
            name = t.attr if isinstance(t, ast.Attribute) else (t.id if isinstance(t, ast.Name) else None)
            if name in chain:
                return True
        # a name that stands for a tuple of exception classes (a module constant, a local), or a computed expression
        for t in types:
            if self._exc_names(t, fr) & set(chain):
                return True
        return False

    def _exc_names(self, t, fr):
        try:
            v = self.force(self.eval(t, fr))
        except (AbsRaise, AnalysisError):
            return set()
        out = set()
        work = [v]
        while work:
            x = work.pop()
            if isinstance(x, Tup):
                work.extend(x.items)
            elif isinstance(x, ClassV):
                out.add(x.ci.name)
            elif isinstance(x, ExtV):
                out.add(x.name.split(".")[-1])
        return out

    def s_With(self, s, fr):
        def run(i):
            if i == len(s.items):
                self.exec_block(s.body, fr)
                return
            item = s.items[i]
            cm = self.force(self.eval(item.context_expr, fr))
            if isinstance(cm, GenCM):
                gfr = cm.frame

                def body(val):
                    if item.optional_vars is not None:
                        self.assign(item.optional_vars, val, fr, s)
                    # the with-body runs in the caller's frame, on top of the generator frame
                    self.frames.append(fr)
                    try:
                        run(i + 1)
                    except _Return as r:
                        r._from_body = True
                        raise
                    finally:
                        self.frames.pop()
                gfr.yield_cb = body
                self.frames.append(gfr)
                try:
                    try:
                        self.exec_block(cm.func.node.body, gfr)
                    except _Return as r:
                        if getattr(r, "_from_body", False):
                            raise
                finally:
                    self.frames.pop()
                    gfr.yield_cb = None
                return
            if isinstance(cm, PartialV) and cm.kind == "suppress":
                try:
                    run(i + 1)
                except AbsRaise as e:
                    chain = set(self.P.exception_parent_chain(e.exc.cls))
                    names = set()
                    for a in cm.args:
                        x = self.force(a)
                        names.add(x.ci.name if isinstance(x, ClassV) else (x.name.split(".")[-1] if isinstance(x, ExtV) else "?"))
                    if not (names & chain):
                        raise
                    self.emit("CATCH", s, exc=e.exc.cls)
                return
            if isinstance(cm, Ref) and isinstance(self.deref(cm), AObj) and self.deref(cm).label == "ExitStack":
                if item.optional_vars is not None:
                    self.assign(item.optional_vars, cm, fr, s)
                try:
                    run(i + 1)
                finally:
                    self.exit_stack_unwind(cm, s)
                return
            if isinstance(cm, PartialV) and cm.kind == "nullcontext":
                if item.optional_vars is not None:
                    self.assign(item.optional_vars, cm.args[0] if cm.args else NONE, fr, s)
                run(i + 1)
                return
            # generic context manager protocol
            enter = self.getattr(cm, "__enter__", s)
            val = self.call(enter, [], {}, s)
            if item.optional_vars is not None:
                self.assign(item.optional_vars, val, fr, s)
            try:
                run(i + 1)
            finally:
                ex = self.getattr(cm, "__exit__", s)
                self.call(ex, [NONE, NONE, NONE], {}, s)
        run(0)

    def s_FunctionDef(self, s, fr):
        fr.env[s.name] = Closure(s, fr, s.name)

    def s_ClassDef(self, s, fr):
        fr.env[s.name] = Unk(f"localclass:{s.name}")

    def s_Import(self, s, fr):
        for a in s.names:
            fr.env[a.asname or a.name.split(".")[0]] = ExtV(a.name if a.asname else a.name.split(".")[0])

    def s_ImportFrom(self, s, fr):
        for a in s.names:
            fr.env[a.asname or a.name] = ExtV(f"{s.module}.{a.name}")

    def s_Global(self, s, fr):
        fr.globals_decl = (fr.globals_decl or set()) | set(s.names)

    def s_Nonlocal(self, s, fr):
        pass

    def s_Assert(self, s, fr):
        if not self.truth(self.eval(s.test, fr)):
            self.raise_("AssertionError", s)


@dataclass(frozen=True)
class GenV(V):
    node: object
    frame: object

    def __hash__(self):
        return id(self.node)


def _has_yield(fnode) -> bool:
    stack = list(fnode.body)
    while stack:
        n = stack.pop()
        if isinstance(n, (ast.Yield, ast.YieldFrom)):
            return True
        if isinstance(n, (ast.FunctionDef, ast.AsyncFunctionDef, ast.Lambda, ast.ClassDef)):
            continue
        stack.extend(ast.iter_child_nodes(n))
    return False


class _ClosureFunc:
    """Just enough of a FuncInfo for run_generator: the body of a nested generator function."""
    def __init__(self, node):
        self.node = node


@dataclass(frozen=True)
class GenFn(V):
    """A called generator function that has not run yet."""
    func: object
    frame: object

    def __hash__(self):
        return id(self.frame)


@dataclass(frozen=True)
class IterV(V):
    """Materialised iterator (zip/enumerate/items results)."""
    items: tuple


@dataclass(frozen=True)
class GenCM(V):
    """Result of calling a @contextmanager function: runs at `with`."""
    func: object
    frame: object

    def __hash__(self):
        return id(self.frame)
