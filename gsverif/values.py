"""Abstract values of the interpreter (immutable) and heap objects (mutable)."""
from __future__ import annotations

from dataclasses import dataclass, field
from .poly import Poly


class V:
    """Base class of abstract values."""
    __slots__ = ()


@dataclass(frozen=True)
class Const(V):
    v: object          # None, bool, int, float, str, bytes

    def __repr__(self):
        return f"Const({self.v!r})"


NONE = Const(None)
TRUE = Const(True)
FALSE = Const(False)


@dataclass(frozen=True)
class Member(V):
    cls: str
    name: str

    def __repr__(self):
        return f"{self.cls}.{self.name}"


@dataclass(frozen=True)
class Num(V):
    """A number (never None) given as a polynomial of symbols."""
    p: Poly
    is_int: bool = False

    def __repr__(self):
        return f"Num({self.p.key()})"


@dataclass(frozen=True)
class Opt(V):
    """Optional number: None or Num(sym(name)); decided by the path facts."""
    name: str

    def __repr__(self):
        return f"Opt({self.name})"


@dataclass(frozen=True)
class Choice(V):
    """Unknown value of a finite domain: kind 'bool' or 'enum:<Class>'."""
    name: str
    kind: str

    def __repr__(self):
        return f"Choice({self.name}:{self.kind})"


@dataclass(frozen=True)
class Tup(V):
    items: tuple

    def __repr__(self):
        return "Tup(" + ", ".join(map(repr, self.items)) + ")"


@dataclass(frozen=True)
class NT(V):
    """Instance of a NamedTuple class of the repository (Point)."""
    cls: str
    names: tuple
    items: tuple

    def get(self, n):
        return self.items[self.names.index(n)]

    def __repr__(self):
        return f"{self.cls}(" + ", ".join(map(repr, self.items)) + ")"


@dataclass(frozen=True)
class Ref(V):
    addr: int

    def __repr__(self):
        return f"Ref({self.addr})"


@dataclass(frozen=True)
class FuncV(V):
    func: object            # model.FuncInfo
    selfv: object = None    # bound receiver or None
    dyncls: object = None   # ClassInfo the lookup started from (dynamic class)

    def __repr__(self):
        return f"FuncV({self.func.qualname})"


@dataclass(frozen=True)
class ClassV(V):
    ci: object              # model.ClassInfo

    def __repr__(self):
        return f"ClassV({self.ci.name})"


@dataclass(frozen=True)
class ModuleV(V):
    name: str


@dataclass(frozen=True)
class ExtV(V):
    """Something outside the analysed package, by dotted name (numpy.hypot, len...)."""
    name: str

    def __repr__(self):
        return f"Ext({self.name})"


@dataclass(frozen=True)
class PatV(V):
    """A compiled regular expression whose pattern is a constant."""
    pattern: str
    flags: int = 0

    def __repr__(self):
        return f"Pattern({self.pattern!r})"


@dataclass(frozen=True)
class BoundBuiltin(V):
    """Method of a builtin container / string bound to its receiver."""
    recv: object
    name: str


@dataclass(frozen=True)
class PartialV(V):
    """functools.partial / operator.itemgetter / attrgetter / methodcaller: a callable with frozen arguments."""
    kind: str       # "partial" | "itemgetter" | "attrgetter" | "methodcaller"
    func: object
    args: tuple
    kwargs: tuple   # sorted (name, value) pairs


@dataclass(frozen=True)
class MemoV(V):
    """functools.lru_cache / functools.cache wrapper around a callable: results are reused per argument tuple."""
    func: object


@dataclass(frozen=True)
class SuperV(V):
    after: object   # ClassInfo: lookup starts after this class in the MRO
    selfv: object
    dyncls: object


@dataclass(frozen=True)
class Closure(V):
    node: object    # ast.FunctionDef | ast.Lambda
    frame: object   # defining Frame (shared, by identity)
    name: str

    def __hash__(self):
        return hash((id(self.node), id(self.frame)))

    def __eq__(self, o):
        return isinstance(o, Closure) and o.node is self.node and o.frame is self.frame


@dataclass(frozen=True)
class ExcV(V):
    cls: str
    args: tuple = ()


@dataclass(frozen=True)
class Unk(V):
    """Opaque value identified by a tag (a value number)."""
    tag: str
    typ: str = ""

    def __repr__(self):
        return f"Unk({self.tag}" + (f":{self.typ})" if self.typ else ")")


# ------------------------------------------------------------------ strings
@dataclass(frozen=True)
class Lit:
    text: str


@dataclass(frozen=True)
class NumFmt:
    """Text produced by the formatter's number() for `value`."""
    value: object


@dataclass(frozen=True)
class StrOf:
    """Text produced by str()/f-string/% interpolation of a non-string `value`."""
    value: object
    spec: str = ""


@dataclass(frozen=True)
class Text:
    """A string-valued symbol (caller text, configuration string)."""
    name: str
    removed: frozenset = frozenset()     # characters provably absent (after sanitising)
    stripped: bool = False


@dataclass(frozen=True)
class ParamsFmt:
    """Text produced by formatter.parameters(d): snapshot of the record."""
    entries: tuple      # ((KEY, value), ...)
    open: bool
    bases: tuple        # names of open bases, for value numbering of unknown keys
    upper: bool = True


@dataclass(frozen=True)
class Fmt:
    """template.format(*args) with a non-constant template."""
    template: object
    args: tuple


@dataclass(frozen=True)
class RStripEnd:
    """Marks that everything before it was right-stripped of white space."""


@dataclass(frozen=True)
class Str(V):
    parts: tuple
    rstripped: bool = False

    def __repr__(self):
        return "Str(" + " ".join(map(repr, self.parts)) + ")"


@dataclass(frozen=True)
class BSeg:
    """A non-empty run of bytes without a newline, identified by name; `lo`/`hi`
    cut a constant number of bytes off its ends (sub-segments)."""
    name: str
    lo: int = 0
    hi: int = 0

    def __repr__(self):
        return self.name + (f"[{self.lo or ''}:{-self.hi if self.hi else ''}]" if (self.lo or self.hi) else "")


@dataclass(frozen=True)
class BNL:
    def __repr__(self):
        return "\\n"


@dataclass(frozen=True)
class BV(V):
    """Symbolic byte string: a sequence of segments and newlines."""
    parts: tuple

    def __repr__(self):
        return "b<" + " ".join(map(repr, self.parts)) + ">"


@dataclass(frozen=True)
class MatProd(V):
    """Matrix product a @ b @ ... (flattened; association does not matter)."""
    factors: tuple

    def __repr__(self):
        return " @ ".join(map(repr, self.factors))


@dataclass(frozen=True)
class LinV(V):
    """numpy.linspace(start, stop, num[, endpoint]) possibly sliced from the front."""
    start: object
    stop: object
    num: object
    endpoint: object
    dropped: int = 0


@dataclass(frozen=True)
class ArrV(V):
    """numpy.array([...]) of known elements."""
    items: tuple


@dataclass(frozen=True)
class LinesV(V):
    """text.splitlines() of a non-constant string."""
    src: object     # Str


@dataclass(frozen=True)
class Bytes(V):
    s: object       # Str / Const str / Unk
    enc: str


# ------------------------------------------------------------------ heap
@dataclass
class AObj:
    cls: object                     # ClassInfo
    fields: dict = field(default_factory=dict)
    label: str = ""

    def clone(self):
        return AObj(self.cls, dict(self.fields), self.label)


@dataclass
class ADict:
    entries: dict = field(default_factory=dict)   # python key (str/...)/V -> V ; insertion ordered
    open: bool = False
    bases: tuple = ()               # names giving value numbers to unknown keys
    upper: bool = False             # ParamsDict semantics
    label: str = ""
    cls: object = None              # ClassInfo for dict subclasses
    keymap: str | None = None       # "upper": keys are the upper-cased keys of the bases
    removed: set = field(default_factory=set)   # canonical keys known to be absent (popped)

    def clone(self):
        return ADict(dict(self.entries), self.open, self.bases, self.upper, self.label, self.cls,
                     self.keymap, set(self.removed))


@dataclass
class AMat:
    """A fresh matrix (numpy.eye / zeros ...) with the slice stores made to it."""
    base: str
    sets: list = field(default_factory=list)    # (index text, value)

    def clone(self):
        return AMat(self.base, list(self.sets))


@dataclass
class AList:
    items: list | None = None       # None: opaque
    base: str = ""                  # name for opaque lists
    universal: bool = False         # opaque list iterated as "for each element" exactly once
    elem: object = None             # optional prototype element for opaque lists
    kind: str = "list"              # list | set

    def clone(self):
        return AList(None if self.items is None else list(self.items), self.base, self.universal, self.elem, self.kind)
