"""Findings, known-findings triage, evidence files and exit codes."""
from __future__ import annotations

import hashlib
import json
import os
import pathlib
import time

VERIF = pathlib.Path(__file__).resolve().parent.parent
EVIDENCE_DIR = pathlib.Path(os.environ.get("GSVERIF_EVIDENCE_DIR") or (VERIF / "evidence"))
KNOWN = VERIF / "known_findings.json"


def _jsonable(x, depth=0):
    if depth > 6:
        return str(x)
    if isinstance(x, (str, int, float, bool)) or x is None:
        return x
    if isinstance(x, dict):
        return {str(k): _jsonable(v, depth + 1) for k, v in x.items()}
    if isinstance(x, (list, tuple, set, frozenset)):
        return [_jsonable(v, depth + 1) for v in x]
    return str(x)


class Finding:
    def __init__(self, rule, key, message, constructs=(), detail=None):
        self.rule = rule
        self.key = key
        self.message = message
        self.constructs = list(constructs)
        self.detail = detail or {}

    def to_json(self):
        return {"rule": self.rule, "key": self.key, "message": self.message,
                "constructs": self.constructs, "detail": _jsonable(self.detail)}


class Check:
    """Collects what one property check analysed and found."""

    def __init__(self, prop_id: str, tier: str, repo: str):
        self.prop_id = prop_id
        self.tier = tier
        self.repo = str(repo)
        self.t0 = time.time()
        self.seed = int(os.environ.get("VERIF_SEED", "0") or 0)
        self.rules = {}           # rule id -> {"text":..., "obligations": n, "discharged": n, "undecided": n}
        self.findings = {}        # key -> Finding
        self.samples = []
        self.assumptions = []
        self.coverage = {}
        self.explanation = ""
        self.analysed = {}
        self.distinct = set()
        self.floor_failures = []

    # ------------------------------------------------------------ recording
    def rule(self, rid, text):
        self.rules.setdefault(rid, {"text": text, "obligations": 0, "discharged": 0, "undecided": 0})

    def ok(self, rid, what=None, n=1):
        r = self.rules[rid]
        r["obligations"] += n
        r["discharged"] += n
        if what is not None:
            self.distinct.add((rid, str(what)))

    def undecided(self, rid, what):
        r = self.rules[rid]
        r["obligations"] += 1
        r["undecided"] += 1
        r.setdefault("undecided_list", [])
        if len(r["undecided_list"]) < 20:
            r["undecided_list"].append(str(what))
        self.distinct.add((rid, str(what)))

    def violation(self, rid, key, message, constructs=(), **detail):
        r = self.rules[rid]
        full = f"{self.prop_id}.{rid}:{key}"
        if full not in self.findings:
            r["obligations"] += 1
            self.findings[full] = Finding(rid, full, message, constructs, detail)
        else:
            f = self.findings[full]
            f.detail.setdefault("more", 0)
            f.detail["more"] += 1
        self.distinct.add((rid, str(key)))

    def floor(self, ok: bool, message: str):
        """Instance-count floor: a rule that no longer sees its subject must not pass silently.
        A failed floor is an analysis error -- unless the run found violations, which are then
        the more specific report."""
        if not ok:
            self.floor_failures.append(message)

    def sample(self, s):
        if len(self.samples) < 12:
            self.samples.append(_jsonable(s))

    def assume(self, text):
        if text not in self.assumptions:
            self.assumptions.append(text)

    # ------------------------------------------------------------ finishing
    def finish(self) -> int:
        known = []
        if KNOWN.exists():
            known = json.loads(KNOWN.read_text())
        known_keys = {k["key"]: k for k in known if k.get("property") == self.prop_id and k.get("status") == "known"}
        violations = []
        known_hit = []
        for key, f in sorted(self.findings.items()):
            if key in known_keys:
                known_hit.append((f, known_keys[key]))
            else:
                violations.append(f)
        for f, k in known_hit:
            print(f"KNOWN-FINDING: property={self.prop_id} {k.get('what', f.message)} [{f.key}]")
        stale = [k for k in known_keys if k not in self.findings]
        for k in stale:
            print(f"STALE-KNOWN-FINDING: property={self.prop_id} {k} (listed as known but not reported by this run)")
        replay_dir = EVIDENCE_DIR / "replay"
        for f in violations:
            replay_dir.mkdir(parents=True, exist_ok=True)
            h = hashlib.sha1(f.key.encode()).hexdigest()[:10]
            path = replay_dir / f"{self.prop_id}-{h}.json"
            path.write_text(json.dumps({"property": self.prop_id, "tier": self.tier, "repo": self.repo,
                                        "finding": f.to_json()}, indent=1))
            print(f"FINDING {f.key}: {f.message}")
            for c in f.constructs:
                print(f"    at {c}")
            print(f"VIOLATION property={self.prop_id} replay={path}")
        obligations = sum(r["obligations"] for r in self.rules.values())
        discharged = sum(r["discharged"] for r in self.rules.values())
        undecided = sum(r["undecided"] for r in self.rules.values())
        cov = {
            "explanation": self.explanation,
            "rules": {rid: {k: v for k, v in r.items()} for rid, r in self.rules.items()},
            "obligations": obligations,
            "discharged": discharged,
            "undecided": undecided,
            "evaluations": max(1, obligations),
            "distinct_nontrivial": max(2, len(self.distinct)),
            "rule": "one evaluation = one rule obligation decided on the current source; distinct = distinct (rule, instance) pairs",
            "samples": self.samples or [{"note": "no sample recorded"}],
            "analysed": _jsonable(self.analysed),
            "known_findings_reported": [f.key for f, _ in known_hit],
            "new_violations": [f.to_json() for f in violations],
        }
        cov.update(_jsonable(self.coverage))
        ev = {
            "property_id": self.prop_id,
            "tier": self.tier,
            "seed": self.seed,
            "level": "other",
            "coverage": cov,
            "assumptions": self.assumptions,
            "wall_s": round(time.time() - self.t0, 3),
            "violations": len(violations),
        }
        EVIDENCE_DIR.mkdir(parents=True, exist_ok=True)
        (EVIDENCE_DIR / f"{self.prop_id}.json").write_text(json.dumps(ev, indent=1))
        print(f"{self.prop_id} [{self.tier}] rules={len(self.rules)} obligations={obligations} discharged={discharged} "
              f"undecided={undecided} known={len(known_hit)} violations={len(violations)} wall={ev['wall_s']}s")
        return 1 if violations else 0


def analysis_error(prop_id, tier, message):
    """Evidence for a run whose analysis broke: says so, never claims a pass."""
    print(f"ANALYSIS-ERROR: property={prop_id} {message}")
    ev = {
        "property_id": prop_id, "tier": tier, "seed": int(os.environ.get("VERIF_SEED", "0") or 0), "level": "other",
        "coverage": {"explanation": f"analysis broken, nothing decided: {message}", "evaluations": 1, "distinct_nontrivial": 2,
                     "samples": [{"analysis_error": message}]},
        "assumptions": [], "wall_s": 0.0, "violations": 0,
    }
    EVIDENCE_DIR.mkdir(parents=True, exist_ok=True)
    (EVIDENCE_DIR / f"{prop_id}.json").write_text(json.dumps(ev, indent=1))
    return 2
