"""Reading abstract paths: delivered statements, codes, words, state stores."""
from __future__ import annotations

import re

from .values import *

CODE_RE = re.compile(r"(?<![A-Za-z0-9.])([GMT])0*(\d+(?:\.\d+)?)(?![A-Za-z0-9.])")


def norm_code(text: str) -> str:
    """RS274 word compare modulo leading zeros: M05 == M5."""
    m = CODE_RE.fullmatch(text.strip())
    if not m:
        return text.strip()
    return f"{m.group(1)}{m.group(2)}"


def out_of_scope_exception(P, cls: str) -> bool:
    """I/O failures and the caller's own exceptions are outside every raise set."""
    chain = P.exception_parent_chain(cls)
    return "DeviceError" in chain or cls in ("GscribError", "BodyError", "OSError", "IOError")


ENCODING_ERRORS = ("UnicodeEncodeError", "UnicodeDecodeError")


def out_of_scope_path(P, path) -> bool:
    """Like out_of_scope_exception, for a whole path: the I/O wrapper GscribError is in scope when what it
    wraps is the library's own failure to encode the line (not a writer's I/O failure)."""
    cls = path.value.cls
    if cls == "GscribError" and any(e.kind == "RAISE" and e.data.get("exc") in ENCODING_ERRORS for e in path.trace):
        return False
    return out_of_scope_exception(P, cls)


class Statement:
    """One line handed to the writers: provenance parts of the text."""

    def __init__(self, value, event):
        self.event = event
        self.raw = value
        s = value
        self.encoding = None
        if isinstance(s, Bytes):
            self.encoding = s.enc
            s = s.s
        if isinstance(s, Const) and isinstance(s.v, str):
            s = Str((Lit(s.v),))
        if isinstance(s, Const) and isinstance(s.v, bytes):
            s = Str((Lit(s.v.decode("utf-8", "replace")),))
        self.parts = list(s.parts) if isinstance(s, Str) else [StrOf(s)]
        self.rstripped = isinstance(s, Str) and s.rstripped
        # the whole line is the result of a call the analysis does not model: nothing can be said about it
        self.opaque_call = s.tag if isinstance(s, Unk) and s.typ == "ext" else None

    def literal_text(self):
        return "".join(p.text for p in self.parts if isinstance(p, Lit))

    def codes(self):
        out = []
        for p in self.parts:
            if isinstance(p, Lit):
                for m in CODE_RE.finditer(p.text):
                    if m.group(1) in "GM":
                        out.append(f"{m.group(1)}{m.group(2)}")
        return out

    def params(self):
        return [p for p in self.parts if isinstance(p, ParamsFmt)]

    def comments(self):
        return [p for p in self.parts if isinstance(p, Fmt)]

    def texts(self):
        return [p for p in self.parts if isinstance(p, Text)]

    def raw_values(self):
        return [p for p in self.parts if isinstance(p, StrOf)]

    def numfmts(self):
        return [p for p in self.parts if isinstance(p, NumFmt)]

    def describe(self):
        out = []
        for p in self.parts:
            if isinstance(p, Lit):
                out.append(p.text)
            elif isinstance(p, ParamsFmt):
                ws = []
                for k, v in p.entries:
                    if isinstance(v, Const) and v.v is None:
                        continue
                    ws.append(f"{k}<{short(v)}>")
                if p.open:
                    ws.append("…")
                out.append(" ".join(ws))
            elif isinstance(p, Fmt):
                out.append("(comment " + ",".join(short(a) for a in p.args) + ")")
            elif isinstance(p, Text):
                out.append(f"<{p.name}>")
            elif isinstance(p, NumFmt):
                out.append(f"#<{short(p.value)}>")
            elif isinstance(p, StrOf):
                out.append(f"str<{short(p.value)}>")
        return "".join(out)


def short(v):
    if isinstance(v, Num):
        return v.p.key()
    if isinstance(v, Const):
        return repr(v.v)
    if isinstance(v, Unk):
        return v.tag
    if isinstance(v, Member):
        return f"{v.cls}.{v.name}"
    return repr(v)


def is_writer_delivery(ev) -> bool:
    if ev.kind != "EXT":
        return False
    c = ev.data.get("callee")
    return isinstance(c, Unk) and c.tag.startswith("elem(g._writers)") and c.tag.endswith(".write")


def statements(path):
    return [Statement(e.data["args"][0] if e.data["args"] else NONE, e) for e in path.trace if is_writer_delivery(e)]


def state_sets(path, label=None, field=None):
    out = []
    for e in path.trace:
        if e.kind == "SET" and (label is None or e.data.get("label") == label) and (field is None or e.data.get("field") == field):
            out.append(e)
    return out


def chain(ev_or_stack) -> str:
    st = ev_or_stack.stack if hasattr(ev_or_stack, "stack") else ev_or_stack
    return " > ".join(s for s in st if not s.startswith("<"))


def final_field(path, W, label, field):
    o = W.obj(_HeapView(path.heap), label)
    return o.fields.get(field)


class _HeapView:
    def __init__(self, heap):
        self.heap = heap


def decisions_text(path, limit=12):
    out = []
    for k, v in path.decisions:
        out.append(f"{k}={v}")
    return "; ".join(out[:limit]) + (" …" if len(out) > limit else "")


def words(stmt: Statement, facts: dict, letters=("F", "S", "R", "T", "X", "Y", "Z", "E", "P")):
    """(letter, value, status, how) for the address words of a delivered statement.

    status: 'present' | 'possible' (an unknown entry of an open record whose
    presence the path never decided); how: 'number' (through number()),
    'raw' (interpolated without number()), 'int' (integer format spec)."""
    from .poly import Poly
    out = []
    parts = stmt.parts
    for i, p in enumerate(parts):
        if isinstance(p, ParamsFmt):
            seen = set()
            for k, v in p.entries:
                if not isinstance(k, str):
                    continue
                seen.add(k)
                if isinstance(v, Const) and v.v is None:
                    # axis entries that are None are skipped by the formatter; other labels print 'None'
                    if k in ("X", "Y", "Z"):
                        continue
                out.append((k, v, "present", "number" if isinstance(v, (Num,)) or (isinstance(v, Const) and isinstance(v.v, (int, float))) else "raw"))
            if p.open:
                for L in letters:
                    if L in seen:
                        continue
                    for b in p.bases:
                        f = facts.get(f"has:{b}[{L}]")
                        if f is False or facts.get(f"nonempty:{b}") is False:
                            continue
                        out.append((L, Num(Poly.sym(f"{b}[{L}]")), "present" if f is True else "possible", "number"))
        elif isinstance(p, (NumFmt, StrOf)):
            prev = parts[i - 1] if i else None
            if isinstance(prev, Lit) and prev.text and prev.text[-1].isalpha() and (len(prev.text) == 1 or not prev.text[-2].isalnum()):
                how = "number" if isinstance(p, NumFmt) else ("int" if _int_spec(p) else "raw")
                out.append((prev.text[-1].upper(), p.value, "present", how))
    return out


def _int_spec(p: StrOf) -> bool:
    v = p.value
    spec = p.spec or ""
    is_int = isinstance(v, Num) and v.is_int or (isinstance(v, Const) and isinstance(v.v, int))
    import re
    spec = re.sub(r"\{.*\}", "", spec)     # nested replacement fields are widths, not presentation types
    return bool(is_int) and not any(c in spec for c in "eEgG%")


def same_value(a, b) -> bool:
    if isinstance(a, Num) and isinstance(b, Num):
        return a.p == b.p
    if isinstance(a, Const) and isinstance(b, Num) or isinstance(a, Num) and isinstance(b, Const):
        from .poly import Poly
        c, n = (a, b) if isinstance(a, Const) else (b, a)
        try:
            return isinstance(c.v, (int, float)) and not isinstance(c.v, bool) and Poly.const(c.v) == n.p
        except ValueError:
            return False
    return a == b


def calls(path, qualname):
    return [e for e in path.trace if e.kind == "CALL" and e.data.get("func") == qualname]


def resolve(v, facts):
    """Value of a havocked initial-store entry under the decisions of one path."""
    from .poly import Poly
    if isinstance(v, Choice):
        if v.kind == "bool" and ("bool:" + v.name) in facts:
            return Const(facts["bool:" + v.name])
        if v.kind.startswith("enum:") and ("enum:" + v.name) in facts:
            return Member(v.kind[5:], facts["enum:" + v.name])
        return v
    if isinstance(v, Opt):
        k = facts.get("opt:" + v.name)
        if k == "none":
            return NONE
        if k == "some":
            return Num(Poly.sym(v.name))
        return v
    if isinstance(v, NT):
        return NT(v.cls, v.names, tuple(resolve(x, facts) for x in v.items))
    if isinstance(v, Tup):
        return Tup(tuple(resolve(x, facts) for x in v.items))
    return v
