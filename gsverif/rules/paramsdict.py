"""Contract of ``ParamsDict`` (gscrib/params.py), which every command-wide analysis *uses* instead of its source.

The analyses model a ParamsDict as "a dict whose keys are upper-cased" (intrinsics.c_paramsdict, values.ADict.upper).
This rule discharges that assumption on the source: every method the class defines is executed abstractly on a plain
dict (``super()`` reaches the builtin) and compared with what a case-insensitive dict does -- on records whose stored
values are *symbolic numbers*, so that a method that looks at the truth value of what is stored (``self.get(k) or
default``) forks, and the branch taken for a stored zero is compared too.

Shared by C07 (remembered parameters), C18 (readings) and C20 (parameters threaded through hooks).
"""
from __future__ import annotations

import ast

from ..interp import Interp, Frame
from ..model import Program, AnalysisError
from ..poly import Poly
from ..traceutil import decisions_text
from ..values import *

NODE = ast.parse("0").body[0]


def _num(name):
    return Num(Poly.sym(name))


def contract(check, P: Program, rule="R8"):
    try:
        ci = P.cls("ParamsDict")
    except AnalysisError:
        check.floor(False, f"{rule}: class ParamsDict not found")
        return 0
    I = Interp(P)
    I.intrinsic_classes = set()          # interpret the class's own methods
    I.intrinsics.pop("ParamsDict", None)
    n = 0
    V, W, D = _num("stored"), _num("other"), _num("default")

    def fresh(I_, entries):
        d = ADict(cls=ci, label="pd")
        for k, v in entries.items():
            d.entries[k] = v
        return I_.alloc(d)

    def run(label, entries, call, expect):
        """call(I, ref) -> value ; expect(entries_after: dict, value, path) -> error text | None"""
        nonlocal n
        seen = 0

        def entry(I_, _):
            I_.frames = [Frame(None, ci.module, {}, qualname="<entry>")]
            try:
                ref = fresh(I_, entries)
                val = call(I_, ref)
                return Tup((ref, val if val is not None else NONE))
            finally:
                I_.frames = []
        for path in I.explore(lambda I_: None, entry, max_dev=None, max_paths=500):
            n += 1
            seen += 1
            d = [decisions_text(path)]
            if path.outcome != "return":
                err = expect(None, path.value, path)
            else:
                ref, val = path.value.items
                after = dict(path.heap[ref.addr].entries)
                err = expect(after, val, path)
            if err:
                check.violation(rule, f"paramsdict:{label}", f"ParamsDict: {label}: {err}", d)
            else:
                check.ok(rule, f"ParamsDict: {label}")
        check.floor(seen >= 1, f"{rule}: ParamsDict scenario '{label}' has no abstract path")

    def meth(name):
        f = ci.lookup(name)
        return f

    def call(name, *args, **kw):
        def go(I_, ref):
            f = meth(name)
            if f is None:
                # not overridden: the builtin's behaviour on the stored (upper-cased) keys
                from ..intrinsics import dict_method
                return dict_method(I_, ref, I_.deref(ref), name, list(args), dict(kw), NODE)
            return I_.call_function(f, [ref] + list(args), dict(kw), NODE, dyncls=ci)
        return go

    def returned(path):
        return path.outcome == "return"

    def same(a, b):
        return a == b

    # __setitem__
    run("d['x'] = v stores under 'X'", {}, lambda I_, r: I_.setitem(r, Const("x"), V, NODE),
        lambda after, val, p: None if after == {"X": V} else f"the record is {after!r}, expected {{'X': v}}")
    # __getitem__
    run("d['x'] reads 'X'", {"X": V}, lambda I_, r: I_.getitem(r, Const("x"), NODE),
        lambda after, val, p: None if returned(p) and same(val, V) and after == {"X": V} else f"returns {val!r} / record {after!r}, expected the stored value")
    run("d['y'] on a missing key gives None", {"X": V}, lambda I_, r: I_.getitem(r, Const("y"), NODE),
        lambda after, val, p: None if returned(p) and val == NONE and after == {"X": V} else f"returns {val!r} / record {after!r}, expected None")
    # __contains__
    run("'x' in d", {"X": V}, call("__contains__", Const("x")),
        lambda after, val, p: None if returned(p) and val == TRUE else f"gives {val!r}, expected True (whatever the stored value is)")
    run("'y' in d", {"X": V}, call("__contains__", Const("y")),
        lambda after, val, p: None if returned(p) and val == FALSE else f"gives {val!r}, expected False")
    # get
    run("get('x', default) on a stored key", {"X": V}, call("get", Const("x"), D),
        lambda after, val, p: None if returned(p) and same(val, V) and after == {"X": V} else
        f"returns {val!r} / record {after!r}, expected the stored value whatever it is (a stored 0 is a value, not an absent key)")
    run("get('y', default) on a missing key", {"X": V}, call("get", Const("y"), D),
        lambda after, val, p: None if returned(p) and same(val, D) and after == {"X": V} else f"returns {val!r} / record {after!r}, expected the default")
    # setdefault
    run("setdefault('x', w) on a stored key", {"X": V}, call("setdefault", Const("x"), W),
        lambda after, val, p: None if returned(p) and same(val, V) and after == {"X": V} else
        f"returns {val!r} and leaves {after!r}; expected the stored value to be returned and kept whatever it is (a stored 0 is a value, not an absent key)")
    run("setdefault('y', w) on a missing key", {"X": V}, call("setdefault", Const("y"), W),
        lambda after, val, p: None if returned(p) and same(val, W) and after == {"X": V, "Y": W} else f"returns {val!r} and leaves {after!r}; expected w stored under 'Y' and returned")
    # __delitem__
    run("del d['x']", {"X": V, "Y": W}, call("__delitem__", Const("x")),
        lambda after, val, p: None if returned(p) and after == {"Y": W} else f"leaves {after!r}, expected {{'Y': w}}")
    # update
    def upd_map(I_, r):
        src = I_.alloc(ADict(entries={"a": W}))
        return call("update", src)(I_, r)
    run("update({'a': w})", {"X": V}, upd_map,
        lambda after, val, p: None if returned(p) and after == {"X": V, "A": W} else f"leaves {after!r}, expected {{'X': v, 'A': w}}")
    run("update(b=w)", {"X": V}, call("update", b=W),
        lambda after, val, p: None if returned(p) and after == {"X": V, "B": W} else f"leaves {after!r}, expected {{'X': v, 'B': w}}")
    run("update({'x': w}) replaces the value stored under 'X'", {"X": V}, lambda I_, r: call("update", I_.alloc(ADict(entries={"x": W})))(I_, r),
        lambda after, val, p: None if returned(p) and after == {"X": W} else f"leaves {after!r}, expected {{'X': w}}")
    # constructor
    run("ParamsDict({'a': v}, b=w)", {}, lambda I_, r: call("__init__", I_.alloc(ADict(entries={"a": V})), b=W)(I_, r),
        lambda after, val, p: None if returned(p) and after == {"A": V, "B": W} else f"the new record is {after!r}, expected {{'A': v, 'B': w}}")
    return n
