"""C07 -- reported machine state mirrors the emitted program.

Decided part (static): for every state-tracked command, on every accepted
abstract path, the value stored in the state slot and the value written in
the delivered statement are the same enum member / the same value number;
the enum->instruction table is total where it is used and agrees with RS274.
Not decided: values after numeric formatting (C08), semantics of words the
oracle does not name.

R1  modal enums: final slot == requested member and exactly the oracle's code
    is delivered (spin, power, coolant, tool swap, distance, extrusion, feed
    mode, length units, plane; slot only for direction / time / temperature units);
R2  numeric words: final feed rate / tool power / tool number / target
    temperatures equal the value of the last delivered word of that quantity,
    and a slot changes only together with such a word (M05 resets the power);
R3  move parameters: the record formatted into a motion statement is merged
    into the remembered parameters;
R4  shared memory: state and builder remember the same parameters object and
    the same position after a motion command;
R5  the instruction table agrees with the RS274 oracle and has an entry for
    every member a command can look up;
R6  rejected calls are part of a history: on every path that ends in an
    exception the caller can catch, a modal-enum slot or numeric slot differs
    from its pre-call value only if a delivered statement carries the code /
    word that accounts for the final value (usually nothing was delivered, so
    nothing may have changed).
"""
from __future__ import annotations

from ..commands import CommandRun
from ..model import AnalysisError
from ..oracle import ENUM_CODE, quantity_of, STATE_SLOT, MOTION_OR_OFFSET
from ..traceutil import statements, words, same_value, chain, decisions_text, resolve, norm_code, out_of_scope_exception, out_of_scope_path
from ..values import *

MUST_EMIT = {"SpinMode", "PowerMode", "CoolantMode", "ToolSwapMode", "DistanceMode", "ExtrusionMode", "FeedMode", "LengthUnits", "Plane"}
CODES_ONLY = {"HaltMode", "ProbingMode", "QueryMode"}
SLOT_ONLY = {"Direction", "TimeUnits", "TemperatureUnits"}


def _state(W, heap):
    return heap[W.ref("state").addr]


def _enum_slots(W):
    """enum class name -> state field holding it (from the havocked world)."""
    out = {}
    st = W.I.static_heap[W.ref("state").addr]
    g = W.I.static_heap[W.ref("g").addr]
    alias = {}
    for k, v in g.fields.items():
        if isinstance(v, Choice):
            alias[v.name] = k
    for k, v in st.fields.items():
        if isinstance(v, Choice) and v.kind.startswith("enum:"):
            out.setdefault(v.kind[5:], []).append(k)
    return out


def analyse(W, name, f, ctx, desc, path):
    items = []
    entry = f"{name}({desc})"
    if path.outcome == "raise":
        if path.value.cls == "KeyError" and path.raise_site[0].startswith("GCodeTable"):
            items.append(("viol", "R5", f"{name}:no-table-entry", f"{entry}: the instruction table has no entry for the member looked up "
                          f"(KeyError in {path.raise_site[0]})", [f"via {chain(path.raise_stack)}", f"path decisions: {decisions_text(path)}"]))
            return items
        if out_of_scope_path(W.P, path):
            return items
        return items + rejected(W, name, entry, path)
    st_init = _state(W, W.I.static_heap)
    st_fin = _state(W, path.heap)
    sts = statements(path)
    all_codes = [c for s in sts for c in s.codes()]
    slots = _enum_slots(W)
    # ---------------------------------------------------------------- R1
    if name not in ("emergency_halt",):
        for pname, v in ctx.items():
            if not isinstance(v, Member):
                continue
            E = v.cls
            code = ENUM_CODE.get((E, v.name))
            if E in MUST_EMIT or E in SLOT_ONLY:
                fields = slots.get(E, [])
                if len(fields) == 1:
                    got = resolve(st_fin.fields.get(fields[0]), path.facts)
                    if got == v:
                        items.append(("ok", "R1", f"{entry}: state.{fields[0]} == {v!r}"))
                    else:
                        items.append(("viol", "R1", f"{name}:{E}:slot", f"{entry} is accepted but state.{fields[0]} reports {got!r}",
                                      [f"path decisions: {decisions_text(path)}"]))
                elif E in MUST_EMIT:
                    items.append(("undecided", "R1", f"{entry}: no unique state slot of type {E}"))
            if (E in MUST_EMIT or E in CODES_ONLY) and code is not None:
                if all_codes == [code]:
                    items.append(("ok", "R1", f"{entry}: delivers exactly {code}"))
                else:
                    items.append(("viol", "R1", f"{name}:{E}.{v.name}:code", f"{entry} is accepted and delivers {all_codes or 'nothing'}; a modal interpreter needs exactly [{code}]",
                                  [f"path decisions: {decisions_text(path)}"]))
    # ---------------------------------------------------------------- R2
    last_word = {}
    for s in sts:
        codes = s.codes()
        ws = words(s, path.facts, letters=("F", "S", "R", "T"))
        per_q = {}
        for letter, value, status, how in ws:
            q = quantity_of(codes, letter)
            if q is None or status != "present":
                continue
            per_q.setdefault(q, {})[letter] = value
        for q, d in per_q.items():
            # Marlin: when both are given S takes precedence over R
            last_word[q] = d.get("S", d.get("R", d.get("F", d.get("T"))))
        if "M5" in codes:
            last_word["tool-power"] = Const(0)
    for q, slot in STATE_SLOT.items():
        fin = resolve(st_fin.fields.get(slot), path.facts)
        ini = resolve(st_init.fields.get(slot), path.facts)
        if q in last_word:
            if same_value(fin, last_word[q]):
                items.append(("ok", "R2", f"{entry}: state.{slot} == delivered {q} word"))
            else:
                items.append(("viol", "R2", f"{name}:{slot}:differs-from-word",
                              f"{entry}: the delivered {q} word is {last_word[q]!r} but state.{slot} reports {fin!r}",
                              [f"statements: {[s.describe()[:60] for s in sts]}", f"path decisions: {decisions_text(path)}"]))
        elif not same_value(fin, ini):
            items.append(("viol", "R2", f"{name}:{slot}:changed-without-word",
                          f"{entry}: state.{slot} changes to {fin!r} although no {q} word is delivered",
                          [f"statements: {[s.describe()[:60] for s in sts]}", f"path decisions: {decisions_text(path)}"]))
    # ---------------------------------------------------------------- R3 / R4 / R7
    motion = [s for s in sts if any(c in MOTION_OR_OFFSET for c in s.codes())]
    if not motion and name != "write":
        # R7: the remembered move parameters are "the last value of every move parameter": a command that delivers no
        # motion / offset statement carries no such word, so it must leave the record alone
        muts = [e for e in path.trace if e.kind == "MUT" and e.data.get("label") in ("g._current_params", "state._current_params")]
        if muts:
            items.append(("viol", "R7", f"{name}:params-changed-without-motion",
                          f"{entry}: the remembered move parameters are modified ({muts[0].data.get('method')}{tuple(str(a)[:30] for a in muts[0].data.get('args', ()))}) "
                          f"although no motion or offset statement is delivered ({all_codes or 'nothing'}): the state no longer reports the last value the program carries",
                          [f"at {muts[0].where()}", f"path decisions: {decisions_text(path)}"]))
        else:
            items.append(("ok", "R7", f"{entry}: remembered parameters untouched"))
    if motion and name != "write":
        g_fin = path.heap[W.ref("g").addr]
        gp = g_fin.fields.get("_current_params")
        rec = path.heap.get(gp.addr) if isinstance(gp, Ref) else None
        s = motion[-1]
        for pf in s.params():
            if rec is None or not isinstance(rec, ADict):
                items.append(("undecided", "R3", f"{entry}: remembered parameters are not a record"))
                continue
            missing = []
            for k, v in pf.entries:
                if k in ("X", "Y", "Z") or not isinstance(k, str):
                    continue
                if k not in rec.entries or not same_value(rec.entries[k], v):
                    missing.append(k)
            for b in pf.bases:
                if b not in rec.bases:
                    missing.append(f"<rest of {b}>")
            if missing:
                items.append(("viol", "R3", f"{name}:params-not-remembered", f"{entry}: words {missing} of the delivered statement are not merged into the remembered parameters",
                              [f"statement: {s.describe()[:80]}", f"path decisions: {decisions_text(path)}"]))
            else:
                items.append(("ok", "R3", f"{entry}: formatted record remembered"))
        sp = st_fin.fields.get("_current_params")
        if isinstance(sp, Ref) and isinstance(gp, Ref) and sp.addr == gp.addr:
            items.append(("ok", "R4", f"{entry}: state and builder share the parameters object"))
        else:
            items.append(("viol", "R4", f"{name}:params-not-shared", f"{entry}: after the command the state's remembered parameters are not the builder's object", []))
        ga = resolve(g_fin.fields.get("_current_axes"), path.facts)
        sa = resolve(st_fin.fields.get("_current_axes"), path.facts)
        if isinstance(ga, NT) and isinstance(sa, NT) and all(same_value(x, y) for x, y in zip(ga.items, sa.items)):
            items.append(("ok", "R4", f"{entry}: state position == builder position"))
        else:
            items.append(("viol", "R4", f"{name}:position-differs", f"{entry}: builder position {ga!r} but state position {sa!r}", []))
    return items


def _last_words(sts, facts):
    last_word = {}
    for s in sts:
        codes = s.codes()
        per_q = {}
        for letter, value, status, how in words(s, facts, letters=("F", "S", "R", "T")):
            q = quantity_of(codes, letter)
            if q is None or status != "present":
                continue
            per_q.setdefault(q, {})[letter] = value
        for q, d in per_q.items():
            last_word[q] = d.get("S", d.get("R", d.get("F", d.get("T"))))
        if "M5" in codes:
            last_word["tool-power"] = Const(0)
    return last_word


def rejected(W, name, entry, path):
    """R6: what a rejected call may leave behind in the mirrored slots."""
    items = []
    st_init = _state(W, W.I.static_heap)
    st_fin = _state(W, path.heap)
    sts = statements(path)
    all_codes = [c for s in sts for c in s.codes()]
    how = f"rejected with {path.value.cls} in {path.raise_site[0]}"
    detail = [f"delivered before the rejection: {all_codes or 'nothing'}", f"via {chain(path.raise_stack)}", f"path decisions: {decisions_text(path)}"]
    for E, fields in _enum_slots(W).items():
        if E not in MUST_EMIT or len(fields) != 1:
            continue
        slot = fields[0]
        fin = resolve(st_fin.fields.get(slot), path.facts)
        ini = resolve(st_init.fields.get(slot), path.facts)
        e_codes = {c for (cls, _m), c in ENUM_CODE.items() if cls == E and c is not None}
        mine = [c for c in all_codes if c in e_codes]
        if mine:
            ok = isinstance(fin, Member) and ENUM_CODE.get((E, fin.name)) == mine[-1]
        else:
            ok = same_value(fin, ini)
        if ok:
            items.append(("ok", "R6", f"{entry} ({how}): state.{slot} follows the delivered codes"))
        else:
            items.append(("viol", "R6", f"{name}:{slot}:rejected:{path.value.cls}",
                          f"{entry} is {how}; the program delivered so far leaves the {E} at "
                          f"{mine[-1] if mine else 'its previous value'} but state.{slot} reports {fin!r} (before the call: {ini!r})", detail))
    last_word = _last_words(sts, path.facts)
    for q, slot in STATE_SLOT.items():
        fin = resolve(st_fin.fields.get(slot), path.facts)
        ini = resolve(st_init.fields.get(slot), path.facts)
        ok = same_value(fin, last_word[q]) if q in last_word else same_value(fin, ini)
        if ok:
            items.append(("ok", "R6", f"{entry} ({how}): state.{slot} follows the delivered words"))
        else:
            items.append(("viol", "R6", f"{name}:{slot}:rejected:{path.value.cls}",
                          f"{entry} is {how}; the last delivered {q} word is {last_word.get(q, 'absent')!r} but state.{slot} changed from {ini!r} to {fin!r}", detail))
    return items


def table_agreement(check, W):
    I = W.I
    n = 0
    for a, o in I.static_heap.items():
        if isinstance(o, AObj) and o.cls.name == "GCodeTable":
            ent = o.fields.get("_entries")
            d = I.static_heap.get(ent.addr) if isinstance(ent, Ref) else None
            if not isinstance(d, ADict):
                continue
            for k, r in d.entries.items():
                e = I.static_heap.get(r.addr) if isinstance(r, Ref) else None
                if not (isinstance(k, Tup) and len(k.items) == 2 and isinstance(k.items[1], Member) and isinstance(e, AObj)):
                    continue
                m = k.items[1]
                if not (isinstance(k.items[0], ClassV) and k.items[0].ci.name == m.cls):
                    check.violation("R5", f"table-key:{m.cls}.{m.name}", f"table entry for {m!r} is keyed by class {k.items[0]!r}", [])
                instr = e.fields.get("_instruction")
                n += 1
                want = ENUM_CODE.get((m.cls, m.name))
                if want is None:
                    check.undecided("R5", f"{m!r}: oracle does not name a code")
                elif isinstance(instr, Const) and norm_code(str(instr.v)) == want:
                    check.ok("R5", f"{m!r} -> {instr.v}")
                else:
                    check.violation("R5", f"table:{m.cls}.{m.name}", f"the table maps {m!r} to {instr!r}; RS274/Marlin: {want}", ["gscrib/codes/gcode_mappings.py"])
    check.floor(not (n < 50), f"C07.R5: only {n} table entries found by interpreting gcode_mappings (floor 50)")
    return n


def run(check, repo, tier):
    check.rule("R1", "modal enum commands: final state slot == requested member and exactly the oracle code is delivered")
    check.rule("R2", "numeric slots equal the value of the last delivered word of their quantity and change only with such a word")
    check.rule("R3", "the parameter record formatted into a motion statement is merged into the remembered parameters")
    check.rule("R4", "state and builder share the remembered-parameters object and report the same position after motion commands")
    check.rule("R5", "instruction table: RS274 agreement for every entry, totality for every member a command looks up")
    check.rule("R6", "a rejected call changes a mirrored slot only together with a delivered code / word that accounts for the new value")
    check.rule("R7", "commands that deliver no motion / offset statement leave the remembered move parameters alone")
    cr = CommandRun(repo, tier=tier, exclude=("write",), cm_body=("pass",), with_invalid=False)
    results = cr.run(analyse)
    check.floor(not (cr.stats["commands"] < 40), f"C07: only {cr.stats['commands']} public commands analysed (floor 40)")
    counts = {}
    for r in results:
        for it in r["items"]:
            if it[0] == "ok":
                check.ok(it[1], it[2])
                counts[it[1]] = counts.get(it[1], 0) + 1
            elif it[0] == "undecided":
                check.undecided(it[1], it[2])
            elif it[0] == "viol":
                check.violation(it[1], it[2], it[3], it[4])
                counts[it[1]] = counts.get(it[1], 0) + 1
        if len(check.samples) < 8 and r["items"]:
            check.sample({"command": r["command"], "context": r["ctx"], "abstract_paths": r["paths"], "obligations": len(r["items"])})
    for rid, floor in (("R1", 40), ("R2", 100), ("R3", 50), ("R4", 100), ("R6", 500)):
        check.floor(not (counts.get(rid, 0) < floor), f"C07.{rid}: only {counts.get(rid, 0)} obligations decided (floor {floor})")
    n = table_agreement(check, cr.world)
    check.rule("R8", "ParamsDict (the remembered-parameters record) behaves as the case-insensitive dict the analysis uses in its place: every method "
                     "executed from source on symbolic stored values (a stored 0 is a value, not an absent key)")
    from . import paramsdict
    n8 = paramsdict.contract(check, cr.program, "R8")
    check.analysed = dict(cr.stats, table_entries=n, paramsdict_paths=n8)
    check.coverage["exhaustive"] = tier == "thorough"
    check.explanation = (
        "Value-numbered pairing of state stores and delivered words on the abstract paths of every public command: enum slots "
        "and codes per member (exhaustive over members), numeric slots against the last delivered word of the same quantity, "
        "remembered parameters against the formatted record; the instruction table is interpreted from gcode_mappings.py and "
        "compared with an independent RS274/Marlin table.")
    check.assume("halt mode is excluded from the mirror: every write resets it by design and the property does not list it")
    check.assume("when both S and R are given on a wait command S takes precedence (Marlin M109/M190 semantics)")
    check.assume("X/Y/Z entries of the remembered parameters hold the requested coordinates (untransformed); only non-axis words are compared")
