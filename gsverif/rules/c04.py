"""C04 -- coordinate transforms are applied faithfully to every move.

Decided part (static), with the active transform an *uninterpreted* map X
(named after the value number of the matrix it multiplies with):

R1  per word: every X/Y/Z word of a G0/G1/G38.x statement delivered by a
    transform-aware command equals X(requested target) in absolute mode and
    X(requested target) - X(origin) in relative mode, where the requested
    target is computed by the RS274 oracle from the call's arguments; an axis
    is left out only when the path established that its image does not change;
    end to end: from machine == X(tracked), executing the delivered statements
    leaves machine == X(new tracked position), and the new tracked position is
    the requested target; only move_absolute/rapid_absolute bypass X;
R4  the transformer composes a new matrix as to_pivot @ M @ from_pivot @ current,
    the pivot translations are built from -p and +p, apply() multiplies the
    matrix and reverse() the inverse with a homogeneous vector (x, y, z, 1);
R5  matrix and inverse are stored together, the inverse being inv() of the
    very matrix stored.
R6  the matrix each of translate / scale / rotate / reflect / mirror hands to
    chain_transform is the textbook one for its arguments (oracle: translation
    column (x, y, z); diag(s, s, s, 1), diag(sx, sy, 1, 1), diag(sx, sy, sz, 1);
    rotation by radians(angle) about the unit vector of the named axis;
    Householder I - 2 n n^T with n = normal / |normal|; mirror planes xy, yz,
    zx have normals z, x, y).
Not decided: floating-point accuracy of numpy/scipy; the exact float equality
``combine`` uses for "image changed".
"""
from __future__ import annotations

import ast

from ..commands import CommandRun
from ..driver import World
from ..interp import Frame
from ..machine import Machine, UNKNOWN
from ..model import Program, AnalysisError
from ..poly import Poly, app
from ..traceutil import statements, is_writer_delivery, Statement, words, resolve, same_value, chain, decisions_text, calls
from ..values import *

AXES = ("x", "y", "z")
AWARE = ("move", "rapid", "probe")
BYPASS = ("move_absolute", "rapid_absolute")


def X(W, a, pt):
    ver = W.I.tag(W.I.static_heap[W.ref("xform").addr].fields["_matrix"])
    return app(f"X.{a}@{ver}", *pt)


def eq_mod_facts(facts, p: Poly, q: Poly) -> bool:
    d = p - q
    if d.is_zero():
        return True
    lead = d.terms[min(d.terms)]
    k = (-d if lead < 0 else d).key()
    return facts.get("cmp:Eq:" + k) is True or facts.get("sign:" + k) == 0


def requested(ctx, facts):
    p = ctx.get("point")
    out = []
    if isinstance(p, NT):
        for c in p.items:
            v = resolve(c, facts)
            out.append(v.p if isinstance(v, Num) else (None if isinstance(v, Const) and v.v is None else "?"))
        return out
    for a in "XYZ":
        f = facts.get(f"has:kw[{a}]")
        out.append(Poly.sym(f"kw[{a}]") if f is True else (None if f is False else "?"))
    return out


def analyse(W, name, f, ctx, desc, path):
    items = []
    entry = f"{name}({desc})"
    facts = path.facts
    if name not in AWARE and name not in BYPASS:
        # no other command may deliver a linear/probe move
        for s in statements(path):
            if any(c in ("G0", "G1", "G38.2", "G38.3", "G38.4", "G38.5") for c in s.codes()) and name != "write":
                items.append(("viol", "R1", f"{name}:unexpected-move", f"{entry} delivers {s.codes()}: a move outside the transform-aware commands", []))
        return items
    O = [Poly.sym(f"g._current_axes.{a}") for a in AXES]      # position known (pinned)
    mode = facts.get("enum:g._distance_mode")
    D = requested(ctx, facts)
    if any(x == "?" for x in D):
        return [("undecided", "R1", f"{entry}: request not reconstructible")]
    zero = Poly.const(0)
    if name in BYPASS:
        T = [d if d is not None else o for o, d in zip(O, D)]
    elif mode == "RELATIVE":
        T = [o + (d if d is not None else zero) for o, d in zip(O, D)]
    elif mode == "ABSOLUTE":
        T = [d if d is not None else o for o, d in zip(O, D)]
    else:
        return [("undecided", "R1", f"{entry}: distance mode never consulted")]
    XO = {a: X(W, a, O) for a in AXES}
    XT = {a: X(W, a, T) for a in AXES}
    sts = statements(path)
    where = [f"statements: {[s.describe()[:70] for s in sts]}", f"path decisions: {decisions_text(path, 14)}"]
    moves = [s for s in sts if any(c in ("G0", "G1", "G38.2", "G38.3", "G38.4", "G38.5") for c in s.codes())]
    if path.outcome != "return":
        return items
    if len(moves) != 1:
        items.append(("viol", "R1", f"{name}:move-count", f"{entry} is accepted and delivers {len(moves)} move statements", where))
        return items
    s = moves[0]
    ws = {l.lower(): v for l, v, st, how in words(s, facts, letters=("X", "Y", "Z")) if l in "XYZ" and st == "present"}
    # ---- per word
    for i, a in enumerate(AXES):
        if name in BYPASS:
            want = D[i]       # documented bypass: the untransformed request, absolute
            if a in ws:
                if want is not None and isinstance(ws[a], Num) and ws[a].p == want:
                    items.append(("ok", "R1", f"{entry}: {a.upper()} word is the untransformed request (bypass)"))
                else:
                    items.append(("viol", "R1", f"{name}:{a}:bypass-word", f"{entry}: the {a.upper()} word is {ws[a]!r}, the absolute bypass must emit the request {want}", where))
            elif want is not None:
                items.append(("viol", "R1", f"{name}:{a}:bypass-missing", f"{entry}: requested axis {a.upper()} is not mentioned", where))
            continue
        want = XT[a] - XO[a] if mode == "RELATIVE" else XT[a]
        if a in ws:
            if isinstance(ws[a], Num) and ws[a].p == want:
                items.append(("ok", "R1", f"{entry}[{mode}]: {a.upper()} word = {'X(T)-X(O)' if mode == 'RELATIVE' else 'X(T)'}"))
            else:
                got = ws[a].p.key() if isinstance(ws[a], Num) else repr(ws[a])
                items.append(("viol", "R1", f"{name}:{a}:{mode}:word", f"{entry}: in {mode} mode the {a.upper()} word is {got}, expected {want.key()}", where))
        else:
            if D[i] is not None:
                items.append(("viol", "R1", f"{name}:{a}:requested-axis-missing", f"{entry}: the requested axis {a.upper()} is not mentioned in the delivered move", where))
            elif eq_mod_facts(facts, XT[a], XO[a]):
                items.append(("ok", "R1", f"{entry}: {a.upper()} omitted, image unchanged on this path"))
            else:
                items.append(("viol", "R1", f"{name}:{a}:changed-axis-missing",
                              f"{entry}: axis {a.upper()} is not mentioned although the path does not establish that its image X.{a}(T) equals X.{a}(O)", where))
    # ---- end to end: machine == X(tracked) is preserved, tracked == requested target
    g = path.heap[W.ref("g").addr]
    tr = resolve(g.fields["_current_axes"], facts)
    if name in AWARE and name != "probe":
        m = Machine({a: XO[a] for a in AXES}, mode)
        m.execute(s, facts)
        for i, a in enumerate(AXES):
            tv = tr.items[i] if isinstance(tr, NT) else None
            if not (isinstance(tv, Num) and tv.p == T[i]):
                items.append(("viol", "R1", f"{name}:{a}:tracked-target", f"{entry}: the tracked {a.upper()} becomes {tv!r}, the requested target is {T[i].key()}", where))
                continue
            if m.pos[a] is not UNKNOWN and eq_mod_facts(facts, m.pos[a], XT[a]):
                items.append(("ok", "R1", f"{entry}[{mode}]: machine {a.upper()} == X(tracked)"))
            else:
                items.append(("viol", "R1", f"{name}:{a}:{mode}:end-to-end",
                              f"{entry}: from machine == X(tracked) the delivered move leaves machine {a.upper()} = "
                              f"{m.pos[a].key() if m.pos[a] is not UNKNOWN else 'unknown'}, but X(new tracked position) is {XT[a].key()}", where))
    return items


# ---------------------------------------------------------------------- transformer algebra
def representation_owner(check, P, owner="Transform"):
    """Who-may-write rule: the matrix, its inverse and the pivot translations are kept coherent by the owner's
    own methods (the rules below check those), so no code outside the class may assign them or write into them
    in place (`x._matrix[:3, 3] += ...`, `x._inverse = ...`): the stored inverse would no longer be the inverse
    of the stored matrix, and reverse() would no longer undo apply()."""
    ci = P.cls(owner)
    fields = set()
    for fn in ci.methods.values():
        for n_ in ast.walk(fn.node):
            targets = n_.targets if isinstance(n_, ast.Assign) else ([n_.target] if isinstance(n_, (ast.AnnAssign, ast.AugAssign)) else [])
            for t in targets:
                for tt in (t.elts if isinstance(t, ast.Tuple) else [t]):
                    if isinstance(tt, ast.Attribute) and isinstance(tt.value, ast.Name) and tt.value.id == "self" and tt.attr.startswith("_"):
                        fields.add(tt.attr)
    n = 0

    def stores(node):
        """(attribute node, how) for every store into an attribute or into an item / slice of an attribute"""
        targets = []
        if isinstance(node, ast.Assign):
            targets = list(node.targets)
        elif isinstance(node, (ast.AnnAssign, ast.AugAssign)):
            targets = [node.target]
        elif isinstance(node, ast.Delete):
            targets = list(node.targets)
        elif isinstance(node, (ast.For, ast.AsyncFor)):
            targets = [node.target]
        out = []
        work = list(targets)
        while work:
            t = work.pop()
            if isinstance(t, (ast.Tuple, ast.List)):
                work.extend(t.elts)
            elif isinstance(t, ast.Starred):
                work.append(t.value)
            elif isinstance(t, ast.Attribute):
                out.append((t, "assigned"))
            elif isinstance(t, ast.Subscript):
                v = t.value
                while isinstance(v, ast.Subscript):
                    v = v.value
                if isinstance(v, ast.Attribute):
                    out.append((v, "written in place"))
        return out

    def visit(node, cls, func, mod):
        nonlocal n
        for child in ast.iter_child_nodes(node):
            if isinstance(child, ast.ClassDef):
                visit(child, child.name, func, mod)
                continue
            if isinstance(child, (ast.FunctionDef, ast.AsyncFunctionDef)):
                visit(child, cls, child.name, mod)
                continue
            for attr, how in stores(child):
                if attr.attr not in fields:
                    continue
                own_self = isinstance(attr.value, ast.Name) and attr.value.id == "self"
                if cls == owner:
                    n += 1
                    continue
                if own_self:
                    continue            # another class's own field of the same name
                n += 1
                check.violation("R5", f"owner:{attr.attr}:{cls or mod.name}.{func}",
                                f"{mod.path.name}:{child.lineno} {cls + '.' if cls else ''}{func}: {ast.unparse(attr)} is {how} outside {owner}; "
                                f"only {owner}'s own methods keep the matrix, its inverse and the pivot translations coherent", [])
            visit(child, cls, func, mod)

    for mod in P.modules.values():
        visit(mod.tree, None, "<module>", mod)
    if fields:
        check.ok("R5", f"{owner}'s fields {sorted(fields)} are written only by its own methods ({n} store sites)")
    check.floor(bool(fields) and n >= 2, f"C04.R5: {owner} has {len(fields)} private fields and {n} store sites")
    return n


def transformer_rules(check, P):
    W = World(P, "CoordinateTransformer", root_label="xf")
    I = W.I
    n = representation_owner(check, P)
    x0 = I.static_heap[W.ref("xform").addr]
    missing = [k for k in ("_matrix", "_inverse", "_from_pivot", "_to_pivot") if k not in x0.fields]
    if missing:
        # the rules below read the stored matrix, its stored inverse and the two pivot translations off these fields
        check.undecided("R4", f"Transform keeps no field {', '.join(missing)} after construction: how it represents "
                              "its matrix / inverse / pivot translations is not a form the analysis recognises")
        check.floor(False, f"C04.R4: Transform has no field {', '.join(missing)}")
        return 0
    init = {k: x0.fields[k] for k in ("_matrix", "_inverse", "_from_pivot", "_to_pivot")}
    # --- chain_transform(M)
    M = Unk("arg.M", "array")
    f = P.func("CoordinateTransformer.chain_transform")
    accepted = 0
    for path in I.explore(lambda I: None, lambda I, c: W.call_entry(I, f, {"transform_matrix": M}), max_dev=None):
        n += 1
        if path.outcome != "return":
            continue
        accepted += 1
        xo = path.heap[W.ref("xform").addr]
        got = xo.fields.get("_matrix")
        want = (init["_to_pivot"], M, init["_from_pivot"], init["_matrix"])
        factors = got.factors if isinstance(got, MatProd) else (got,)
        d = [f"stored matrix: {I.tag(got)}", decisions_text(path)]
        if tuple(factors) == want:
            check.ok("R4", "chain: to_pivot @ M @ from_pivot @ current")
        else:
            check.violation("R4", "chain:product", f"_chain_matrix stores {' @ '.join(I.tag(x) for x in factors)}; expected to_pivot @ M @ from_pivot @ current", d)
        inv = xo.fields.get("_inverse")
        saved_heap = I.heap
        I.heap = path.heap
        want_inv = f"inv({I.tag(got)})"
        I.heap = saved_heap
        if isinstance(inv, Unk) and inv.tag == want_inv:
            check.ok("R5", "inverse = inv(stored matrix)")
        else:
            check.violation("R5", "chain:inverse", f"after chaining, _inverse is {inv!r}, expected {want_inv}", d)
    check.floor(not (accepted < 1), "C04.R4: chain_transform has no accepted abstract path")
    # --- set_pivot(p)
    p = NT("Point", AXES, tuple(Num(Poly.sym(f"arg.p.{a}")) for a in AXES))
    f = P.func("CoordinateTransformer.set_pivot")
    accepted = 0
    for path in I.explore(lambda I: None, lambda I, c: W.call_entry(I, f, {"point": p}), max_dev=None):
        n += 1
        if path.outcome != "return":
            continue
        accepted += 1
        xo = path.heap[W.ref("xform").addr]
        for field, sign in (("_from_pivot", -1), ("_to_pivot", 1)):
            r = xo.fields.get(field)
            o = path.heap.get(r.addr) if isinstance(r, Ref) else None
            ok = False
            if isinstance(o, AMat) and o.base.startswith("eye4") and len(o.sets) == 1 and o.sets[0][0].replace(" ", "").strip("()") in (":-1,-1", ":3,-1", ":3,3", ":-1,3", "0:3,3", "0:3,-1"):
                vals = path.heap.get(o.sets[0][1].addr).items if isinstance(o.sets[0][1], Ref) and isinstance(path.heap.get(o.sets[0][1].addr), AList) else None
                if vals and len(vals) == 3 and all(isinstance(v, Num) and v.p == (Poly.sym(f"arg.p.{a}") * Poly.const(sign)) for v, a in zip(vals, AXES)):
                    ok = True
            if ok:
                check.ok("R4", f"{field} = translation({'+' if sign > 0 else '-'}p)")
            else:
                saved_heap = I.heap
                I.heap = path.heap
                t = I.tag(r)
                I.heap = saved_heap
                check.violation("R4", f"pivot:{field}", f"_set_pivot stores {field} = {t}; expected a 4x4 identity whose last column is {'+' if sign > 0 else '-'}p", [decisions_text(path)])
    check.floor(not (accepted < 1), "C04.R4: set_pivot has no accepted abstract path")
    # --- apply / reverse bodies
    for meth, field in (("apply", "_matrix"), ("reverse", "_inverse")):
        I.intrinsics.pop(f"Transform.{meth}", None)
    I.event_funcs = {"Point.from_vector"}
    WT = W
    for meth, field in (("apply_transform", "_matrix"), ("reverse_transform", "_inverse")):
        f = P.func(f"CoordinateTransformer.{meth}")
        q = NT("Point", AXES, tuple(Opt(f"arg.q.{a}") for a in AXES))
        seen = 0
        for path in I.explore(lambda I: None, lambda I, c: W.call_entry(I, f, {"point": q}), max_dev=None):
            n += 1
            if path.outcome != "return":
                check.violation("R4", f"{meth}:raises", f"{meth} raises {path.value.cls}", [decisions_text(path)])
                continue
            cs = calls(path, "Point.from_vector")
            if not cs:
                check.violation("R4", f"{meth}:no-from_vector", f"{meth} does not build its result with Point.from_vector", [decisions_text(path)])
                continue
            vec = cs[-1].data["args"][-1]
            seen += 1
            want_vec = []
            for a in AXES:
                k = path.facts.get(f"opt:arg.q.{a}")
                want_vec.append(Poly.const(0) if k == "none" else Poly.sym(f"arg.q.{a}"))
            good = isinstance(vec, MatProd) and len(vec.factors) == 2 and vec.factors[0] == init[field] and isinstance(vec.factors[1], ArrV) \
                and len(vec.factors[1].items) == 4
            if good:
                comps = vec.factors[1].items
                for v, w in zip(comps[:3], want_vec):
                    nv = I.as_num(v) if not isinstance(v, Opt) else None
                    if nv is None or nv.p != w:
                        good = False
                h = comps[3]
                if not (isinstance(h, Const) and h.v == 1.0):
                    good = False
            if good:
                check.ok("R4", f"{meth}: {field} @ (x, y, z, 1)")
            else:
                saved_heap = I.heap
                I.heap = path.heap
                t = I.tag(vec)
                I.heap = saved_heap
                check.violation("R4", f"{meth}:product", f"{meth} computes {t}; expected {field[1:]} @ (x, y, z, 1) with unknown coordinates as 0", [decisions_text(path)])
        check.floor(seen >= 1, f"C04.R4: {meth} analysed on no path")
    return n


def point_vector_rule(check, P, rid="R4"):
    """Point.from_vector returns exactly the first three components: a transformed point is not altered on its way
    to the formatter (the Transform.apply contract the command-wide checks use assumes this)."""
    from ..interp import Interp
    I = Interp(P)
    f = P.func("Point.from_vector")
    ci = P.cls("Point")
    vs = [Poly.sym(f"v{i}") for i in range(4)]
    n = good = 0

    def entry(I_, _):
        I_.frames = [Frame(None, f.module, {}, qualname="<entry>")]
        try:
            return I_.call_function(f, [ClassV(ci), ArrV(tuple(Num(v) for v in vs))], {}, f.node)
        finally:
            I_.frames = []
    for path in I.explore(lambda I_: None, entry, max_dev=None, max_paths=50):
        n += 1
        r = path.value if path.outcome == "return" else None
        items = list(r.items) if isinstance(r, NT) and r.cls == "Point" else None
        if items is not None and len(items) == 3 and all(isinstance(x, Num) and x.p == v for x, v in zip(items, vs)):
            good += 1
            check.ok(rid, "Point.from_vector(v) == Point(v[0], v[1], v[2]) exactly")
        elif path.outcome != "return":
            check.violation(rid, "from_vector:raises", f"Point.from_vector raises {path.value.cls} on a four-component vector", [decisions_text(path)])
        else:
            check.violation(rid, "from_vector:not-exact", f"Point.from_vector(v) returns {I.tag(r)[:160]}; expected exactly Point(v[0], v[1], v[2]): "
                            "the components are altered (rounded, reordered, dropped) before they reach the formatter", [decisions_text(path)])
    check.floor(n >= 1, "C04: Point.from_vector has no abstract path")
    return n


def _norm(t):
    import re
    return re.sub(r"#\d+", "", t)


AX_INDEX = {"X": 0, "Y": 1, "Z": 2}
PLANE_NORMAL = {"XY": (0, 0, 1), "YZ": (1, 0, 0), "ZX": (0, 1, 0)}      # oracle: the axis the plane does not contain
SLICE_33 = ("(:3, :3)", "(0:3, 0:3)", "(:-1, :-1)")
SLICE_COL = ("(:-1, -1)", "(:3, -1)", "(:3, 3)", "(:-1, 3)", "(0:3, 3)", "(0:3, -1)")


def constructor_rules(check, P):
    """R6: what translate/scale/rotate/reflect/mirror hand to chain_transform."""
    W = World(P, "CoordinateTransformer", root_label="xf")
    I = W.I
    I.event_funcs = {"CoordinateTransformer.chain_transform"}
    s = [Poly.sym(f"arg.s{i}") for i in range(4)]
    ONE = "1"
    n = 0

    def val_key(v):
        if isinstance(v, Num):
            return ("c", float(v.p.const_value())) if v.p.is_const() else ("p", v.p.key())
        if isinstance(v, Const) and isinstance(v.v, (int, float)) and not isinstance(v.v, bool):
            return ("c", float(v.v))
        return ("?", repr(v))

    def want_key(w):
        return ("c", float(w)) if isinstance(w, (int, float)) else ("p", w.key())

    def accepted(name, mkargs):
        nonlocal n
        out = []
        for path in I.explore(lambda I_: None, lambda I_, c: W.call_method(I_, "xf", name, mkargs(I_), {}), max_dev=None, max_paths=400):
            n += 1
            if path.outcome == "return":
                out.append(path)
        return out

    def chain_arg(path):
        cs = calls(path, "CoordinateTransformer.chain_transform")
        return cs[-1].data["args"][-1] if len(cs) == 1 else None

    def exts(path, suffix):
        return [e for e in path.trace if e.kind == "EXT" and isinstance(e.data.get("callee"), ExtV) and e.data["callee"].name.endswith(suffix)]

    def tagged(path, v):
        saved = I.heap
        I.heap = path.heap
        try:
            return _norm(I.tag(v))
        finally:
            I.heap = saved

    def items_of(path, v):
        if isinstance(v, Tup):
            return list(v.items)
        if isinstance(v, Ref) and isinstance(path.heap.get(v.addr), AList):
            return list(path.heap[v.addr].items)
        if isinstance(v, ArrV):
            return list(v.items)
        return None

    def amat_block(path, v, slices):
        o = path.heap.get(v.addr) if isinstance(v, Ref) else None
        if isinstance(o, AMat) and o.base.startswith("eye4") and len(o.sets) == 1 and o.sets[0][0] in slices:
            return o.sets[0][1]
        return None

    # translate
    for k in (3, 2):
        ps = accepted("translate", lambda I_: tuple(Num(x) for x in s[:k]))
        check.floor(bool(ps), f"C04.R6: translate/{k} has no accepted path")
        for path in ps:
            col = amat_block(path, chain_arg(path), SLICE_COL)
            got = items_of(path, col) if col is not None else None
            want = [s[0], s[1], s[2] if k == 3 else 0.0]
            if got is None:
                check.undecided("R6", f"translate/{k}: matrix construction not recognised: {tagged(path, chain_arg(path))}")
                check.floor(False, "C04.R6: translate builds its matrix in a form the analysis does not recognise")
            elif [val_key(g) for g in got] == [want_key(w) for w in want]:
                check.ok("R6", f"translate/{k}: identity with last column ({', '.join('xyz'[:k])}{', 0' if k == 2 else ''})")
            else:
                check.violation("R6", f"translate/{k}:column", f"translate with {k} arguments chains {tagged(path, chain_arg(path))}; expected the identity with last column (x, y, {'z' if k == 3 else '0'})", [decisions_text(path)])
    # scale
    for k in (1, 2, 3):
        ps = accepted("scale", lambda I_: tuple(Num(x) for x in s[:k]))
        check.floor(bool(ps), f"C04.R6: scale/{k} has no accepted path")
        want = {1: [s[0], s[0], s[0], 1.0], 2: [s[0], s[1], 1.0, 1.0], 3: [s[0], s[1], s[2], 1.0]}[k]
        for path in ps:
            d = exts(path, "numpy.diag")
            arg = chain_arg(path)
            got = items_of(path, d[-1].data["args"][0]) if len(d) == 1 and d[-1].data["args"] else None
            touched = [e for e in path.trace if e.kind == "MUT" and e.data.get("obj") == arg]
            if touched:
                check.violation("R6", f"scale/{k}:modified", f"scale with {k} factor(s) modifies the diagonal matrix before chaining it "
                                f"({touched[0].data.get('method')}{tuple(tagged(path, a) for a in touched[0].data.get('args', ()))}); expected plain diag({', '.join(str(w) for w in want)})", [decisions_text(path)])
            elif got is None or arg != d[-1].data.get("result"):
                check.undecided("R6", f"scale/{k}: matrix construction not recognised: {tagged(path, arg)}")
                check.floor(False, "C04.R6: scale builds its matrix in a form the analysis does not recognise")
            elif [val_key(g) for g in got] == [want_key(w) for w in want]:
                check.ok("R6", f"scale/{k}: diag{tuple(str(w) for w in want)}")
            else:
                check.violation("R6", f"scale/{k}:diagonal", f"scale with {k} factor(s) chains diag({', '.join(tagged(path, g) for g in got)}); expected diag({', '.join(str(w) for w in want)})", [decisions_text(path)])
    for k in (0, 4):
        nonret = True
        for path in I.explore(lambda I_: None, lambda I_, c: W.call_method(I_, "xf", "scale", tuple(Num(x) for x in s[:k]), {}), max_dev=None, max_paths=50):
            n += 1
            if path.outcome == "return":
                nonret = False
        if nonret:
            check.ok("R6", f"scale/{k}: rejected")
        else:
            check.violation("R6", f"scale/{k}:accepted", f"scale with {k} factors is accepted; only 1 to 3 factors name a scaling of the three axes", [])
    # rotate
    ang = Num(Poly.sym("arg.angle"))
    for ax in ("X", "Y", "Z", None):
        ps = accepted("rotate", lambda I_: (ang,) + ((Member("Axis", ax),) if ax else ()))
        check.floor(bool(ps), f"C04.R6: rotate/{ax} has no accepted path")
        idx = AX_INDEX[ax or "Z"]
        for path in ps:
            fr = exts(path, "Rotation.from_rotvec")
            blk = amat_block(path, chain_arg(path), SLICE_33)
            vec = items_of(path, fr[-1].data["args"][0]) if len(fr) == 1 and fr[-1].data["args"] else None
            rot = tagged(path, fr[-1].data.get("result")) if fr else None
            if vec is None or blk is None or len(vec) != 3 or tagged(path, blk) != f"ret({rot}.as_matrix)":
                check.undecided("R6", f"rotate/{ax}: matrix construction not recognised: {tagged(path, chain_arg(path))} (rotation {rot}, vector {vec})")
                check.floor(False, "C04.R6: rotate builds its matrix in a form the analysis does not recognise")
                continue
            want = [("c", 0.0)] * 3
            want[idx] = ("p", app("radians", Poly.sym("arg.angle")).key())
            if [val_key(g) for g in vec] == want:
                check.ok("R6", f"rotate/{ax or 'default'}: rotation vector radians(angle) on {'XYZ'[idx]}, upper-left 3x3 block")
            else:
                check.violation("R6", f"rotate/{ax or 'default'}:vector", f"rotate(angle, {ax or 'default axis'}) builds the rotation from the vector [{', '.join(tagged(path, g) for g in vec)}]; expected radians(angle) on the {'XYZ'[idx]} component and 0 elsewhere", [decisions_text(path)])
    # reflect / mirror
    def householder(path, label, want_normal):
        arg = chain_arg(path)
        blk = amat_block(path, arg, SLICE_33)
        nm = exts(path, "linalg.norm")
        ou = exts(path, "numpy.outer")
        t = tagged(path, blk) if blk is not None else ""
        forms = {f"sub(eye3, mult(Const({c}), ret(Ext(numpy.outer))))" for c in ("2", "2.0")} | {f"sub(eye3, mult(ret(Ext(numpy.outer)), Const({c})))" for c in ("2", "2.0")}
        if not (len(nm) == 1 and len(ou) == 1 and t in forms):
            check.undecided("R6", f"{label}: matrix construction not recognised: {tagged(path, arg)}")
            check.floor(False, f"C04.R6: {label.split('/')[0]} builds its matrix in a form the analysis does not recognise")
            return
        nvec = items_of(path, nm[0].data["args"][0])
        unit = f"div({tagged(path, nm[0].data['args'][0])}, {tagged(path, nm[0].data['result'])})"
        oa = [tagged(path, a) for a in ou[0].data["args"]]
        if nvec is None or len(nvec) != 3 or oa != [unit, unit]:
            check.violation("R6", f"{label}:householder", f"{label} builds I - 2 * outer({', '.join(oa)}); expected both factors to be the normal divided by its own norm ({unit})", [decisions_text(path)])
            return
        if [val_key(g) for g in nvec] == [want_key(w) for w in want_normal]:
            check.ok("R6", f"{label}: I - 2 n n^T with n = normal/|normal|, upper-left 3x3 block")
        else:
            check.violation("R6", f"{label}:normal", f"{label} reflects across the plane with normal ({', '.join(tagged(path, g) for g in nvec)}); expected ({', '.join(str(w) for w in want_normal)})", [decisions_text(path)])

    ps = accepted("reflect", lambda I_: (I_.alloc(AList([Num(x) for x in s[:3]])),))
    check.floor(bool(ps), "C04.R6: reflect has no accepted path")
    for path in ps:
        householder(path, "reflect", s[:3])
    for pl, nrm in PLANE_NORMAL.items():
        ps = accepted("mirror", lambda I_: (Member("Plane", pl),))
        check.floor(bool(ps), f"C04.R6: mirror/{pl} has no accepted path")
        for path in ps:
            householder(path, f"mirror/{pl}", [float(x) for x in nrm])
    return n


def pins(key):
    if key.startswith("opt:g._current_axes") or key.startswith("opt:state._current_axes"):
        return "some"
    if key == "has:kw[COMMENT]":
        return False
    if key.startswith("has:bounds._bounds["):
        return False
    if key in ("has:kw[F]", "has:kw[S]"):
        return False
    if key == "nonempty:g._hooks":
        return False
    if key.startswith("finite:"):
        return True
    return None


def run(check, repo, tier):
    check.rule("R1", "every X/Y/Z word of a transform-aware move is X(requested target) resp. X(target)-X(origin); axes are omitted only when their image is unchanged; machine == X(tracked) is preserved; only the absolute bypasses skip X")
    check.rule("R4", "matrix composition to_pivot @ M @ from_pivot @ current; pivot translations -p/+p; apply uses the matrix, reverse the inverse, homogeneous coordinate 1")
    check.rule("R5", "inverse stored with the matrix as inv() of the stored value")
    cr = CommandRun(repo, tier=tier, exclude=("write",), cm_body=("pass",), with_invalid=False, transform="uninterpreted",
                    max_dev=None, pins=pins)
    results = cr.run(analyse)
    n1 = 0
    for r in results:
        for it in r["items"]:
            if it[0] == "ok":
                check.ok(it[1], it[2])
                n1 += 1
            elif it[0] == "undecided":
                check.undecided(it[1], it[2])
            else:
                check.violation(it[1], it[2], it[3], it[4])
                n1 += 1
        if len(check.samples) < 8 and r["command"] in AWARE + BYPASS:
            oks = [it[2] for it in r["items"] if it[0] == "ok"]
            check.sample({"command": r["command"], "context": r["ctx"], "abstract_paths": r["paths"], "example": oks[:2]})
    check.floor(not (n1 < 300), f"C04.R1: only {n1} word/end-to-end obligations decided (floor 300)")
    # the core class used directly (GCodeCore has no state object; its move/rapid/probe are the ones the builder inherits or wraps)
    core = CommandRun(repo, cls_name="GCodeCore", tier=tier, exclude=("write",), cm_body=("pass",), with_invalid=False, transform="uninterpreted",
                      max_dev=None, pins=pins)
    n_core = 0
    for r in core.run(analyse):
        for it in r["items"]:
            if it[0] == "ok":
                check.ok(it[1], "GCodeCore." + it[2])
                n_core += 1
            elif it[0] == "undecided":
                check.undecided(it[1], "GCodeCore." + it[2])
            else:
                check.violation(it[1], "GCodeCore:" + it[2], "[receiver GCodeCore] " + it[3], it[4])
                n_core += 1
    check.floor(n_core >= 200, f"C04.R1: only {n_core} obligations decided for receiver GCodeCore (floor 200)")
    check.rule("R6", "translate/scale/rotate/reflect/mirror chain the textbook matrix of their arguments")
    # the formatter contract this check relies on (a coordinate word is a faithful fixed-point rendering of the value):
    # discharged here as well, by the formatter rules of C08
    check.rule("R7", "formatter contract: number() renders its argument in fixed point at the configured precision behind a finiteness guard, "
                     "parameters() sends every numeric value through number() (rules R2, R3, R4 of C08)")
    from . import c08
    from .c13 import _Remap
    _rm = _Remap(check, {"R2": "R7", "R3": "R7", "R4": "R7"})
    _rm.floor = lambda cond, message: check.floor(cond, message.replace("C08.", "C04<-C08."))
    c08.check_number(_rm, cr.program)
    c08.check_parameters(_rm, cr.program)
    # which statement a relative / absolute word is read under: the distance-mode rules of C01 (through C11's mode-switch rule)
    check.rule("R9", "set_distance_mode announces the distance mode it records for every spelling it accepts, and the mode context managers restore it "
                     "(rule R4 of C01): X(target) - X(origin) words are only right under G91, X(target) words under G90")
    from . import c11
    c11.mode_switches(check, repo, tier, rule="R9", methods=("set_distance_mode", "absolute_mode", "relative_mode"), floor=20)
    n4 = transformer_rules(check, cr.program)
    n4 += constructor_rules(check, cr.program)
    n4 += point_vector_rule(check, cr.program, "R4")
    # which transform is active: the save / restore / context-manager rules of C13 (a stale or aliased frame moves every later word)
    check.rule("R8", "the active transform is the one the API history selects: named states are snapshots, restores follow stack order, "
                     "transform context managers put back transform and stack on every exit, also nested (rules R1-R3 of C13)")
    from . import c13
    _rm13 = c13._Remap(check, {"R1": "R8", "R2": "R8", "R3": "R8"})
    _rm13.floor = lambda cond, message: check.floor(cond, message.replace("C13", "C04<-C13"))
    n4 += c13.sequences_on_transformer(_rm13, cr.program) + c13.context_managers(_rm13, cr.program)
    check.analysed = dict(cr.stats, transformer_paths=n4, gcodecore=core.stats)
    check.coverage["exhaustive"] = True
    check.explanation = (
        "The active transform is an uninterpreted map named after the matrix value it multiplies with; emitted words are compared, "
        "as polynomials over applications of that map, with the RS274 meaning of the request; the machine model is run from "
        "X(tracked). The transformer's algebra is checked on the flattened matrix products its methods build. All paths are "
        "enumerated with the decisions that cannot influence coordinates (comment, F/S words, bounds, hooks, finiteness) pinned.")
    check.assume("the tracked position is known on all axes (unknown axes are resolved to 0 by the code before transforming; C01 covers that convention)")
    check.assume("numpy/scipy matrix arithmetic and linalg.inv are trusted; exact float equality in Point.combine decides 'image changed'")
    check.assume("probe end positions are unknown by definition; only its words are checked")
