"""C16 -- direct-write statements are delivered synchronously and errors surface.

Decided part (static): the signal-ordering conditions without which the
guarantee fails under *some* schedule.  Not decided: that they suffice under
all latencies and unsolicited acknowledgements (a question about
interleavings of the sender's threads, outside static reach here).

R1  write(): on every normally returning path the acknowledgement event is
    cleared, then the statement (decoded, once) is handed to the device, then
    the event is waited for, then a stored device error is re-raised (and
    reset) -- a path that saw a stored error never returns normally;
R2  store-before-signal: the error callbacks store the error before they set
    the acknowledgement event;
R3  classification is case-insensitive on the stripped message; success
    prefixes include 'ok', error prefixes include error / alarm / !!;
R4  disconnect(wait=True) cancels and disconnects only after the pending-
    operation loop saw: not printing, clear to send, priority queue empty;
R5  SerialWriter/SocketWriter.write forward the same bytes to the delegate once.
"""
from __future__ import annotations

import ast

from ..driver import World
from ..interp import Frame, AbsRaise
from ..model import Program, AnalysisError
from ..traceutil import decisions_text, calls
from ..values import *

DEV = Unk("device", "object")


def pw_world(P):
    W = World(P, "PrintrunWriter", root_label="pw", ctor_args=[Const("serial"), Const("localhost"), Const("/dev/ttyUSB0"), Const(115200)])
    W.I.ext_quiet = lambda tag: "logger" in tag or tag.startswith("logging") or tag.startswith("time.")
    return W


def ext(path, suffix):
    out = []
    for i, e in enumerate(path.trace):
        if e.kind == "EXT" and isinstance(e.data.get("callee"), Unk) and e.data["callee"].tag.endswith(suffix):
            out.append((i, e))
    return out


def write_rule(check, P):
    W = pw_world(P)
    I = W.I
    data = Bytes(Str((Text("line"),)), "utf-8")
    n = 0
    returned = 0

    def setup(I):
        pw = I.heap[W.ref("pw").addr]
        pw.fields["_device"] = DEV
        pw.fields["_device_error"] = Unk("pw._device_error", "")     # may be stored by the listener thread at any time
        pw.fields["_shutdown_requested"] = FALSE

    I.default_fact = lambda k: True if k == "truth:device.online" else None
    for path in I.explore(setup, lambda I, _: W.call_method(I, "pw", "write", (data,)), max_dev=None):
        n += 1
        err_seen = path.facts.get("isnone:pw._device_error")
        d = [decisions_text(path)]
        if path.outcome == "return":
            returned += 1
            clear, send, wait = ext(path, "_ack_event.clear"), ext(path, "device.send"), ext(path, "_ack_event.wait")
            if len(send) != 1:
                check.violation("R1", "write:send-count", f"write() returns normally after {len(send)} device.send calls", d)
                continue
            a = send[0][1].data["args"]
            payload_ok = len(a) == 1 and isinstance(a[0], Str) and any(isinstance(p, Text) and p.name == "line" for p in a[0].parts)
            if not payload_ok:
                check.violation("R1", "write:payload", f"write() hands {a!r} to the device, expected the decoded statement", d)
            if not clear or not wait:
                check.violation("R1", "write:no-sync", f"write() returns without {'clearing' if not clear else 'waiting for'} the acknowledgement event", d)
                continue
            if not (clear[0][0] < send[0][0] < wait[-1][0]):
                order = sorted([(clear[0][0], "clear"), (send[0][0], "send"), (wait[-1][0], "wait")])
                check.violation("R1", "write:order", f"write() performs {[x for _, x in order]}; required: clear, send, wait (an acknowledgement arriving between send and a late clear is lost; a wait before send never ends)", d)
                continue
            w_ev = wait[-1][1]
            timed = [x for x in list(w_ev.data.get("args", ())) + list(w_ev.data.get("kwargs", {}).values()) if not (isinstance(x, Const) and x.v is None)]
            if timed:
                res = w_ev.data.get("result")
                rtag = I.tag(res) if res is not None else None
                consulted = [v for k, v in path.decisions if rtag and rtag in k]
                if not consulted or consulted[-1] is not True:
                    check.violation("R1", "write:timed-wait", f"write() waits for the acknowledgement with a time limit ({', '.join(I.tag(x) for x in timed)}) and returns normally "
                                    "without having seen the event set: a slow statement is reported as delivered, and its late 'ok'/'error' is attributed to the next one", d)
                    continue
            if any(i > send[0][0] for i, _ in clear):
                check.violation("R1", "write:clear-after-send", "write() clears the acknowledgement event again after sending", d)
                continue
            if err_seen is False:
                check.violation("R1", "write:error-swallowed", "write() returns normally on a path where a device error was stored", d)
                continue
            # the error check must come after the wait
            if err_seen is None:
                check.violation("R1", "write:no-error-check", "write() returns without consulting the stored device error after the acknowledgement", d)
                continue
            check.ok("R1", "write(): clear < send < wait < error check, returns only without stored error")
        else:
            # whatever the outcome, a statement that was sent has its own acknowledgement on the way: the event must have been cleared
            # before that send, or the wait is satisfied by an older acknowledgement, the statement's own late 'ok' stays in the event
            # and the *next* write() returns before the device has seen its statement (stale-acknowledgement, round 7)
            sent_, cleared_ = ext(path, "device.send"), ext(path, "_ack_event.clear")
            if sent_ and not any(i < sent_[0][0] for i, _ in cleared_):
                check.violation("R1", "write:send-without-clear", "write() sends the statement without having cleared the acknowledgement event on a path that "
                                "ends with an exception: the acknowledgement of this statement is left in the event and satisfies the wait of the next write()", d)
                continue
            if err_seen is False:
                pw = path.heap[W.ref("pw").addr]
                reset = pw.fields.get("_device_error")
                waited = ext(path, "_ack_event.wait")
                if not waited:
                    continue
                if isinstance(reset, Const) and reset.v is None:
                    check.ok("R1", "write(): stored error raised to the caller and reset")
                else:
                    check.violation("R1", "write:error-not-reset", f"write() raises the stored device error but leaves it stored ({reset!r}): the next statement fails too", d)
    check.floor(returned >= 1, "C16.R1: write() has no normally returning abstract path")
    return n


def callback_rules(check, P):
    W = pw_world(P)
    I = W.I
    n = 0
    msg = Unk("arg.message", "str")
    seen_err = seen_ok = 0
    for path in I.explore(lambda I: None, lambda I, _: W.call_method(I, "pw", "_on_device_message", (msg,)), max_dev=None):
        n += 1
        sets = [(i, e) for i, e in enumerate(path.trace) if e.kind == "SET" and e.data.get("field") == "_device_error"]
        acks = ext(path, "_ack_event.set")
        starts = {k: v for k, v in path.facts.items() if k.startswith("startswith:")}
        d = [decisions_text(path)]
        for k in starts:
            if not any(w in k.split(":", 2)[2] for w in ("'ok'", "'error'", "'alarm'", "'!!'")):
                continue        # some other prefix test (e.g. the '<' of a status report)
            if ".lower()" not in k.split(":")[1]:
                check.violation("R3", "classification:case-sensitive", f"a reply is classified on {k.split(':')[1]}: not lower-cased, 'Error:'/'ALARM' would pass as success", d)
            if ".strip" not in k and False:
                pass
        is_err = any(v is True and ("error" in k.lower()) for k, v in starts.items())
        if sets and acks:
            seen_err += 1
            if sets[0][0] < acks[0][0]:
                check.ok("R2", "_on_device_message: error stored before the acknowledgement is signalled")
            else:
                check.violation("R2", "on_device_message:signal-before-store", "_on_device_message sets the acknowledgement event before storing the device error: write() can return without seeing it", d)
        elif acks and not sets:
            seen_ok += 1
    for path in I.explore(lambda I: None, lambda I, _: W.call_method(I, "pw", "_on_printrun_error", (msg,)), max_dev=None):
        n += 1
        sets = [(i, e) for i, e in enumerate(path.trace) if e.kind == "SET" and e.data.get("field") == "_device_error"]
        acks = ext(path, "_ack_event.set")
        if sets and acks and sets[0][0] < acks[0][0]:
            check.ok("R2", "_on_printrun_error: error stored before the acknowledgement is signalled")
        else:
            check.violation("R2", "on_printrun_error:order", f"_on_printrun_error: stores {len(sets)} / signals {len(acks)}; the error must be stored first, then the event set", [decisions_text(path)])
    check.floor(seen_err >= 1 and seen_ok >= 1, f"C16.R2: message callback paths: error {seen_err}, success {seen_ok}")
    # R3 classification of constant reply lines (oracle: Marlin / Grbl / Smoothie replies)
    SAMPLES = [("ok", "ok"), ("OK", "ok"), ("ok T:210.0 /210.0", "ok"), ("error:20", "error"), ("Error:Printer halted", "error"),
               ("ALARM:1", "error"), ("alarm: hard limit", "error"), ("!! Move out of range", "error"), ("!!", "error"), ("!!stop", "error"),
               ("X:10.00 Y:2.00", "report"), ("<Idle|MPos:0.000,0.000,0.000>", "report"), ("echo:busy: processing", "report")]
    for line, want in SAMPLES:
        outcomes = set()
        for path in I.explore(lambda I: None, lambda I, _, line=line: W.call_method(I, "pw", "_on_device_message", (Const(line),)), max_dev=None, max_paths=200):
            n += 1
            if path.outcome != "return":
                outcomes.add(f"raises {path.value.cls}")
                continue
            stored = any(e.kind == "SET" and e.data.get("field") == "_device_error" for e in path.trace)
            acked = bool(ext(path, "_ack_event.set"))
            outcomes.add("error" if (stored and acked) else ("ok" if acked else ("report" if not stored else "error-without-ack")))
        if outcomes == {want}:
            check.ok("R3", f"reply {line!r} is classified as {want}")
        else:
            check.violation("R3", f"classification:{want}:{line.split()[0][:12]}", f"the reply {line!r} is handled as {sorted(outcomes)}; it is {'an error reply: the error must be stored and the acknowledgement set' if want == 'error' else ('an acknowledgement' if want == 'ok' else 'a plain report: parsed, no acknowledgement')}",
                            [f"outcomes over the abstract paths of _on_device_message: {sorted(outcomes)}"])
    # R3 prefix tables
    mod = "gscrib.writers.printrun_writer"
    for name, must in (("SUCCESS_PREFIXES", {"ok"}), ("ERROR_PREFIXES", {"error", "alarm", "!!"})):
        b = P.resolve_name(mod, name)
        try:
            vals = set(ast.literal_eval(b[1]))
        except Exception:
            raise AnalysisError(f"C16.R3: {name} is not a literal tuple any more")
        if must <= vals and all(v == v.lower() for v in vals):
            check.ok("R3", f"{name} = {sorted(vals)}")
        else:
            check.violation("R3", f"prefixes:{name}", f"{name} = {sorted(vals)}; must contain {sorted(must)} in lower case", [])
    return n


def disconnect_rule(check, P):
    W = pw_world(P)
    I = W.I
    n = 0
    ok = 0

    def setup(I):
        pw = I.heap[W.ref("pw").addr]
        pw.fields["_device"] = DEV
        pw.fields["_device_error"] = NONE
        pw.fields["_shutdown_requested"] = FALSE

    for path in I.explore(setup, lambda I, _: W.call_method(I, "pw", "disconnect", (TRUE,)), max_dev=None, max_paths=5000):
        n += 1
        cancel = ext(path, "device.cancelprint")
        disc = ext(path, "device.disconnect")
        if path.outcome != "return" or not disc:
            continue
        f = path.facts
        online = f.get("truth:device.online")
        d = [decisions_text(path)]
        if online is False:
            continue        # connection already lost: nothing is pending by definition
        pending_clear = (f.get("truth:device.printing") is False and f.get("truth:device.clear") is True)
        # every evaluation of priqueue.empty() is a fresh observation; the last one decides the loop exit
        prq = [v for k, v in path.decisions if k.startswith("truth:") and "priqueue.empty" in k][-1:]
        if pending_clear and prq and prq[0] is True:
            check.ok("R4", "disconnect(wait=True): returns after not printing, clear, priority queue empty")
            ok += 1
        else:
            check.violation("R4", "disconnect:does-not-wait",
                            f"disconnect(wait=True) disconnects the device on a path that did not establish 'not printing, clear to send, "
                            f"priority queue empty' (printing={f.get('truth:device.printing')}, clear={f.get('truth:device.clear')}, priqueue.empty={prq[:1]})", d)
        if not cancel or cancel[0][0] > disc[0][0]:
            check.violation("R4", "disconnect:cancel-order", "disconnect() must cancel the print thread before disconnecting the device", d)
    check.floor(not (ok < 1), "C16.R4: no waiting disconnect path found")
    return n


def lifecycle_rule(check, P):
    """A writer object can be reused (disconnect, then write again reconnects).  write() and connect() silently do
    nothing once the shutdown flag is set -- that is the signal handler's way of ending the process -- so no call of
    the public lifecycle API may set it: from 'not shut down', connect / disconnect(wait or not) / write / flush end
    in 'not shut down' on every path (an inductive invariant; the constructor gives the base case)."""
    W = pw_world(P)
    I = W.I
    n = 0
    ci = P.cls("PrintrunWriter")
    x0 = I.static_heap[W.ref("pw").addr]
    flag = [k for k in x0.fields if "shutdown" in k]
    if len(flag) != 1:
        check.undecided("R9", f"the shutdown flag of PrintrunWriter is not a single field the analysis recognises ({flag})")
        return 0
    flag = flag[0]
    statement = Bytes(Str((Text("line"),)), "utf-8")
    scenarios = [("connect", ()), ("disconnect", (TRUE,)), ("disconnect", (FALSE,)), ("write", (statement,)), ("flush", ())]
    for name, args in scenarios:
        if ci.lookup(name) is None:
            continue
        for connected in (True, False):
            def setup(I_, connected=connected):
                pw = I_.heap[W.ref("pw").addr]
                pw.fields["_device"] = DEV if connected else NONE
                pw.fields["_device_error"] = NONE
                pw.fields[flag] = FALSE
            seen = 0
            for path in I.explore(setup, lambda I_, _: W.call_method(I_, "pw", name, args), max_dev=None, max_paths=3000):
                n += 1
                seen += 1
                after = path.heap[W.ref("pw").addr].fields.get(flag)
                label = f"{name}({', '.join(repr(a.v) if isinstance(a, Const) else '<statement>' for a in args)}) on a {'connected' if connected else 'disconnected'} writer"
                if after == FALSE:
                    check.ok("R9", f"{label}: still usable afterwards")
                else:
                    check.violation("R9", f"lifecycle:{name}:{flag}",
                                    f"{label} {'returns' if path.outcome == 'return' else 'raises'} with {flag} = {after!r}: from then on connect() and write() "
                                    "return at once without sending anything, although the writer object was not shut down by a signal", [decisions_text(path)])
            check.floor(seen >= 1, f"C16.R9: {name} on a {'connected' if connected else 'disconnected'} writer has no abstract path")
    return n


def delegation_rule(check, P):
    n = 0
    data = Bytes(Str((Text("line"),)), "utf-8")
    for cls, args in (("SerialWriter", [Const("/dev/ttyUSB0"), Const(115200)]), ("SocketWriter", [Const("localhost"), Const(8000)])):
        W = World(P, cls, root_label="sw", ctor_args=args)
        I = W.I
        I.event_funcs = {"PrintrunWriter.write"}
        I.intrinsics["PrintrunWriter.write"] = lambda I_, fv, a, k, node: (I_.emit("CALL", node, func="PrintrunWriter.write", args=tuple(a), kwargs=dict(k)), NONE)[1]
        for path in I.explore(lambda I: None, lambda I, _: W.call_method(I, "sw", "write", (data,)), max_dev=None):
            n += 1
            cs = calls(path, "PrintrunWriter.write")
            if path.outcome == "return" and len(cs) == 1 and cs[0].data["args"][-1] == data:
                check.ok("R5", f"{cls}.write forwards the bytes once")
            else:
                check.violation("R5", f"delegation:{cls}", f"{cls}.write makes {len(cs)} delegate writes with {[c.data['args'][1:] for c in cs]}", [decisions_text(path)])
    return n


def run(check, repo, tier):
    check.rule("R1", "write(): clear < send(decoded statement, once) < wait < stored-error check; a stored error is raised and reset")
    check.rule("R2", "error callbacks store the error before signalling the acknowledgement")
    check.rule("R3", "case-insensitive classification; prefix tables contain ok / error, alarm, !!")
    check.rule("R4", "disconnect(wait=True) disconnects only after: not printing, clear, priority queue empty; cancel before disconnect")
    check.rule("R5", "SerialWriter/SocketWriter.write forward the same bytes once")
    check.rule("R6", "a reading requested by a statement is available when its write() returns: an 'ok ...' report is parsed before the acknowledgement is "
                     "signalled, every device line updates the readings again (per-line de-duplication), earlier readings are kept (rules R1, R3, R4 of C18)")
    P = Program(repo)
    check.rule("R9", "a writer stays usable: connect / disconnect(wait or not) / write / flush never set the shutdown flag (only the signal handler does), "
                     "so a later write() connects and sends instead of returning silently")
    n = write_rule(check, P) + callback_rules(check, P) + disconnect_rule(check, P) + delegation_rule(check, P) + lifecycle_rule(check, P)
    from . import c18
    from .c13 import _Remap
    remap = _Remap(check, {"R1": "R6", "R3": "R6", "R4": "R6"})
    remap.floor = lambda cond, message: check.floor(cond, message.replace("C18.", "C16<-C18."))
    n += c18.must_parse(remap, P) + c18.dispatch_rule(remap, P)
    # the sender thread's device write must not fail on the statement's own text (it would end the thread and every
    # later write() would wait for ever): the framing rule of C15 runs printcore._send on an arbitrary command
    check.rule("R7", "printcore._send writes every statement to the device: one device write on every path, no exception from encoding the statement's text (rule R1 of C15)")
    from . import c15
    rm7 = _Remap(check, {"R1": "R7"})
    rm7.floor = lambda cond, message: check.floor(cond, message.replace("C15.", "C16<-C15."))
    n += c15.framing(rm7, P)
    # socket connections: a reply counts as the acknowledgement only as a whole line; the line reassembly rules of C17
    check.rule("R8", "socket replies are handed on as whole lines only: byte conservation, one newline per returned line, a timeout returns the empty marker "
                     "and never a buffered fragment (rules R1-R3 of C17)")
    from . import c17
    rm8 = _Remap(check, {"R1": "R8", "R2": "R8", "R3": "R8"})
    rm8.floor = lambda cond, message: check.floor(cond, message.replace("C17", "C16<-C17"))
    c17.run(rm8, repo, tier)
    check.analysed = {"program": P.stats(), "abstract_paths": n, "entries": ["PrintrunWriter.write", "_on_device_message", "_on_printrun_error", "disconnect", "SerialWriter.write", "SocketWriter.write"]}
    check.sample({"entry": "PrintrunWriter.write", "order_required": ["_ack_event.clear", "device.send", "_ack_event.wait", "_device_error check"]})
    check.coverage["exhaustive"] = True
    check.explanation = (
        "Per-function ordering rules on the abstract paths of the PrintrunWriter entry points: calls on the threading.Event and on "
        "the device are calls leaving the package and are recorded in order; the stored-error field is havocked to 'may have been "
        "set by the listener thread at any time'. These are necessary conditions of synchronous delivery; sufficiency under all "
        "thread schedules is not claimed.")
    check.assume("no interleaving reasoning: the sender's listener/sender threads are not modelled")
    check.assume("observation, not reported: a comment-only statement is consumed without transmission, so no acknowledgement ever arrives for it")
