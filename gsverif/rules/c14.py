"""C14 -- every writer receives every line, once, in order, byte for byte.

Decided part (static): delivery structure of write()/flush()/teardown(), the
registration-set discipline, codec agreement between the encoder and every
decoding writer, FileWriter's lazy connect / text-or-binary choice / ownership
of the file it opened.  Not decided: OS-level buffering and newline
translation of caller-supplied text streams.

R1  with two registered writers, every statement of every command is handed to
    writer 1 then writer 2, exactly once each, as the very same encoded bytes;
R2  writers are written to only from GCodeCore.write;
R3  the codec used to encode equals the codec every decoding writer uses;
R4  add_writer is idempotent and order preserving, remove_writer removes,
    teardown disconnects every writer (passing `wait`) and empties the set,
    flush reaches every writer;
R5  FileWriter: connects before the first write, writes text to streams with an
    encoding and bytes otherwise, closes exactly the files it opened, flush forwards.
"""
from __future__ import annotations

import ast

from ..commands import CommandRun
from ..driver import World
from ..interp import Frame, AbsRaise
from ..model import Program, AnalysisError
from ..traceutil import chain, decisions_text, Statement
from ..values import *

W1, W2 = Unk("writer1", "writer"), Unk("writer2", "writer")


def two_writers(I, W):
    g = I.heap[W.ref("g").addr]
    g.fields["_writers"] = I.alloc(AList([W1, W2], base="g._writers"))


def writer_calls(path, method=None):
    out = []
    for e in path.trace:
        if e.kind == "EXT" and isinstance(e.data.get("callee"), Unk):
            t = e.data["callee"].tag
            for w in ("writer1", "writer2"):
                if t.startswith(w + "."):
                    m = t[len(w) + 1:]
                    if method is None or m == method:
                        out.append((w, m, e))
    return out


def analyse(W, name, f, ctx, desc, path):
    items = []
    entry = f"{name}({desc})"
    calls = writer_calls(path, "write")
    where = [f"path decisions: {decisions_text(path, 8)}"]
    # group into statements: w1, w2 alternate
    seq = [(w, e.data["args"][0] if e.data["args"] else None) for w, m, e in calls]
    i = 0
    while i < len(seq):
        if i + 1 >= len(seq) or seq[i][0] != "writer1" or seq[i + 1][0] != "writer2":
            if path.outcome == "raise":
                break
            items.append(("viol", "R1", f"{name}:delivery-order", f"{entry}: writers are served in the order {[w for w, _ in seq]}, expected writer1, writer2 per statement", where))
            break
        if seq[i][1] != seq[i + 1][1]:
            items.append(("viol", "R1", f"{name}:different-bytes", f"{entry}: the two writers receive different values for one statement: {seq[i][1]!r} vs {seq[i + 1][1]!r}", where))
        elif isinstance(seq[i][1], Unk) and seq[i][1].typ == "object" and W.I.tag(seq[i][1]).startswith("g."):
            # an object the builder created once and keeps in a field (a reusable buffer): every statement is the same
            # mutable object, so a writer that keeps what it was handed (a recording or queueing writer) sees it change
            items.append(("viol", "R1", f"{name}:shared-buffer", f"{entry}: writers are handed the builder's own long-lived object "
                          f"{W.I.tag(seq[i][1])} instead of a bytes value of their own for this statement", where))
        elif isinstance(seq[i][1], Unk):
            items.append(("undecided", "R1", f"{entry}: writers receive {seq[i][1]!r}, a value the analysis cannot see into"))
        elif not isinstance(seq[i][1], (Bytes, Const)):
            items.append(("viol", "R1", f"{name}:not-bytes", f"{entry}: writers receive {seq[i][1]!r}, not encoded bytes", where))
        else:
            items.append(("ok", "R1", f"{entry}: statement {i // 2 + 1} -> writer1, writer2, same bytes"))
            if isinstance(seq[i][1], Bytes):
                items.append(("codec", seq[i][1].enc))
        i += 2
    for w, m, e in calls:
        a0 = e.data["args"][0] if e.data["args"] else None
        if isinstance(a0, Bytes):
            items.append(("codec", a0.enc))
        if "GCodeCore.write" not in e.stack:
            items.append(("viol", "R2", f"{name}:direct-writer-call:{e.site[0]}", f"{entry}: {w}.write is called from {e.site[0]}, outside GCodeCore.write", [f"via {chain(e)}"]))
        else:
            items.append(("ok", "R2", f"{entry}: via GCodeCore.write"))
    return items


def registration(check, P):
    W = World(P, "GCodeBuilder")
    I = W.I
    n = 0

    def items(I):
        g = I.heap[W.ref("g").addr]
        o = I.heap[g.fields["_writers"].addr]
        return list(o.items) if o.items is not None else None

    def seq(I, _):
        g = I.heap[W.ref("g").addr]
        g.fields["_writers"] = I.alloc(AList([], base="g._writers"))
        out = []
        W.call_method(I, "g", "add_writer", (W1,))
        W.call_method(I, "g", "add_writer", (W1,))
        out.append(("add twice", items(I), [W1]))
        W.call_method(I, "g", "add_writer", (W2,))
        out.append(("add second", items(I), [W1, W2]))
        W.call_method(I, "g", "remove_writer", (W1,))
        out.append(("remove first", items(I), [W2]))
        W.call_method(I, "g", "remove_writer", (W1,))
        out.append(("remove absent", items(I), [W2]))
        W.call_method(I, "g", "add_writer", (W1,))
        out.append(("re-add", items(I), [W2, W1]))
        W.call_method(I, "g", "flush", ())
        wait = Unk("arg.wait", "bool")
        W.call_method(I, "g", "teardown", (wait,))
        out.append(("teardown", items(I), []))
        return out

    done = 0
    for path in I.explore(lambda I: None, seq, max_dev=None):
        n += 1
        if path.outcome != "return":
            check.violation("R4", f"registration:raises:{path.value.cls}", f"the add/remove/flush/teardown sequence raises {path.value.cls} in {path.raise_site[0]}", [decisions_text(path)])
            continue
        done += 1
        for label, got, want in path.value:
            if got == want:
                check.ok("R4", f"{label}: {want}")
            else:
                check.violation("R4", f"registration:{label}", f"after '{label}' the registered writers are {got}, expected {want}", [decisions_text(path)])
        fl = [w for w, m, e in writer_calls(path, "flush")]
        if fl == ["writer2", "writer1"]:
            check.ok("R4", "flush reaches every registered writer")
        else:
            check.violation("R4", "registration:flush", f"flush() calls flush on {fl}, expected every registered writer once", [])
        dc = [(w, e.data["args"]) for w, m, e in writer_calls(path, "disconnect")]
        if [w for w, a in dc] == ["writer2", "writer1"] and all(len(a) == 1 and a[0] == Unk("arg.wait", "bool") for w, a in dc):
            check.ok("R4", "teardown disconnects every writer with the wait flag")
        else:
            check.violation("R4", "registration:teardown-disconnect", f"teardown() disconnects {dc}, expected every registered writer once, passing wait", [])
    check.floor(not (not done), "C14.R4: registration sequence never completes")
    return n


def file_writer(check, P, codecs):
    node = ast.parse("0").body[0]
    W = World(P, "FileWriter", root_label="fw", ctor_args=[Unk("out", "output")])
    I = W.I
    data = Bytes(Str((Text("line"),)), "utf-8")
    n = 0

    def file_calls(path):
        out = []
        for e in path.trace:
            if e.kind == "EXT" and isinstance(e.data.get("callee"), Unk):
                out.append((e.data["callee"].tag, e.data["args"]))
            if e.kind == "NOTE" and e.data.get("what") == "decode":
                codecs.add(("FileWriter.write", e.data["codec"]))
        return out

    def seq(I, _):
        fw = I.heap[W.ref("fw").addr]
        fw.fields["_file"] = NONE
        W.call_method(I, "fw", "write", (data,))
        W.call_method(I, "fw", "write", (data,))
        W.call_method(I, "fw", "flush", ())
        W.call_method(I, "fw", "disconnect", ())
        return I.heap[W.ref("fw").addr].fields.get("_file")

    done = 0
    for path in I.explore(lambda I: None, seq, max_dev=None, max_paths=20000):
        n += 1
        if path.outcome != "return":
            continue
        done += 1
        calls = file_calls(path)
        is_path = path.facts.get("isinstance:out:str")
        has_enc = None
        for k, v in path.facts.items():
            if k.startswith("hasattr:") and k.endswith(":encoding"):
                has_enc = v
        opens = [c for c in calls if c[0].endswith(".open")]
        writes = [c for c in calls if c[0].endswith(".write")]
        closes = [c for c in calls if c[0].endswith(".close")]
        flushes = [c for c in calls if c[0].endswith(".flush")]
        d = [decisions_text(path, 12)]
        label = f"output is a {'path' if is_path else 'stream'}{', text' if has_enc else ', binary'}"
        if is_path and len(opens) != 1:
            check.violation("R5", "file:open-count", f"{label}: two writes open the file {len(opens)} times (lazy connect must open exactly once)", d)
        elif not is_path and opens:
            check.violation("R5", "file:opens-stream", f"{label}: a caller-supplied stream is re-opened", d)
        else:
            check.ok("R5", f"{label}: connected once before the first write")
        if is_path and opens and not (opens[0][1] and I.strval(opens[0][1][0]) in ("wb", "wb+", "ab", "ab+", "w+b")):
            check.violation("R5", "file:open-mode", f"{label}: the file is opened with mode {opens[0][1]!r}, bytes are written to it", d)
        if len(writes) != 2:
            check.violation("R5", "file:write-count", f"{label}: two write() calls result in {len(writes)} stream writes", d)
        else:
            want = data.s if has_enc else data
            if all(len(a) == 1 and a[0] == want for _, a in writes):
                check.ok("R5", f"{label}: {'decoded text' if has_enc else 'the bytes'} written unchanged, once per call")
            else:
                check.violation("R5", f"file:payload:{'text' if has_enc else 'binary'}", f"{label}: the stream receives {[a for _, a in writes]}, expected {want!r} twice", d)
        if bool(closes) != bool(is_path):
            check.violation("R5", "file:close-ownership", f"{label}: disconnect() {'closes a stream it did not open' if closes else 'leaves the file it opened unclosed'}", d)
        else:
            check.ok("R5", f"{label}: {'closed by disconnect' if is_path else 'left open for its owner'}")
        if len(flushes) < 1:
            check.violation("R5", "file:flush", f"{label}: flush() does not reach the stream", d)
        if not (isinstance(path.value, Const) and path.value.v is None):
            check.violation("R5", "file:still-connected", f"{label}: after disconnect() the writer still holds {path.value!r}", d)
    check.floor(not (done < 4), f"C14.R5: only {done} completing FileWriter paths (floor 4)")
    return n


def console_writer(check, P):
    """ConsoleWriter (a FileWriter on stdout/stderr): flushes after every statement, never closes the console."""
    W = World(P, "ConsoleWriter", root_label="cw")
    I = W.I
    data = Bytes(Str((Text("line"),)), "utf-8")
    n = 0

    def seq(I_, _):
        cw = I_.heap[W.ref("cw").addr]
        cw.fields["_file"] = NONE
        cw.fields["_output"] = Unk("console", "object")
        W.call_method(I_, "cw", "write", (data,))
        W.call_method(I_, "cw", "write", (data,))
        W.call_method(I_, "cw", "disconnect", ())
        return NONE
    I.default_fact = lambda k: False if k.startswith("isinstance:console:") else None
    done = 0
    for path in I.explore(lambda I_: None, seq, max_dev=None, max_paths=5000):
        n += 1
        if path.outcome != "return":
            continue
        done += 1
        calls = [(e.data["callee"].tag, e.data["args"]) for e in path.trace if e.kind == "EXT" and isinstance(e.data.get("callee"), Unk)]
        order = [t.split(".")[-1] for t, a in calls if t.split(".")[-1] in ("write", "flush", "close", "open")]
        d = [decisions_text(path)]
        if order == ["write", "flush", "write", "flush"]:
            check.ok("R5", "console: every statement is written and flushed at once; the console stream is never closed")
        else:
            check.violation("R5", "console:write-flush", f"ConsoleWriter performs {order} for two statements and a disconnect; expected write, flush, write, flush and no close", d)
    check.floor(done >= 1, "C14.R5: ConsoleWriter sequence never completes")
    return n


def decoding_writers(check, P, codecs):
    data = Bytes(Str((Text("line"),)), "utf-8")
    # LogWriter
    W = World(P, "LogWriter", root_label="lw")
    I = W.I
    I.ext_quiet = lambda tag: False
    n = 0
    for path in I.explore(lambda I: None, lambda I, _: W.call_method(I, "lw", "write", (data,)), max_dev=None):
        n += 1
        for e in path.trace:
            if e.kind == "NOTE" and e.data.get("what") == "decode":
                codecs.add(("LogWriter.write", e.data["codec"]))
    # PrintrunWriter._send_statement
    W = World(P, "PrintrunWriter", root_label="pw", ctor_args=[Const("serial"), Const("localhost"), Const("/dev/tty"), Const(115200)])
    I = W.I
    for path in I.explore(lambda I: None, lambda I, _: W.call_method(I, "pw", "_send_statement", (data,)), max_dev=None):
        n += 1
        sent = [e for e in path.trace if e.kind == "EXT" and isinstance(e.data.get("callee"), Unk) and e.data["callee"].tag.endswith(".send")]
        for e in path.trace:
            if e.kind == "NOTE" and e.data.get("what") == "decode":
                codecs.add(("PrintrunWriter._send_statement", e.data["codec"]))
        if path.outcome == "return":
            if len(sent) == 1 and sent[0].data["args"] and _mentions(sent[0].data["args"][0], "line"):
                check.ok("R3", "PrintrunWriter sends the decoded statement once")
            else:
                check.violation("R3", "printrun:send", f"PrintrunWriter._send_statement hands {[e.data['args'] for e in sent]} to the device", [])
    return n


def _mentions(v, name):
    if isinstance(v, Str):
        return any(isinstance(p, Text) and p.name == name for p in v.parts)
    return False


def run(check, repo, tier):
    check.rule("R1", "two writers: each statement goes to writer 1 then writer 2, once each, identical bytes")
    check.rule("R2", "writers are written to only from GCodeCore.write")
    check.rule("R3", "encoder codec == decoder codec in FileWriter, LogWriter, PrintrunWriter")
    check.rule("R4", "registration: idempotent ordered add, remove, flush to all, teardown disconnects all with wait and clears")
    check.rule("R5", "FileWriter: lazy single connect, text vs bytes by stream kind, closes only what it opened, flush forwards")
    cr = CommandRun(repo, tier=tier, cm_body=("pass",), with_invalid=False, per_path_setup=two_writers, opaque_payload_ok=True,
                    pins=lambda k: (True if k.startswith("finite:") else (False if k.startswith("has:bounds._bounds[") else None)))
    results = cr.run(analyse)
    codecs = set()
    n1 = 0
    for r in results:
        for it in r["items"]:
            if it[0] == "ok":
                check.ok(it[1], it[2])
                n1 += 1
            elif it[0] == "codec":
                codecs.add(("GCodeCore.write/encode", it[1]))
            elif it[0] == "undecided":
                check.undecided(it[1], it[2])
            else:
                check.violation(it[1], it[2], it[3], it[4])
                n1 += 1
        if len(check.samples) < 6 and r["items"]:
            check.sample({"command": r["command"], "context": r["ctx"], "abstract_paths": r["paths"],
                          "statements_delivered_to_both": sum(1 for it in r["items"] if it[0] == "ok" and it[1] == "R1")})
    check.floor(not (n1 < 500), f"C14.R1: only {n1} delivery obligations (floor 500)")
    P = cr.program
    n4 = registration(check, P)
    n5 = file_writer(check, P, codecs) + console_writer(check, P)
    n3 = decoding_writers(check, P, codecs)
    names = {c.lower().replace("_", "-") if isinstance(c, str) else c for _, c in codecs}
    sites = sorted(s for s, _ in codecs)
    need = {"GCodeCore.write/encode", "FileWriter.write", "LogWriter.write", "PrintrunWriter._send_statement"}
    check.floor(need <= set(sites), f"C14.R3: codec sites not all seen: missing {sorted(need - set(sites))}")
    enc_names = {c.lower().replace("_", "-") if isinstance(c, str) else c for s_, c in codecs if s_.endswith("/encode")}
    dec_names = names - enc_names if enc_names != names else names
    ascii_into_utf8 = enc_names <= {"ascii", "us-ascii"} and dec_names <= {"utf-8", "utf8"}
    if len(names) == 1:
        check.ok("R3", f"one codec at all {len(sites)} sites: {sorted(names, key=str)}")
    elif ascii_into_utf8:
        check.ok("R3", f"the builder encodes as ASCII and the writers decode as UTF-8: every ASCII byte string decodes to the same text ({sorted(codecs, key=str)})")
    else:
        check.violation("R3", "codec-mismatch", f"encoder and decoders disagree on the codec: {sorted(codecs, key=str)}", [])
    check.analysed = dict(cr.stats, registration_paths=n4, filewriter_paths=n5, decoder_paths=n3, codec_sites=sorted(codecs, key=str))
    check.coverage["exhaustive"] = tier == "thorough"
    check.explanation = (
        "Writers are external objects: the abstract interpreter records every call that leaves the package with receiver, "
        "method, arguments and call chain. With two concrete writer symbols registered, the delivery order, multiplicity and "
        "byte identity are read off every path of every command; registration and FileWriter behaviour are checked on call "
        "sequences; codecs are collected at the encode site and at every decode site.")
    check.assume("OS-level buffering and newline translation of caller-supplied text streams are not modelled")
    check.assume("a stream 'has an encoding attribute' iff it is a text stream")
