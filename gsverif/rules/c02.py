"""C02 -- interlocks: no unsafe tool/coolant/halt sequence is ever emitted.

Deciding method: a finite transition abstraction (tool flag, coolant flag) is
extracted from the source by abstract interpretation of every public command
of the builder, for every member of its enum parameter, from a havocked state;
the flags are finite unknowns decided only where the code reads them.  The
extracted per-call transition relation is checked against the RS274 meaning of
the emitted codes; because the step is established for an arbitrary pre-state
it is inductive over call histories of any length.

R2  safety matrix: a start-tool code (M03/M04) is delivered only with the tool
    flag False, a start-coolant code (M07/M08) only with the coolant flag
    False, M06 and the halt/wait codes only with both False -- where a flag the
    path never read counts as "may be True" (a deleted guard is a violation);
    a path that ends in ToolStateError/CoolantStateError delivered nothing;
R3  converse: an interlock exception escapes only from a command whose
    accepted paths deliver a guarded code of the matching kind, and only when
    the corresponding flag is True on that path;
R4  flags mirror the program: on accepted paths the final flags equal the
    pre-state flags updated by the delivered codes (M03/M04 set, M05 clears the
    tool flag; M07/M08 set, M09 clears the coolant flag);
R5  closure: the two flags are stored only inside GState; guarded codes occur
    as string literals only in the enum->instruction table.
"""
from __future__ import annotations

import ast
import re

from ..commands import CommandRun
from ..model import Program, AnalysisError
from ..traceutil import statements, out_of_scope_exception, chain, decisions_text
from ..values import *

START_TOOL = {"M3", "M4"}
STOP_TOOL = {"M5"}
START_COOL = {"M7", "M8"}
STOP_COOL = {"M9"}
BOTH_OFF = {"M6", "M0", "M1", "M2", "M30", "M60", "M109", "M190", "M191", "M400"}
GUARDED = START_TOOL | START_COOL | BOTH_OFF
INTERLOCK = {"ToolStateError", "CoolantStateError"}
TOOL_FLAG = "bool:state._is_tool_active"
COOL_FLAG = "bool:state._is_coolant_active"


def pins_thorough(key):
    # decisions that cannot influence which codes are delivered or the flags
    # (comment text, which axes are given/known); everything else is explored
    if key == "has:kw[COMMENT]":
        return False
    if key in ("has:kw[X]", "has:kw[Y]", "has:kw[Z]"):
        return True
    if key.startswith("opt:g._current_axes") or key.startswith("opt:arg.point") or key.startswith("opt:state._current_axes"):
        return "some"
    return None


def analyse(W, name, f, ctx, desc, path):
    P = W.P
    items = []
    entry = f"{name}({desc})"
    t = path.facts.get(TOOL_FLAG, "?")
    c = path.facts.get(COOL_FLAG, "?")
    pre = (t, c)
    sts = statements(path)
    delivered = []
    for s in sts:
        for code in s.codes():
            delivered.append(code)
            bad = None
            if code in START_TOOL and t is not False:
                bad = f"{code} (start tool) delivered while the tool flag is {'unchecked' if t == '?' else 'True'}"
            if code in START_COOL and c is not False:
                bad = f"{code} (start coolant) delivered while the coolant flag is {'unchecked' if c == '?' else 'True'}"
            if code in BOTH_OFF and (t is not False or c is not False):
                which = []
                if t is not False:
                    which.append("tool " + ("unchecked" if t == "?" else "active"))
                if c is not False:
                    which.append("coolant " + ("unchecked" if c == "?" else "active"))
                bad = f"{code} delivered with {' and '.join(which)}"
            if bad:
                key = f"{name}:{code}:unsafe:{'tool' if (code in START_TOOL or (code in BOTH_OFF and t is not False)) else 'coolant'}"
                items.append(("viol", "R2", key, f"{entry}: {bad}",
                              [f"delivered at {s.event.where()} via {chain(s.event)}", f"path decisions: {decisions_text(path)}"]))
            else:
                if code in GUARDED:
                    items.append(("ok", "R2", f"{entry} pre={pre}: {code} safe"))
            if code in START_TOOL:
                t = True
            elif code in STOP_TOOL:
                t = False
            elif code in START_COOL:
                c = True
            elif code in STOP_COOL:
                c = False
    if path.outcome == "raise":
        cls = path.value.cls
        if cls in INTERLOCK:
            if sts:
                items.append(("viol", "R2", f"{name}:interlock-after-delivery:{cls}",
                              f"{entry}: {cls} escapes after {delivered or 'a statement'} was already delivered",
                              [f"raised in {path.raise_site[0]} via {chain(path.raise_stack)}"]))
            flag = t if cls == "ToolStateError" else c
            if flag is not True:
                items.append(("viol", "R3", f"{name}:{cls}:safe-state",
                              f"{entry}: {cls} escapes although the {'tool' if cls == 'ToolStateError' else 'coolant'} flag is "
                              f"{'never consulted' if flag == '?' else 'False'} on this path",
                              [f"raised in {path.raise_site[0]} via {chain(path.raise_stack)}", f"path decisions: {decisions_text(path)}"]))
            items.append(("interlock", name, desc, cls, path.raise_site[0], chain(path.raise_stack)))
    else:
        items.append(("accepted", name, desc, tuple(delivered)))
    # R4 holds after *every* call, accepted or rejected: the flags must follow the delivered codes
    state = None
    for a, lab in W.labels.items():
        if lab == "state":
            state = path.heap[a]
    for flag_name, sim, sym in (("_is_tool_active", t, "state._is_tool_active"), ("_is_coolant_active", c, "state._is_coolant_active")):
        v = state.fields.get(flag_name)
        if sim == "?":
            good = isinstance(v, Choice) and v.name == sym
        else:
            if isinstance(v, Choice) and v.name == sym:
                # untouched field: its value is the pre-state fact
                good = path.facts.get("bool:" + sym) is sim
            else:
                good = v == Const(sim)
        if not good:
            items.append(("viol", "R4", f"{name}:{flag_name}:mirror",
                          f"{entry} pre={pre} ({'rejected with ' + path.value.cls if path.outcome == 'raise' else 'accepted'}): delivered {delivered} so the program leaves "
                          f"{flag_name[4:].replace('_', ' ')} = {sim}, but the state reports {v!r}",
                          [f"path decisions: {decisions_text(path)}"]))
        else:
            items.append(("ok", "R4", f"{entry} pre={pre} {flag_name}"))
    return items


def static_closure(check, P: Program):
    """R5: who-may-write the flags, where guarded literals live."""
    writers = []
    literal_sites = []
    code_re = re.compile(r"(?<![A-Za-z0-9.])(M0*(?:3|4|6|7|8|0|1|2|30|60|109|190|191|400))(?![0-9.A-Za-z])")
    for mod in P.modules.values():
        if ".printrun" in mod.name:
            continue
        doc_nodes = set()
        for n in ast.walk(mod.tree):
            if isinstance(n, (ast.FunctionDef, ast.ClassDef, ast.Module)) and n.body and isinstance(n.body[0], ast.Expr) \
                    and isinstance(n.body[0].value, ast.Constant) and isinstance(n.body[0].value.value, str):
                doc_nodes.add(id(n.body[0].value))
        for cls in [n for n in ast.walk(mod.tree) if isinstance(n, ast.ClassDef)] + [None]:
            pass
        # attribute stores
        class V(ast.NodeVisitor):
            def __init__(self):
                self.cls = []

            def visit_ClassDef(self, n):
                self.cls.append(n.name)
                self.generic_visit(n)
                self.cls.pop()

            def visit_Attribute(self, n):
                if isinstance(n.ctx, (ast.Store, ast.Del)) and n.attr in ("_is_tool_active", "_is_coolant_active"):
                    writers.append((mod.name, self.cls[-1] if self.cls else None, n.attr, n.lineno))
                self.generic_visit(n)

            def visit_Constant(self, n):
                if isinstance(n.value, str) and id(n) not in doc_nodes and "\n" not in n.value.strip():
                    for m in code_re.finditer(n.value):
                        literal_sites.append((mod.name, m.group(1), n.lineno))

            def visit_Call(self, n):
                # setattr(obj, "_is_tool_active", ...)
                if isinstance(n.func, ast.Name) and n.func.id == "setattr" and len(n.args) >= 2 and isinstance(n.args[1], ast.Constant) \
                        and n.args[1].value in ("_is_tool_active", "_is_coolant_active"):
                    writers.append((mod.name, self.cls[-1] if self.cls else None, n.args[1].value, n.lineno))
                self.generic_visit(n)
        V().visit(mod.tree)
    n_w = 0
    for m, c, attr, line in writers:
        if c == "GState":
            check.ok("R5", f"{attr} stored in GState ({m}:{line})")
            n_w += 1
        else:
            check.violation("R5", f"flag-writer:{m}:{c}:{attr}", f"{attr} is stored outside GState, in {m} class {c} (line {line})",
                            [f"{m}:{line}"])
    check.floor(not (n_w < 2), "C02.R5: fewer than 2 stores of the interlock flags found in GState (anchor vanished)")
    for m, code, line in literal_sites:
        if m.endswith("codes.gcode_mappings"):
            check.ok("R5", f"literal {code} in the table")
        else:
            check.violation("R5", f"guarded-literal:{m}:{code}", f"guarded code {code} appears as a string literal outside the instruction table, in {m} (line {line})",
                            [f"{m}:{line}"])


def run(check, repo, tier):
    check.rule("R2", "safety matrix over every (pre-state, command, member) path: guarded codes are delivered only when the flags they require are False; interlock exceptions deliver nothing")
    check.rule("R3", "converse: interlock exceptions escape only from commands that would deliver a guarded code of that kind, and only with the flag True")
    check.rule("R4", "inductive step: final flags = pre-state flags updated by the delivered codes")
    check.rule("R5", "closure: flags are stored only in GState; guarded codes are literals only in the instruction table")
    # io_failures: a writer may fail while it is handed a line; the line then counts as emitted (some writer may have
    # received it), and the flags must still follow the emitted codes (R4)
    cr = CommandRun(repo, tier=tier, exclude=("write",), cm_body=("pass", "raise"),
                    pins=pins_thorough if tier == "thorough" else None, io_failures=True)
    results = cr.run(analyse)
    check.floor(not (cr.stats["commands"] < 40), f"C02: only {cr.stats['commands']} public commands analysed (floor 40)")
    guarded_seen = set()
    triples = 0
    for r in results:
        accepted_codes = set()
        interlocks = []
        for it in r["items"]:
            if it[0] == "ok":
                check.ok(it[1], it[2])
            elif it[0] == "viol":
                check.violation(it[1], it[2], it[3], it[4])
            elif it[0] == "accepted":
                accepted_codes |= set(it[3])
            elif it[0] == "interlock":
                interlocks.append(it)
        triples += 1
        guarded_seen |= accepted_codes & GUARDED
        # R3: which interlock kinds may this command raise at all?
        allowed = set()
        if accepted_codes & START_TOOL:
            allowed.add("ToolStateError")
        if accepted_codes & START_COOL:
            allowed.add("CoolantStateError")
        if accepted_codes & BOTH_OFF:
            allowed |= INTERLOCK
        for _, name, desc, cls, site, ch in interlocks:
            if cls in allowed:
                check.ok("R3", f"{name}({desc}): {cls} documented")
            else:
                check.violation("R3", f"{name}:{cls}:undocumented",
                                f"{name}({desc}) can be rejected with {cls} although its accepted paths deliver no guarded code of that kind ({sorted(accepted_codes)})",
                                [f"raised in {site} via {ch}"])
        if len(check.samples) < 10 and (accepted_codes & GUARDED):
            check.sample({"command": r["command"], "context": r["ctx"], "abstract_paths": r["paths"], "accepted_codes": sorted(accepted_codes),
                          "interlock_rejections": sorted({i[3] for i in interlocks})})
    missing = GUARDED - guarded_seen
    check.floor(not (missing), f"C02: guarded codes never delivered by any analysed command: {sorted(missing)} (anchor floor)")
    static_closure(check, cr.program)
    check.analysed = dict(cr.stats, command_contexts=triples, guarded_codes_seen=sorted(guarded_seen))
    check.coverage["exhaustive"] = tier == "thorough"
    check.coverage["states"] = 4
    check.explanation = (
        "Transition abstraction (tool flag, coolant flag) extracted by abstract interpretation of every public GCodeBuilder "
        "command x enum member from a havocked pre-state; codes delivered to the writers are read off the provenance of the "
        "statement (instruction table interpreted from source); safety, converse, mirror and closure rules checked per path. "
        + ("All paths enumerated with the interlock-irrelevant decisions (comment text, which axes are given/known) pinned."
           if tier == "thorough" else
           "Quick tier: paths with at most 3 decisions deviating from the default option; the thorough tier is exhaustive."))
    check.assume("raw write() is the documented bypass and is excluded ('through the state-tracked API')")
    check.assume("callers pass type-correct arguments; a writer may fail (DeviceWriteError) while it is handed a line: the line then counts as emitted, and the flags must follow it")
    check.assume("RS274/Marlin oracle: M03/M04 start, M05 stop tool; M07/M08 start, M09 stop coolant; codes compared modulo leading zeros")
