"""C19 -- heightmaps interpolate faithfully and sample paths within tolerance.

Decided part (static): argument-order agreement between how each interpolator
is built and how it is called, the scale factor, zero outside the raster,
which range each coordinate is checked against (x: columns, y: rows), the
(x, y, height-at-(x, y)) pairing of path samples, and the tolerance filter
(first and last sample kept, a sample dropped only if it differs from the
previously *kept* one by less than the tolerance).  Not decided: exact
interpolation through the data (scipy), rasterisation of the line, rounding.

R1  axis agreement (raster: grid axes rows(shape[0]), columns(shape[1]) <-> call
    (y, x), y checked against shape[0], x against shape[1]; sparse: points
    (column 0, column 1) -> column 2, called as (x, y), linear interpolant, fill 0);
R2  get_depth_at = scale * interpolator value; 0.0 outside the raster;
R3  every path sample is (x, y, get_depth_at(x, y)) of the same x, y;
R4  filter semantics, by re-simulation against the decisions of each abstract path;
R5  both map classes are held to the same rules (sibling agreement).
"""
from __future__ import annotations

import ast
import re

from ..driver import World
from ..interp import Frame
from ..model import Program, AnalysisError
from ..poly import Poly
from ..traceutil import decisions_text, calls
from ..values import *

DATA = Unk("data", "array")


def construction_events(P, cls_name):
    """EXT events of one completing abstract path of the constructor."""
    W = World(P, cls_name, root_label="hm", ctor_args=[DATA])
    I = W.I
    node = ast.parse("0").body[0]

    def entry(I_, _):
        I_.frames = [Frame(None, W.cls.module, {}, qualname="<entry>")]
        try:
            return I_.instantiate(W.cls, [DATA], {}, node)
        finally:
            I_.frames = []
    for path in I.explore(lambda I: None, entry, max_dev=None, max_paths=200):
        if path.outcome == "return":
            return W, [e for e in path.trace if e.kind == "EXT"], path
    raise AnalysisError(f"C19: constructor of {cls_name} has no completing abstract path")


def tagof(v):
    return v.tag if isinstance(v, Unk) else repr(v)


def raster_rules(check, P):
    W, evs, cpath = construction_events(P, "RasterHeightMap")
    I = W.I
    by_result = {tagof(e.data.get("result")): e for e in evs}
    spl = [e for e in evs if isinstance(e.data.get("callee"), ExtV) and e.data["callee"].name.endswith("RectBivariateSpline")]
    if len(spl) != 1:
        check.violation("R1", "raster:interpolator-kind", f"the raster map builds {len(spl)} RectBivariateSpline interpolators (constructor calls: {[tagof(e.data['callee']) for e in evs][:8]})", [])
        return 0
    a = spl[0].data["args"]
    axes = []
    for g in a[:2]:
        ev = by_result.get(tagof(g))
        src = tagof(ev.data["args"][0]) if ev is not None and ev.data["args"] else tagof(g)
        m = re.search(r"shape\[(\d)\]|shape,Const\((\d)\)", src)
        axes.append(int(m.group(1) or m.group(2)) if m else None)
    if axes == [0, 1]:
        check.ok("R1", "raster: grid axes are (arange(shape[0]) = rows, arange(shape[1]) = columns)")
    else:
        check.violation("R1", "raster:grid-axes", f"RectBivariateSpline is built on axes taken from shape indices {axes}, expected [0, 1] (rows, columns)", [])
    x, y = Num(Poly.sym("arg.x")), Num(Poly.sym("arg.y"))
    n = 0
    inside = 0
    for path in I.explore(lambda I: None, lambda I_, _: W.call_method(I_, "hm", "get_depth_at", (x, y)), max_dev=None):
        n += 1
        d = [decisions_text(path)]
        if path.outcome != "return":
            check.violation("R2", f"raster:raises:{path.value.cls}", f"get_depth_at raises {path.value.cls}", d)
            continue
        cmp_ = {}
        for k, v in path.decisions:
            m = re.match(r"cmp:(GtE|Gt|Lt|LtE):Num\(arg\.(x|y)\):Unk\(item\(hm\._height_map\.shape,Const\((\d)\)\)\)", k)
            if m:
                cmp_[m.group(2)] = (m.group(1), int(m.group(3)), v)
        neg = {k.split(":")[2].split(".")[1]: v for k, v in path.decisions if re.fullmatch(r"cmp:Lt:arg\.[xy]", k)}
        calls_ = [e for e in path.trace if e.kind == "EXT" and tagof(e.data.get("callee")) == "hm._interpolator"]
        out = (neg.get("x") is True or neg.get("y") is True or any(c[2] is True for c in cmp_.values()))
        if out:
            if path.value == Const(0.0) and not calls_:
                check.ok("R2", "raster: zero outside the image")
            else:
                check.violation("R2", "raster:outside-not-zero", f"get_depth_at returns {path.value!r} for a point outside the image", d)
            continue
        inside += 1
        if cmp_.get("x", (None, None))[1] != 1 or cmp_.get("y", (None, None))[1] != 0 or cmp_["x"][0] != "GtE" or cmp_["y"][0] != "GtE":
            check.violation("R1", "raster:range-axes", f"x must be rejected at >= shape[1] (columns) and y at >= shape[0] (rows); the in-range path compares {cmp_}", d)
        elif "x" not in neg or "y" not in neg:
            check.violation("R1", "raster:negative-not-rejected", "negative coordinates are not range-checked", d)
        else:
            check.ok("R1", "raster: x in [0, columns), y in [0, rows)")
        if len(calls_) == 1 and calls_[0].data["args"] == (y, x):
            check.ok("R1", "raster: interpolator called as (y, x), matching its (rows, columns) grid")
        else:
            check.violation("R1", "raster:call-order", f"the interpolator is called with {[e.data['args'] for e in calls_]}, its grid is (rows, columns): expected (y, x)", d)
        r = path.value
        if isinstance(r, Unk) and re.fullmatch(r"mult\(hm\._scale_z, item\(ret\(hm\._interpolator\)#\d+,\(Const\(0\), Const\(0\)\)\)\)", r.tag):
            check.ok("R2", "raster: scale * interpolator(y, x)[0, 0]")
        else:
            check.violation("R2", "raster:scale", f"get_depth_at returns {r!r}, expected scale_z * interpolator(y, x)[0, 0]", d)
    check.floor(inside >= 1, "C19: raster get_depth_at has no in-range path")
    return n


def normalisation_rule(check, P):
    """R6: stored heights are the samples divided by the full scale of the image's *type*."""
    W = World(P, "RasterHeightMap", root_label="hm", ctor_args=[DATA])
    I = W.I
    img = Unk("arg.image", "array")
    n = 0
    seen = {}
    for path in I.explore(lambda I_: None, lambda I_, _: W.call_method(I_, "hm", "_to_height_map", (img,)), max_dev=None, max_paths=200):
        n += 1
        d = [decisions_text(path)]
        if path.outcome != "return":
            check.violation("R6", f"raster:normalise-raises:{path.value.cls}", f"_to_height_map raises {path.value.cls}", d)
            continue
        div = [e for e in path.trace if e.kind == "EXT" and isinstance(e.data.get("callee"), ExtV) and e.data["callee"].name in ("numpy.divide", "numpy.true_divide")]
        saved = I.heap
        I.heap = path.heap
        try:
            ok_shape = len(div) == 1 and div[0].data["args"][:1] == (img,) and I.tag(path.value) == I.tag(div[0].data.get("result"))
            divisor = div[0].data["args"][1] if ok_shape and len(div[0].data["args"]) > 1 else None
            what = I.tag(path.value)[:80]
        finally:
            I.heap = saved
        if not ok_shape or not (isinstance(divisor, Const) and isinstance(divisor.v, (int, float))):
            check.undecided("R6", f"raster: normalisation not recognised ({what})")
            continue
        other = [k for k, _ in path.decisions if "arg.image" in k and "arg.image.dtype" not in k]
        if other:
            check.violation("R6", "raster:divisor-from-data", f"_to_height_map chooses its divisor ({divisor.v:g}) by looking at the samples ({other[0][:90]}): "
                            "a dark 16-bit image is then normalised like an 8-bit one; the full scale must follow from the sample type alone", d)
            continue
        is16 = [v for k, v in path.decisions if "uint16" in k and "arg.image.dtype" in k]
        if len(is16) != 1:
            check.undecided("R6", f"raster: the divisor {divisor.v:g} is not selected by a single test of the sample type")
            continue
        seen[is16[0]] = float(divisor.v)
    if seen == {True: 65535.0, False: 255.0}:
        check.ok("R6", "raster: samples / 65535 for uint16 images, / 255 otherwise, selected by the dtype alone")
    elif seen:
        check.violation("R6", "raster:full-scale", f"_to_height_map divides by {seen.get(True)} for uint16 images and by {seen.get(False)} otherwise; expected 65535 and 255", [])
    check.floor(n >= 2, "C19.R6: _to_height_map has fewer than two abstract paths")
    return n


FIRST_ROWS = [  # first line of a data file -> is it a row of numbers (must be loaded) or a header (may be skipped)
    ("-10.0,-10.0,1.5", True), ("+5,0,2", True), ("1e-3,2,3", True), ("10,20,0.5", True), (".5,1,2", True), ("0,0,0", True),
    ("X,Y,Z", False), ("x [mm],y [mm],z [mm]", False),
]


def loading_rule(check, P):
    """R7: every row of numbers in a CSV/TSV file becomes a stored sample (numpy.loadtxt is not told to skip data)."""
    from ..interp import Interp, Frame, AbsRaise
    f = P.func("SparseHeightMap.from_path")
    ci = P.cls("SparseHeightMap")
    n = 0
    for line, is_data in FIRST_ROWS:
        I = Interp(P)
        I.ext_quiet = lambda tag: "logger" in tag
        seen = []

        def ext_result(I_, callee, args, kwargs, node, line=line):
            t = I_.tag(callee)
            if t.endswith(".readline"):
                return Const(line + "\n")
            if t.endswith(".readlines"):
                return I_.alloc(AList([Const(line + "\n"), Const("1,2,3\n")]))
            if t.endswith(".read"):
                return Const(line + "\n1,2,3\n")
            if isinstance(callee, ExtV) and callee.name == "numpy.loadtxt":
                seen.append({k: v for k, v in kwargs.items() if k != "**"})
                return Unk("loaded-rows", "array")
            return None
        I.ext_result = ext_result
        I.intrinsics["SparseHeightMap"] = lambda I_, fv, a, k, node: Unk("map", "object")

        def entry(I_, _):
            I_.frames = [Frame(None, f.module, {}, qualname="<entry>")]
            try:
                return I_.call_function(f, [ClassV(ci), Const("probe.csv")], {}, f.node)
            finally:
                I_.frames = []
        before = len(seen)
        for path in I.explore(lambda I_: None, entry, max_dev=None, max_paths=300):
            n += 1
        calls_ = seen[before:]
        if not calls_:
            check.undecided("R7", f"first row {line!r}: from_path does not load the file with numpy.loadtxt")
            continue
        skips = set()
        for kw in calls_:
            sk = kw.get("skiprows", Const(0))
            skips.add(sk.v if isinstance(sk, Const) else ("?" if not isinstance(sk, Num) or not sk.p.is_const() else int(sk.p.const_value())))
            for bad in ("max_rows", "usecols"):
                if bad in kw:
                    skips.add(f"{bad}=...")
        if is_data and skips == {0}:
            check.ok("R7", f"first row {line!r} (numbers): loaded, no row skipped")
        elif is_data:
            check.violation("R7", "sparse:data-row-skipped", f"a file whose first row is {line!r} is loaded with skiprows/limits {sorted(map(str, skips))}: "
                            "a row of numbers is dropped, the stored sample is lost and the map returns 0 or a neighbour's height there", [])
        else:
            check.ok("R7", f"first row {line!r} (titles): skiprows {sorted(map(str, skips))}")
    return n


def sparse_rules(check, P):
    W, evs, cpath = construction_events(P, "SparseHeightMap")
    I = W.I
    lin = [e for e in evs if isinstance(e.data.get("callee"), ExtV) and "Interpolator" in e.data["callee"].name]
    if len(lin) != 1 or not lin[0].data["callee"].name.endswith("LinearNDInterpolator"):
        check.violation("R1", "sparse:interpolator-kind", f"the sparse map is built on {[e.data['callee'].name for e in lin]}; only a piecewise-linear interpolant stays between the stored minimum and maximum", [])
        return 0
    e = lin[0]
    saved = I.heap
    I.heap = cpath.heap
    pts = I.tag(e.data["args"][0]) if e.data["args"] else ""
    zs = I.tag(e.data["args"][1]) if len(e.data["args"]) > 1 else I.tag(e.data["kwargs"].get("values", NONE))
    I.heap = saved
    cols = re.findall(r"slice, Const\((\d)\)\)", pts)
    colz = re.findall(r"Const\((\d)\)", zs)
    if cols[:2] == ["0", "1"] and colz[-1:] == ["2"]:
        check.ok("R1", "sparse: points = zip(column 0, column 1), values = column 2")
    else:
        check.violation("R1", "sparse:columns", f"the interpolator is built from point columns {cols[:2]} and value column {colz[-1:]}; expected (0, 1) -> 2", [pts[:200], zs[:120]])
    fv = e.data["kwargs"].get("fill_value")
    if fv == Const(0.0) or fv == Const(0):
        check.ok("R1", "sparse: fill_value 0 outside the data")
    else:
        check.violation("R1", "sparse:fill-value", f"outside the convex hull the interpolator yields fill_value={fv!r}, the map must read zero", [])
    x, y = Num(Poly.sym("arg.x")), Num(Poly.sym("arg.y"))
    n = 0
    for path in I.explore(lambda I: None, lambda I_, _: W.call_method(I_, "hm", "get_depth_at", (x, y)), max_dev=None):
        n += 1
        d = [decisions_text(path)]
        calls_ = [ev for ev in path.trace if ev.kind == "EXT" and tagof(ev.data.get("callee")) == "hm._interpolator"]
        if path.outcome == "return" and len(calls_) == 1 and calls_[0].data["args"] == (x, y):
            check.ok("R1", "sparse: interpolator called as (x, y)")
        else:
            check.violation("R1", "sparse:call-order", f"the interpolator is called with {[ev.data['args'] for ev in calls_]}, it was built on (x, y) points", d)
        r = path.value
        if isinstance(r, Unk) and re.fullmatch(r"mult\(hm\._scale_z, ret\(hm\._interpolator\)#\d+\)", r.tag):
            check.ok("R2", "sparse: scale * interpolator(x, y)")
        else:
            check.violation("R2", "sparse:scale", f"get_depth_at returns {r!r}, expected scale_z * interpolator(x, y)", d)
    return n


def pairing_and_filter(check, P, cls_name, n_samples=4):
    W = World(P, cls_name, root_label="hm", ctor_args=[DATA])
    I = W.I
    short = "raster" if cls_name.startswith("Raster") else "sparse"
    n = 0
    # ---- R3 pairing: get_depth_at replaced by a recorder
    I.intrinsics[f"{cls_name}.get_depth_at"] = lambda I_, fv, a, k, node: (I_.emit("CALL", node, func="get_depth_at", args=tuple(a), kwargs=dict(k)),
                                                                          Unk(f"depth({I_.tag(a[1])},{I_.tag(a[2])})", "num"))[1]
    line = Unk("arg.line", "array")
    I.loop_unroll = 2
    paired = 0
    for path in I.explore(lambda I: None, lambda I_, _: W.call_method(I_, "hm", "_interpolate_line", (line,)), max_dev=None, max_paths=500):
        n += 1
        if path.outcome != "return":
            continue
        arr = [e for e in path.trace if e.kind == "EXT" and isinstance(e.data.get("callee"), ExtV) and e.data["callee"].name == "numpy.array"]
        if not arr:
            r = path.value
            items = list(r.items) if isinstance(r, ArrV) else None
        else:
            saved = I.heap
            I.heap = path.heap
            a0 = arr[-1].data["args"][0]
            items = list(I.deref(a0).items) if isinstance(a0, Ref) and isinstance(I.heap.get(a0.addr), AList) and I.deref(a0).items is not None else None
            I.heap = saved
        if isinstance(path.value, ArrV):
            items = list(path.value.items)
        direct = [e for e in path.trace if e.kind == "EXT" and tagof(e.data.get("callee")) == "hm._interpolator"]
        if direct and short == "raster":
            # the raster map must read zero outside the image: get_depth_at range-checks before it evaluates the
            # spline; a direct evaluation of the spline for path samples skips that rule
            paired += 1
            check.violation("R2", f"{short}:samples-bypass-range-check",
                            f"_interpolate_line evaluates the interpolator directly ({I.tag(direct[0].data['args'][0])[:60]}, ...) instead of through get_depth_at: "
                            "samples outside the image carry the clamped edge height instead of zero", [decisions_text(path)])
            continue
        stacks = [e for e in path.trace if e.kind == "NOTE" and e.data.get("what") == "column_stack" and len(e.data.get("items", ())) == 3]
        if direct and not items and stacks:
            # vectorised form: column_stack((xs, ys, heights)) with one interpolator call for all samples
            xs, ys, hs = stacks[-1].data["items"]
            call = direct[-1].data
            saved = I.heap
            I.heap = path.heap
            try:
                res = I.tag(call.get("result"))
                same_xy = [I.tag(a) for a in call["args"][:2]] == [I.tag(xs), I.tag(ys)]
                ht = I.tag(hs)
                scaled = ht in (f"mult(hm._scale_z, {res})", f"mult({res}, hm._scale_z)")
            finally:
                I.heap = saved
            paired += 1
            if not same_xy:
                check.violation("R3", f"{short}:sample-pairing", f"the samples pair ({I.tag(xs)[:50]}, {I.tag(ys)[:50]}) with heights evaluated at other coordinates", [decisions_text(path)])
            elif scaled:
                check.ok("R3", f"{short}: samples (xs, ys, scale * interpolator(xs, ys)), vectorised")
            elif ht == res:
                check.violation("R3", f"{short}:samples-unscaled",
                                "_interpolate_line pairs the samples with the raw interpolator values instead of get_depth_at(x, y) = scale * value: "
                                "the tolerance filter compares unscaled heights", [decisions_text(path)])
            else:
                check.undecided("R3", f"{short}: vectorised sample heights {ht[:80]} not recognised")
                check.floor(False, f"C19.R3: {cls_name}._interpolate_line builds its samples in a form the analysis does not recognise")
            continue
        if not items and stacks and not direct:
            # column form through get_depth_at: column_stack((xs, ys, [get_depth_at(x, y) for x, y in zip(xs, ys)]))
            xs, ys, ds = stacks[-1].data["items"]
            saved = I.heap
            I.heap = path.heap
            try:
                tx, ty = I.tag(xs), I.tag(ys)
                dl = I.deref(ds).items if isinstance(ds, Ref) and isinstance(I.heap.get(ds.addr), AList) else None
                got = [I.tag(x) for x in dl] if dl is not None else None
            finally:
                I.heap = saved
            if got is None:
                check.undecided("R3", f"{short}: the heights column of the samples is not a list the analysis can follow")
                continue
            want = [f"depth(elem(zip({tx}, {ty}))#{i}[0],elem(zip({tx}, {ty}))#{i}[1])" for i in range(len(got))]
            paired += 1
            if got == want:
                check.ok("R3", f"{short}: samples (xs, ys, [depth(x, y) for x, y in zip(xs, ys)]), {len(got)} unrolled")
            else:
                bad = next((g for g, w in zip(got, want) if g != w), got[:1])
                check.violation("R3", f"{short}:sample-pairing", f"the samples pair the coordinates ({tx[:40]}, {ty[:40]}) with heights {str(bad)[:160]}: not the map's height at the same location", [decisions_text(path)])
            continue
        if not items and not stacks:
            # row-fill form: out = numpy.empty((n, 3)); out[i] = (x, y, depth) for every sample; return out
            fills = [e for e in path.trace if e.kind == "MUT" and e.data.get("method") == "__setitem__" and e.data.get("obj") == path.value
                     and len(e.data.get("args", ())) == 2 and isinstance(e.data["args"][1], Tup)]
            if fills:
                items = [e.data["args"][1] for e in fills]
        if not items:
            continue
        for t in items:
            if not (isinstance(t, Tup) and len(t.items) == 3):
                check.violation("R3", f"{short}:sample-shape", f"a path sample is {t!r}, expected (x, y, depth)", [])
                continue
            xx, yy, zz = t.items
            want = f"depth({I.tag(xx)},{I.tag(yy)})"
            if isinstance(zz, Unk) and zz.tag == want:
                check.ok("R3", f"{short}: sample (x, y, depth(x, y))")
                paired += 1
            else:
                check.violation("R3", f"{short}:sample-pairing", f"a path sample pairs ({I.tag(xx)}, {I.tag(yy)}) with {I.tag(zz)}: not the map's height at that location", [decisions_text(path)])
                paired += 1
    check.floor(paired >= 1, f"C19.R3: no path sample analysed for {cls_name}")
    del I.intrinsics[f"{cls_name}.get_depth_at"]
    # ---- R3 composition: sample_path = filter(interpolate(line), tolerance), returned untouched
    SAMPLES, KEPT = Unk("samples-of-the-line", "array"), Unk("kept-samples", "array")
    seen_calls = []

    def rec(tag, result):
        def h(I_, fv, a, k, node):
            I_.emit("CALL", node, func=tag, args=tuple(a), kwargs=dict(k))
            return result
        return h
    I.intrinsics[f"{cls_name}._interpolate_line"] = rec("_interpolate_line", SAMPLES)
    I.intrinsics[f"{cls_name}._filter_points"] = rec("_filter_points", KEPT)
    composed = 0
    for path in I.explore(lambda I: None, lambda I_, _: W.call_method(I_, "hm", "sample_path", (Unk("arg.line", "array"),)), max_dev=None, max_paths=200):
        n += 1
        if path.outcome != "return":
            continue
        composed += 1
        ci = [e for e in path.trace if e.kind == "CALL" and e.data.get("func") == "_interpolate_line"]
        cf = [e for e in path.trace if e.kind == "CALL" and e.data.get("func") == "_filter_points"]
        muts = [e for e in path.trace if e.kind == "MUT" and e.data.get("obj") in (SAMPLES, KEPT)]
        saved = I.heap
        I.heap = path.heap
        try:
            ok = (len(ci) == 1 and len(cf) == 1 and cf[0].data["args"][1:2] == (SAMPLES,)
                  and [I.tag(x) for x in cf[0].data["args"][2:]] + [I.tag(v) for v in cf[0].data["kwargs"].values()] == ["hm._tolerance"]
                  and path.value == KEPT and not muts)
            what = (f"interpolate x{len(ci)}, filter{tuple(I.tag(x)[:40] for x in cf[0].data['args'][1:]) if cf else '()'} x{len(cf)}, returns {I.tag(path.value)[:60]}"
                    + (f", modifies the samples afterwards ({muts[0].data.get('method')})" if muts else ""))
        finally:
            I.heap = saved
        if ok:
            check.ok("R3", f"{short}: sample_path returns _filter_points(_interpolate_line(line), tolerance) untouched")
        else:
            check.violation("R3", f"{short}:sample-path-composition", f"sample_path does not return the tolerance-filtered samples of the line as they are: {what}", [decisions_text(path)])
    check.floor(composed >= 1, f"C19.R3: sample_path of {cls_name} has no accepting path")
    del I.intrinsics[f"{cls_name}._interpolate_line"]
    del I.intrinsics[f"{cls_name}._filter_points"]
    # ---- R4 filter
    I.loop_unroll = 1
    pts = [Tup((Num(Poly.sym(f"x{i}")), Num(Poly.sym(f"y{i}")), Num(Poly.sym(f"z{i}")))) for i in range(n_samples)]
    tol = Num(Poly.sym("tol"))
    orig = I.ext_result

    def ext_result(I_, callee, args, kwargs, node):
        if isinstance(callee, ExtV) and callee.name == "numpy.array_equal":
            return Const(args[0] == args[1])
        return orig(I_, callee, args, kwargs, node)
    I.ext_result = ext_result
    filt = 0

    def entry(I_, _):
        lst = I_.alloc(AList(list(pts)))
        return W.call_method(I_, "hm", "_filter_points", (lst, tol))
    for path in I.explore(lambda I: None, entry, max_dev=None, max_paths=100000):
        n += 1
        d = [decisions_text(path, 20)]
        if path.outcome != "return":
            check.violation("R4", f"{short}:filter-raises", f"_filter_points raises {path.value.cls}", d)
            continue
        r = path.value
        got = list(r.items) if isinstance(r, ArrV) else None
        if got is None:
            check.violation("R4", f"{short}:filter-result", f"_filter_points returns {r!r}", d)
            continue
        filt += 1
        # re-simulate: a point is kept iff the path decided |z_i - z_lastkept| >= tol
        kept = [0]
        last = 0
        consistent = True
        for i in range(len(pts)):
            diff = Poly.sym(f"z{i}") - Poly.sym(f"z{last}")
            dec = None
            if diff.is_zero():
                dec = _zero_vs_tol(path.facts)
            else:
                for k, v in path.decisions:
                    if k.startswith("cmp:") and "tol" in k and ("abs(" in k) and _mentions_diff(k, i, last):
                        op = k.split(":")[1]
                        if op not in ("GtE", "Lt"):
                            check.violation("R4", f"{short}:filter-boundary", f"_filter_points decides with '{op}': a sample exactly one tolerance away "
                                            "from the previously kept one must be kept (it is dropped only when it differs by less than the tolerance)", d)
                        dec = v if op in ("GtE", "Gt") else (not v)
                        break
                    if k.startswith("cmp:") and "tol" in k and _mentions_diff(k, i, last) and "abs(" in k:
                        pass
            if dec is None and not diff.is_zero():
                consistent = False
                break
            if dec:
                kept.append(i)
                last = i
        if not consistent:
            check.violation("R4", f"{short}:filter-reference", "_filter_points does not compare each sample with the previously *kept* sample "
                            "(no decision |z_i - z_lastkept| >= tolerance found on this path)", d)
            continue
        want = [pts[i] for i in kept]
        if want[-1] != pts[-1]:
            want.append(pts[-1])
        if want[0] == want[1:2] and False:
            pass
        # the first point is appended unconditionally and visited again by the loop with difference 0
        if got == want or got == _dedupe_first(want):
            check.ok("R4", f"{short}: kept {['p%d' % pts.index(p) for p in got]}")
        else:
            check.violation("R4", f"{short}:filter-semantics",
                            f"_filter_points keeps {['p%d' % pts.index(p) if p in pts else repr(p) for p in got]}; by the decisions of this path "
                            f"(first kept, keep iff |z - z_lastkept| >= tol, last appended) it should keep {['p%d' % pts.index(p) for p in want]}", d)
    check.floor(filt >= 4, f"C19.R4: only {filt} filter paths for {cls_name}")
    I.ext_result = orig
    return n


def _mentions_diff(key, i, last):
    a, b = f"z{i}", f"z{last}"
    m = re.search(r"abs\(([^)]*)\)", key)
    if not m:
        return False
    inner = m.group(1)
    names = set(re.findall(r"z\d", inner))
    return names == {a, b}


def _zero_vs_tol(facts):
    # |0| >= tol  <=>  tol <= 0 ; decided by a comparison of tol with 0
    for k, v in facts.items():
        if k in ("cmp:Gt:tol",):
            return not v
        if k == "cmp:Lt:tol":
            return True if v else None
    return False


def _dedupe_first(want):
    return want


def run(check, repo, tier):
    check.rule("R1", "axis agreement between interpolator construction and call; range checks x: columns, y: rows; sparse: (col0, col1) -> col2, linear, fill 0")
    check.rule("R2", "get_depth_at = scale * interpolator value; zero outside the raster")
    check.rule("R3", "every path sample is (x, y, get_depth_at(x, y)) of the same x and y")
    check.rule("R4", "tolerance filter: first kept, keep iff |z - z_lastkept| >= tolerance, last appended once")
    P = Program(repo)
    check.rule("R6", "raster maps store sample / full scale of the sample type (65535 for uint16, 255 otherwise), chosen by the dtype alone")
    check.rule("R7", "loading: every row of numbers of a CSV/TSV file becomes a stored sample (first rows starting with a sign, a dot or an exponent are data)")
    n = raster_rules(check, P) + sparse_rules(check, P) + normalisation_rule(check, P) + loading_rule(check, P)
    for cls in ("RasterHeightMap", "SparseHeightMap"):
        n += pairing_and_filter(check, P, cls, 6 if tier == "thorough" else 4)
    check.analysed = {"program": P.stats(), "abstract_paths": n, "classes": ["RasterHeightMap", "SparseHeightMap"]}
    check.sample({"class": "RasterHeightMap", "construction": "RectBivariateSpline(arange(shape[0]), arange(shape[1]), map)", "call": "interpolator(y, x)", "range": "x < shape[1], y < shape[0]"})
    check.coverage["exhaustive"] = True
    check.explanation = (
        "The heightmap classes are executed abstractly with the image / point data opaque: constructor calls of the scipy "
        "interpolators and calls on the interpolator are external calls recorded with their arguments, so which shape index feeds "
        "which grid axis, which coordinate is compared with which shape index and the (y, x) / (x, y) call order are read off the "
        "paths; the filter is run on four symbolic samples and its result compared with a re-simulation driven by the path's own "
        "comparison outcomes.")
    check.assume("scipy interpolants pass through their data; draw.line and rounding of line ends are not modelled")
    check.assume("the filter is checked on sample lists of length four (its loop body is the same for every element)")
