"""C13 -- transform states are saved, restored and inverted exactly.

Decided part (static): ownership and discipline of the saved states, by
abstract execution of *call sequences* on a CoordinateTransformer whose heap
is modelled object by object (so aliasing is visible): no saved state can be
changed through the live transform, save/restore follow stack order, the
context managers put back transform and stack on normal and exceptional exit.
Not decided: numeric round-trip error of linalg.inv, fixed pivot (numeric);
the algebraic part (pivot conjugation, inverse pairing) is C04.R4/R5.

R1  a named state is an immutable snapshot: save(name); restore(name);
    <mutate>; restore(name) gives the saved mapping again; mutating the live
    transform after save never changes what a later restore yields;
R2  stack order: save A; <mutate>; save B; <mutate>; restore -> B; restore -> A;
    restore on an empty stack raises IndexError; delete_state removes a name;
R3  current_transform()/named_transform(): transform *and* stack on exit are
    those on entry, for a body that mutates both, returning or raising.
"""
from __future__ import annotations

import ast

from ..driver import World
from ..interp import Frame, GenCM, AbsRaise, _Return
from ..model import Program, AnalysisError
from ..traceutil import decisions_text
from ..values import *


def matrix_of(I, heap, tref):
    o = heap.get(tref.addr) if isinstance(tref, Ref) else None
    if not isinstance(o, AObj):
        return None
    saved = I.heap
    I.heap = heap
    try:
        return (I.tag(o.fields.get("_matrix")), I.tag(o.fields.get("_inverse")), I.tag(o.fields.get("_from_pivot")), I.tag(o.fields.get("_to_pivot")), I.tag(o.fields.get("_pivot")))
    finally:
        I.heap = saved


def current(I, W, heap):
    xf = heap[W.ref("xf").addr]
    return xf.fields.get("_current_transform")


def sequences_on_transformer(check, P):
    W = World(P, "CoordinateTransformer", root_label="xf", keep_fields=("xf._transforms_stack", "xf._named_transforms"))
    I = W.I
    node = ast.parse("0").body[0]
    M1, M2 = Unk("arg.M1", "array"), Unk("arg.M2", "array")
    name = Const("a")
    n_paths = 0

    def snap(I):
        return matrix_of(I, I.heap, current(I, W, I.heap))

    def run(label, body, rid):
        nonlocal n_paths
        results = []
        completed = 0
        for path in I.explore(lambda I: None, body, max_dev=None, max_paths=5000):
            n_paths += 1
            if path.outcome != "return":
                continue
            completed += 1
            verdicts = path.value
            for ok, key, msg in verdicts:
                if ok:
                    check.ok(rid, f"{label}: {msg}")
                else:
                    check.violation(rid, f"{label}:{key}", f"sequence '{label}': {msg}", [decisions_text(path)])
        check.floor(not (completed == 0), f"C13: sequence '{label}' has no completing abstract path")

    def call(I, meth, *args, **kw):
        return W.call_method(I, "xf", meth, args, kw)

    # ---- R1: named snapshot immutability
    def named_seq(I, _):
        call(I, "chain_transform", M1)
        s0 = snap(I)
        call(I, "save_state", name)
        call(I, "restore_state", name)
        s1 = snap(I)
        call(I, "chain_transform", M2)            # mutate the live transform after a restore
        call(I, "restore_state", name)
        s2 = snap(I)
        call(I, "chain_transform", M2)
        call(I, "set_pivot", NT("Point", ("x", "y", "z"), (Const(1.0), Const(2.0), Const(3.0))))
        call(I, "restore_state", name)
        s3 = snap(I)
        return [(s1 == s0, "restore-differs", f"restore(name) right after save(name) yields {'the saved mapping' if s1 == s0 else 'a different mapping'}"),
                (s2 == s0, "named-state-mutated", "restoring a named state a second time, after the live transform was changed, "
                 + ("yields the saved mapping again" if s2 == s0 else f"yields a changed mapping: matrix {s2[0]} instead of {s0[0]} (the saved object is aliased by the live transform)")),
                (s3 == s0, "named-state-mutated-pivot", "a third restore after further matrix and pivot changes " + ("is still the snapshot" if s3 == s0 else "is not the snapshot any more"))]
    run("save(a); restore(a); mutate; restore(a)", named_seq, "R1")

    def save_then_mutate(I, _):
        call(I, "chain_transform", M1)
        s0 = snap(I)
        call(I, "save_state", name)
        call(I, "chain_transform", M2)            # mutate after save, before any restore
        call(I, "restore_state", name)
        s1 = snap(I)
        call(I, "save_state")                      # unnamed
        call(I, "chain_transform", M2)
        call(I, "restore_state")
        s2 = snap(I)
        return [(s1 == s0, "save-aliases-live", "a named save " + ("is a copy" if s1 == s0 else "aliases the live transform: later changes leak into the snapshot")),
                (s2 == s0, "stack-save-aliases-live", "an unnamed save " + ("is a copy" if s2 == s0 else "aliases the live transform"))]
    run("save; mutate; restore", save_then_mutate, "R1")

    # ---- R2: stack order
    def stack_seq(I, _):
        call(I, "chain_transform", M1)
        a = snap(I)
        call(I, "save_state")
        call(I, "chain_transform", M2)
        b = snap(I)
        call(I, "save_state")
        call(I, "chain_transform", M1)
        call(I, "restore_state")
        r1 = snap(I)
        call(I, "restore_state")
        r2 = snap(I)
        emptied = None
        try:
            call(I, "restore_state")
            emptied = "no exception"
        except AbsRaise as e:
            emptied = e.exc.cls
        return [(r1 == b, "lifo-first", "the first restore yields " + ("the most recent save" if r1 == b else "something else than the most recent save")),
                (r2 == a, "lifo-second", "the second restore yields " + ("the older save" if r2 == a else "something else than the older save")),
                (emptied == "IndexError", "empty-stack", f"restoring from an empty stack gives {emptied}, expected IndexError")]
    run("save A; save B; restore; restore; restore", stack_seq, "R2")

    def delete_seq(I, _):
        call(I, "save_state", name)
        call(I, "delete_state", name)
        try:
            call(I, "restore_state", name)
            r = "no exception"
        except AbsRaise as e:
            r = e.exc.cls
        return [(r == "KeyError", "delete", f"restoring a deleted name gives {r}, expected KeyError")]
    run("save(a); delete(a); restore(a)", delete_seq, "R2")
    return n_paths


def context_managers(check, P):
    W = World(P, "GCodeBuilder", keep_fields=("xf._transforms_stack", "xf._named_transforms"))
    I = W.I
    node = ast.parse("0").body[0]
    M = Unk("arg.M", "array")
    n = 0

    def stack_sig(I):
        xf = I.heap[W.ref("xf").addr]
        r = xf.fields.get("_transforms_stack")
        o = I.heap.get(r.addr) if isinstance(r, Ref) else None
        if not isinstance(o, AList) or o.items is None:
            return "opaque"
        return tuple(matrix_of(I, I.heap, x) for x in o.items)

    def cur_sig(I):
        return matrix_of(I, I.heap, current(I, W, I.heap))

    for cm_name, args in (("current_transform", {}), ("named_transform", {"name": Const("a")})):
        f = W.public_methods()[cm_name]
        for body_kind, pop_first in (("return", False), ("raise", False), ("return", True), ("raise", True)):
            def entry(I, _, cm_name=cm_name, args=args, body_kind=body_kind, pop_first=pop_first):
                W.call_method(I, "xf", "chain_transform", (M,))
                W.call_method(I, "xf", "save_state", ())                 # one entry on the stack
                if cm_name == "named_transform":
                    W.call_method(I, "xf", "save_state", (Const("a"),))
                    # the live transform on entry must differ from the named state
                    W.call_method(I, "xf", "chain_transform", (Unk("arg.M3", "array"),))
                before = (cur_sig(I), stack_sig(I))
                cm = W.call_entry(I, f, dict(args))
                gfr = cm.frame
                inside = {}

                def body(val):
                    inside["cur"] = cur_sig(I)
                    # pop the entry saved *before* the context and transform it: an unnamed restore installs the
                    # popped object itself, so a snapshot that shares stack entries with the live stack is corrupted
                    if pop_first:
                        W.call_method(I, "xf", "restore_state", ())
                    W.call_method(I, "xf", "chain_transform", (Unk("arg.M2", "array"),))
                    W.call_method(I, "xf", "save_state", ())
                    W.call_method(I, "xf", "save_state", ())
                    W.call_method(I, "xf", "restore_state", ())
                    if body_kind == "raise":
                        I.raise_("BodyError", node, note="with-body raises")
                gfr.yield_cb = body
                I.frames.append(gfr)
                raised = None
                try:
                    try:
                        I.exec_block(cm.func.node.body, gfr)
                    except _Return:
                        pass
                    except AbsRaise as e:
                        raised = e.exc.cls
                finally:
                    I.frames.pop()
                    gfr.yield_cb = None
                after = (cur_sig(I), stack_sig(I))
                return (before, after, raised, inside.get("cur"))
            done = 0
            for path in I.explore(lambda I: None, entry, max_dev=None, max_paths=5000):
                n += 1
                if path.outcome != "return":
                    continue
                before, after, raised, inside = path.value
                done += 1
                label = (f"{cm_name}() with a body that {'pops the outer stack entry, ' if pop_first else ''}mutates transform and stack "
                         f"and {'raises' if body_kind == 'raise' else 'returns'}")
                if body_kind == "raise" and raised is None:
                    check.violation("R3", f"{cm_name}:{body_kind}:swallowed", f"{label}: the body's exception does not propagate (got {raised})", [decisions_text(path)])
                if before[0] == after[0]:
                    check.ok("R3", f"{label}: transform restored")
                else:
                    check.violation("R3", f"{cm_name}:{body_kind}:transform", f"{label}: the transform on exit is {after[0][0]}, on entry it was {before[0][0]}", [decisions_text(path)])
                if before[1] == after[1]:
                    check.ok("R3", f"{label}: stack restored")
                else:
                    check.violation("R3", f"{cm_name}:{body_kind}:stack", f"{label}: the stack on exit has {len(after[1]) if after[1] != 'opaque' else '?'} entries {after[1]}, on entry {before[1]}", [decisions_text(path)])
                if cm_name == "named_transform" and inside != before[0]:
                    pass   # inside the body the named state 'a' is active; saved right before, so equal mapping is expected
            check.floor(not (done == 0), f"C13.R3: {cm_name} ({body_kind}) has no completing path")
    # ---- nested contexts: each exit puts back what was in effect at *its own* entry
    def drive(I, cm, body):
        gfr = cm.frame
        gfr.yield_cb = body
        depth = len(I.frames)
        I.frames.append(gfr)
        raised = None
        try:
            try:
                I.exec_block(cm.func.node.body, gfr)
            except _Return:
                pass
            except AbsRaise as e:
                raised = e.exc.cls
        finally:
            del I.frames[depth:]
            gfr.yield_cb = None
        return raised

    for outer_name, inner_name in (("current_transform", "current_transform"), ("current_transform", "named_transform"), ("named_transform", "current_transform")):
        for inner_raises in (False, True):
            def entry(I, _, outer_name=outer_name, inner_name=inner_name, inner_raises=inner_raises):
                pub = W.public_methods()
                W.call_method(I, "xf", "chain_transform", (M,))
                W.call_method(I, "xf", "save_state", ())
                W.call_method(I, "xf", "save_state", (Const("a"),))
                W.call_method(I, "xf", "chain_transform", (Unk("arg.M3", "array"),))
                args = lambda nme: {"name": Const("a")} if nme == "named_transform" else {}
                before = (cur_sig(I), stack_sig(I))
                seen = {}

                def outer_body(val):
                    W.call_method(I, "xf", "chain_transform", (Unk("arg.M2", "array"),))
                    seen["mid"] = (cur_sig(I), stack_sig(I))
                    inner = W.call_entry(I, pub[inner_name], args(inner_name))

                    def inner_body(v2):
                        W.call_method(I, "xf", "chain_transform", (Unk("arg.M4", "array"),))
                        W.call_method(I, "xf", "save_state", ())
                        if inner_raises:
                            I.raise_("BodyError", node, note="inner with-body raises")
                    seen["inner_raised"] = drive(I, inner, inner_body)
                    seen["after_inner"] = (cur_sig(I), stack_sig(I))
                    W.call_method(I, "xf", "chain_transform", (Unk("arg.M5", "array"),))
                outer = W.call_entry(I, pub[outer_name], args(outer_name))
                drive(I, outer, outer_body)
                after = (cur_sig(I), stack_sig(I))
                return (before, after, seen.get("mid"), seen.get("after_inner"))
            done = 0
            for path in I.explore(lambda I: None, entry, max_dev=None, max_paths=5000):
                n += 1
                if path.outcome != "return":
                    continue
                before, after, mid, after_inner = path.value
                if mid is None or after_inner is None:
                    continue            # the scripted body itself was cut short (the API rejected one of its symbolic matrices)
                done += 1
                label = f"{inner_name}() nested in {outer_name}(), inner body {'raises' if inner_raises else 'returns'}"
                if mid is not None and after_inner == mid:
                    check.ok("R3", f"{label}: the inner exit restores the outer body's transform and stack")
                else:
                    check.violation("R3", f"nested:{outer_name}:{inner_name}:inner-exit", f"{label}: after the inner context the transform / stack are {after_inner}, the outer body had {mid}", [decisions_text(path)])
                if after == before:
                    check.ok("R3", f"{label}: the outer exit restores the transform and stack of its own entry")
                else:
                    check.violation("R3", f"nested:{outer_name}:{inner_name}:outer-exit", f"{label}: after the outer context the transform is {after[0][0]} with stack {after[1]}; "
                                    f"on entry it was {before[0][0]} with stack {before[1]} (the contexts are not re-entrant)", [decisions_text(path)])
            check.floor(done >= 1, f"C13.R3: nested {outer_name}/{inner_name} has no completing path")
    return n


class _Remap:
    """Report the transformer-algebra rules of C04 under this property's rule ids."""

    def __init__(self, check, ids):
        self.check, self.ids = check, ids

    def ok(self, rid, msg):
        self.check.ok(self.ids[rid], msg)

    def undecided(self, rid, what):
        self.check.undecided(self.ids[rid], what)

    def violation(self, rid, key, message, constructs=(), **detail):
        self.check.violation(self.ids[rid], key, message, constructs, **detail)

    def floor(self, cond, message):
        self.check.floor(cond, message.replace("C04.", "C13<-C04."))

    # a whole run() of another property's module can be reported through the proxy: its own bookkeeping is dropped
    def rule(self, rid, text):
        pass

    def sample(self, s_):
        pass

    def assume(self, text):
        pass

    @property
    def coverage(self):
        return {}

    @property
    def samples(self):
        return [None] * 99


def run(check, repo, tier):
    check.rule("R1", "named states are immutable snapshots; saves copy the live transform")
    check.rule("R2", "save/restore follow stack order; empty stack raises IndexError; delete_state removes a name")
    check.rule("R3", "transform context managers restore transform and stack on return and on exception")
    check.rule("R4", "reverse undoes apply: apply multiplies with the stored matrix, reverse with the stored inverse, and the inverse is "
                     "always inv() of the very matrix stored with it; a new matrix is conjugated with the pivot translations -p / +p (rules R4, R5 of C04)")
    check.rule("R5", "rotate / scale / reflect / mirror chain a matrix without translation part (identity outside the upper-left 3x3 block, "
                     "or diagonal), so after conjugation the pivot is a fixed point (rule R6 of C04)")
    P = Program(repo)
    n1 = sequences_on_transformer(check, P)
    n3 = context_managers(check, P)
    from . import c04
    n4 = c04.transformer_rules(_Remap(check, {"R4": "R4", "R5": "R4"}), P)
    n4 += c04.constructor_rules(_Remap(check, {"R6": "R5"}), P)
    check.analysed = {"program": P.stats(), "sequence_paths": n1, "context_manager_paths": n3, "transformer_algebra_paths": n4}
    check.sample({"sequence": "chain(M1); save('a'); restore('a'); chain(M2); restore('a')", "compared": "(matrix, inverse, from_pivot, to_pivot, pivot) value numbers of the live transform"})
    check.sample({"sequence": "with current_transform(): chain(M2); save(); save(); restore(); [raise]", "compared": "live transform and every stack entry, before entry vs after exit"})
    check.coverage["exhaustive"] = True
    check.explanation = (
        "Call sequences over the transformer API are executed by the abstract interpreter with a per-object heap model "
        "(copy.deepcopy allocates, assignment aliases), matrices as value-numbered products; snapshots are compared by the value "
        "numbers of all five fields of the live Transform. An aliasing defect shows as a snapshot whose matrix changes.")
    check.assume("matrix values are opaque symbols / flattened products: equality is equality of the sequence of multiplications")
    check.assume("copy.deepcopy copies every reachable gscrib object")
