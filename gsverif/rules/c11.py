"""C11 -- a toolpath is the same in relative and absolute distance mode.

Deciding method: symbolic equivalence.  Every tracer shape is executed
abstractly twice with the *same absolute waypoints* -- in absolute mode the
target argument is T, in relative mode it is T - O -- and the closed-form curve
it hands to ``parametric`` (polynomials over the inputs and uninterpreted
cos/sin/hypot/arctan2 applications, evaluated at a symbolic parameter), the
length, the forwarded keyword arguments and the rejection behaviour must be
identical in the two modes, for both directions.  The per-sample emission
(sample -> to_distance_mode -> move) is executed with the real ``move`` and
an RS274 machine model in both modes: the machine visits the same points.
Plain moves, absolute-bypass moves and the mode context managers are covered
by the inductive step of C01 (same machine-model argument, both modes).
Not decided: numeric equality of floating-point vertex sequences.

R1  shape equivalence (arc, arc_radius, circle, helix, thread, spiral, spline);
R2  emission equivalence (parametric samples and polyline points reach the same
    machine positions in both modes);
R4  the conversion helpers have their RS274 meaning in both branches (C01.R1).
"""
from __future__ import annotations

import ast

from ..machine import Machine, UNKNOWN
from ..model import Program, AnalysisError
from ..poly import Poly
from ..tracerlab import Lab, AX, O, T, T2, C, pt, row, keys
from ..traceutil import is_writer_delivery, Statement, decisions_text
from ..values import *

SHAPES = ("arc", "arc_radius", "circle", "helix", "thread", "spiral", "spline")


def shape_args(L, shape, dims=3):
    centre = Tup((Num(C[0]), Num(C[1])))
    turns = Num(Poly.sym("arg.turns"), True)

    def mk(I, mode):
        t = L.target(mode, T, dims)
        if shape == "arc":
            return (t, centre), {"F": Num(Poly.sym("kw.F"))}
        if shape == "circle":
            return (centre,), {}
        if shape == "helix":
            return (t, centre, turns), {}
        if shape == "thread":
            return (t, Num(Poly.sym("arg.pitch"))), {}
        if shape == "spiral":
            return (t, turns), {}
        if shape == "arc_radius":
            return (t, Num(Poly.sym("arg.radius"))), {}
        if shape == "spline":
            lst = I.alloc(AList([L.target(mode, T, 3), L.target(mode, T2, 3, prev=T)]))
            return (lst,), {}
        raise AnalysisError(shape)
    return mk


def signature(L, rec):
    """What a shape does: ('raise', cls, site) or ('return', items) with items holding polynomials / tags."""
    I = L.I
    saved = I.heap
    I.heap = rec["heap"]
    try:
        if rec["outcome"] == "raise":
            return ("raise", rec["value"].cls, rec["site"][0] if rec["site"] else "")
        out = []
        for n in rec["parametric"]:
            r = row(n["theta"])
            ln = n["length"]
            out.append(("curve", tuple(r) if r is not None else I.tag(n["theta"]), ln.p if isinstance(ln, Num) else I.tag(ln),
                        tuple(sorted((k, v.p if isinstance(v, Num) else I.tag(v)) for k, v in n["kwargs"].items() if k != "**"))))
        for e in rec["ext"]:
            c = e.data.get("callee")
            if isinstance(c, ExtV) and c.name.endswith("CubicSpline"):
                out.append(("spline", tuple(I.tag(a) for a in e.data["args"])))
        return ("return", tuple(out))
    finally:
        I.heap = saved


def _subst(x, subs):
    if isinstance(x, Poly):
        for sym, val in subs:
            x = x.subs(sym, val)
        return x.key()
    if isinstance(x, tuple):
        return tuple(_subst(y, subs) for y in x)
    return x


def equalities(I, facts):
    """Substitutions s := e implied by the path's equality facts (p == 0 with p linear in a plain input symbol s)."""
    subs = []
    for k, v in facts.items():
        if (k.startswith("cmp:Eq:") and v is True) or (k.startswith("sign:") and v == 0):
            q = I.key_poly.get(k.split(":", 2)[2] if k.startswith("cmp:") else k[5:])
            if q is None:
                continue
            for sym, val in subs:
                q = q.subs(sym, val)
            for s_ in sorted(q.symbols(), key=lambda n: (not n.startswith("t."), not n.startswith("u."), n)):
                if "(" in s_ or s_ in ("theta", "pi"):
                    continue
                c = q.coeff_of(s_)
                rest = q.without(s_)
                if c.is_const() and c.const_value() != 0 and s_ not in rest.symbols():
                    subs.append((s_, rest * Poly.const(-1 / c.const_value())))
                    break
    return subs


def first_difference(a, b):
    if isinstance(a, tuple) and isinstance(b, tuple) and len(a) == len(b):
        for x, y in zip(a, b):
            d = first_difference(x, y)
            if d is not None:
                return d
        return None
    return None if a == b else (a, b)


def compatible(fa, fb):
    return all(fb.get(k, v) == v for k, v in fa.items())


def shape_equivalence(check, L):
    n = 0
    for shape in SHAPES:
        for dims in ((3, 2) if shape in ("arc", "helix") else (3,)):
            for direction in ("CLOCKWISE", "COUNTER"):
                mk = shape_args(L, shape, dims)
                recs = {}
                for mode in ("ABSOLUTE", "RELATIVE"):
                    rs = L.run(shape, mode, direction, mk)
                    n += len(rs)
                    recs[mode] = [(signature(L, r), r["facts"]) for r in rs]
                    if not any(s[0] == "return" for s, _ in recs[mode]):
                        check.floor(False, f"C11.R1: {shape} ({mode}, {direction}) has no accepted abstract path")
                label = f"{shape}({dims}D target, {direction})"
                # every pair of behaviours whose path conditions can hold together must coincide under those conditions
                pairs = bad = 0
                for sa, fa in recs["ABSOLUTE"]:
                    for sr, fr in recs["RELATIVE"]:
                        if not compatible(fa, fr):
                            continue
                        pairs += 1
                        subs = equalities(L.I, dict(fa, **fr))
                        if _subst(sa, subs) != _subst(sr, subs):
                            bad += 1
                            da, dr = first_difference(_subst(sa, subs), _subst(sr, subs))
                            cond = {k: v for k, v in dict(fa, **fr).items() if k.startswith(("cmp:", "sign:", "isclose:"))}
                            check.violation("R1", f"{shape}:mode-dependent",
                                            f"{label}: for the same absolute waypoints the shape behaves differently in the two distance modes "
                                            f"when {cond or 'always'}: absolute mode gives {str(da)[:300]} where relative mode gives {str(dr)[:300]}",
                                            ["the curve handed to parametric() (or the rejection) depends on the distance mode"])
                if pairs and not bad:
                    check.ok("R1", f"{label}: {pairs} jointly satisfiable pairs of behaviours coincide in both modes")
                check.floor(pairs > 0, f"C11.R1: {label}: no pair of behaviours to compare")
    return n


def emission_equivalence(check, P):
    """R2: parametric()'s sample loop and polyline() reach the same machine positions in both modes."""
    from ..driver import World
    from ..commands import CommandRun
    n = 0
    S = [[Poly.sym(f"s{i}.{a}") for a in AX] for i in range(3)]

    def pins(key):
        if key.startswith("has:bounds._bounds[") or key.startswith("has:kw") or key == "nonempty:g._hooks":
            return False
        if key.startswith("finite:") or key.startswith("cmp:Gt:estimated") or key == "cmp:Gt:arg.length":
            return True
        return None

    results = {}
    for what in ("parametric", "polyline"):
        for mode in ("ABSOLUTE", "RELATIVE"):
            L = Lab(P)
            I, W = L.I, L.W
            I.default_fact = pins
            del I.intrinsics["PathTracer.parametric"]
            I.loop_unroll = 1
            samples = ArrV(tuple(Tup(tuple(Num(p) for p in s)) for s in S))
            linv = []
            I.intrinsics["PathTracer._filter_segments"] = lambda I_, fv, a, k, node: a[1]
            orig = I.ext_result

            def ext_result(I_, callee, args, kwargs, node, orig=orig, linv=linv):
                if isinstance(callee, Unk) and callee.tag == "arg.function":
                    linv.append(args[0] if args else None)
                    return samples
                return orig(I_, callee, args, kwargs, node)
            I.ext_result = ext_result

            FEED = Num(Poly.sym("caller.F"))

            def entry(I_, _):
                if what == "parametric":
                    return W.call_method(I_, "tracer", "parametric", (Unk("arg.function", "hook"), Num(Poly.sym("arg.length"))), {"F": FEED})
                pts = [L.target(mode, S[0], 3), L.target(mode, S[1], 3, prev=S[0]), L.target(mode, S[2], 3, prev=S[1])]
                return W.call_method(I_, "tracer", "polyline", (I_.alloc(AList(pts)),), {"F": FEED})
            visited = None
            for path in I.explore(L.setup(mode, "CLOCKWISE"), entry, max_dev=None, max_paths=3000):
                n += 1
                if path.outcome != "return":
                    continue
                m = Machine({a: p for a, p in zip(AX, O)}, mode)
                seq = []
                codes_ = []
                for e in path.trace:
                    if is_writer_delivery(e):
                        st = Statement(e.data["args"][0], e)
                        m.execute(st, path.facts)
                        if any(c in ("G0", "G1") for c in st.codes()):
                            seq.append(tuple(m.pos[a].key() if m.pos[a] is not UNKNOWN else "?" for a in AX))
                            from ..traceutil import words as _words
                            fw = [v for l, v, stt, how in _words(st, path.facts, letters=("F",)) if l == "F"]
                            codes_.append((tuple(st.codes()), fw[0].p.key() if fw and isinstance(fw[0], Num) else None))
                visited = seq
                g = path.heap[W.ref("g").addr]
                results[(what, mode)] = (seq, linv[:1], codes_)
            if visited is None:
                check.floor(False, f"C11.R2: {what} has no accepted path in {mode} mode")
    want = [tuple(p.key() for p in s) for s in S]
    for what in ("parametric", "polyline"):
        a, r = results.get((what, "ABSOLUTE")), results.get((what, "RELATIVE"))
        if a is None or r is None:
            continue
        if a[0] == r[0] == want:
            check.ok("R2", f"{what}: the machine visits the three samples in order in both modes")
        else:
            check.violation("R2", f"{what}:positions", f"{what}: machine positions in absolute mode {a[0]}, in relative mode {r[0]}; expected the samples {want} in both",
                            ["each sample must be converted with to_distance_mode and emitted with move()"])
        for mode_, res_ in (("absolute", a), ("relative", r)):
            if all(c == ("G1",) and f_ == "caller.F" for c, f_ in res_[2]) and len(res_[2]) == len(want):
                check.ok("R2", f"{what} ({mode_}): every segment is a G1 move carrying the caller's extra words")
            else:
                check.violation("R2", f"{what}:segment-words", f"{what} in {mode_} mode emits {res_[2]}; expected one G1 per sample, each with the caller's F word", [])
        if what == "parametric":
            lv = a[1][0] if a[1] else None
            ok = isinstance(lv, LinV) and lv.dropped == 1 and lv.endpoint == TRUE and _is_const(lv.start, 0) and _is_const(lv.stop, 1)
            if ok:
                check.ok("R2", "parametric samples linspace(0, 1, n + 1)[1:]: the end point theta = 1 is generated")
            else:
                check.violation("R2", "parametric:sampling", f"parametric evaluates the curve at {lv!r}; expected numpy.linspace(0, 1, n + 1)[1:] (end point included, only the start dropped)", [])
    return n


def _is_const(v, c):
    return isinstance(v, Const) and v.v == c


def mode_switches(check, repo, tier, rule="R3", methods=("set_distance_mode", "absolute_mode", "relative_mode", "move_absolute", "rapid_absolute"), floor=40):
    """R3: a stuck or mis-announced distance mode makes every later vertex mode dependent."""
    from ..commands import CommandRun
    from . import c01
    n = 0
    for cls_name in ("GCodeBuilder", "GCodeCore"):
        cr = CommandRun(repo, cls_name=cls_name, tier=tier, methods=methods,
                        cm_body=("pass", "raise"), with_invalid=False, transform="identity")
        for r in cr.run(c01.analyse):
            for it in r["items"]:
                if it[1] != "R4":
                    continue
                if it[0] == "ok":
                    check.ok(rule, f"{cls_name}.{it[2]}")
                    n += 1
                elif it[0] == "undecided":
                    check.undecided(rule, f"{cls_name}.{it[2]}")
                else:
                    check.violation(rule, f"{cls_name}:{it[2]}", f"[{cls_name}] {it[3]}", it[4])
                    n += 1
    check.floor(n >= floor, f"{rule}: only {n} mode-switch obligations decided (floor {floor})")
    return n


def nested_mode_contexts(check, P, rule="R3"):
    """Each exit of a mode context manager puts back the mode that was in effect at *its own* entry: a mode
    context manager or an absolute bypass used inside an open absolute_mode() / relative_mode() block must not
    disturb what the outer block restores (one shared "previous mode" slot would)."""
    from ..driver import World
    from ..interp import AbsRaise, _Return, Frame
    n = 0
    node = ast.parse("0").body[0]
    for cls_name in ("GCodeBuilder", "GCodeCore"):
        W = World(P, cls_name)
        I = W.I
        I.transform_mode = "identity"
        I.default_fact = lambda k: (False if k.startswith("has:bounds._bounds[") or k.startswith("has:kw") or k == "nonempty:g._hooks" else
                                    (True if k.startswith("finite:") else ("some" if k.startswith("opt:g._current_axes") or k.startswith("opt:state._current_axes") else None)))
        pub = W.public_methods()

        def mode_of(I_):
            return I_.heap[W.ref("g").addr].fields.get("_distance_mode")

        def drive(I_, cm, body):
            gfr = cm.frame
            gfr.yield_cb = body
            depth = len(I_.frames)
            I_.frames.append(gfr)
            raised = None
            try:
                try:
                    I_.exec_block(cm.func.node.body, gfr)
                except _Return:
                    pass
                except AbsRaise as e:
                    raised = e.exc.cls
            finally:
                del I_.frames[depth:]
                gfr.yield_cb = None
            return raised
        target = NT("Point", ("x", "y", "z"), tuple(Num(Poly.sym(f"arg.t.{a}")) for a in "xyz"))
        inners = [("absolute_mode", "cm"), ("relative_mode", "cm"), ("move_absolute", "cmd"), ("rapid_absolute", "cmd")]
        for start in ("ABSOLUTE", "RELATIVE"):
            for outer_name in ("absolute_mode", "relative_mode"):
                for inner_name, kind in inners:
                    for inner_raises in ((False, True) if kind == "cm" else (False,)):
                        if pub.get(outer_name) is None or pub.get(inner_name) is None:
                            continue

                        def setup(I_, start=start):
                            g = I_.heap[W.ref("g").addr]
                            g.fields["_distance_mode"] = Member("DistanceMode", start)
                            try:
                                st = I_.heap[W.ref("state").addr]
                                st.fields["_current_distance_mode"] = Member("DistanceMode", start)
                                # between two commands the halt mode is OFF: the invariant the command runs of this check
                                # (mode_switches / C01's main run) discharge inductively
                                if "_current_halt_mode" in st.fields:
                                    st.fields["_current_halt_mode"] = Member("HaltMode", "OFF")
                            except AnalysisError:
                                pass

                        def entry(I_, _, outer_name=outer_name, inner_name=inner_name, kind=kind, inner_raises=inner_raises):
                            seen = {}

                            def outer_body(val):
                                seen["mid"] = mode_of(I_)
                                if kind == "cm":
                                    inner = W.call_entry(I_, pub[inner_name], {})

                                    def inner_body(v2):
                                        seen["innermost"] = mode_of(I_)
                                        if inner_raises:
                                            I_.raise_("BodyError", node, note="inner with-body raises")
                                    seen["inner_raised"] = drive(I_, inner, inner_body)
                                else:
                                    W.call_entry(I_, pub[inner_name], {"point": target})
                                seen["after_inner"] = mode_of(I_)
                            outer = W.call_entry(I_, pub[outer_name], {})
                            drive(I_, outer, outer_body)
                            return Tup((seen.get("mid", NONE), seen.get("after_inner", NONE), mode_of(I_)))
                        done = 0
                        for path in I.explore(setup, entry, max_dev=2, max_paths=400):
                            n += 1
                            if path.outcome != "return":
                                continue
                            mid, after_inner, final = path.value.items
                            if mid == NONE or after_inner == NONE:
                                continue                    # the scripted body was cut short (a rejected move): nothing to compare
                            done += 1
                            want_mid = Member("DistanceMode", "ABSOLUTE" if outer_name == "absolute_mode" else "RELATIVE")
                            label = (f"[{cls_name}] {inner_name}{'() raising' if inner_raises else '()'} inside {outer_name}() entered in {start.lower()} mode")
                            d = [decisions_text(path)]
                            # the delivered mode codes must leave the machine where the builder says it is
                            codes = [c for e in path.trace if is_writer_delivery(e) for c in Statement(e.data["args"][0], e).codes() if c in ("G90", "G91")]
                            machine = {"G90": "ABSOLUTE", "G91": "RELATIVE"}.get(codes[-1]) if codes else start
                            if mid != want_mid:
                                check.violation(rule, f"nested:{outer_name}:body-mode", f"{label}: the outer body runs in {mid!r}, expected {want_mid!r}", d)
                            elif after_inner != want_mid:
                                check.violation(rule, f"nested:{outer_name}:{inner_name}:inner-exit",
                                                f"{label}: after the inner {'block' if kind == 'cm' else 'command'} the builder is in {after_inner!r}; the outer block's mode is {want_mid!r}", d)
                            elif final != Member("DistanceMode", start):
                                check.violation(rule, f"nested:{outer_name}:{inner_name}:outer-exit",
                                                f"{label}: after the outer block the builder is in {final!r}; it was entered in {start.lower()} mode "
                                                "(each exit must restore the mode of its own entry)", d)
                            elif machine != start:
                                check.violation(rule, f"nested:{outer_name}:{inner_name}:machine-mode",
                                                f"{label}: the delivered mode codes {codes} leave the machine in {machine} mode, the builder reports {start}", d)
                            else:
                                check.ok(rule, f"{label}: every exit restores the mode of its own entry")
                        check.floor(done >= 1, f"C11.{rule}: nested scenario '{inner_name} inside {outer_name}' ({cls_name}, {start}) has no completing path")
    return n


def run(check, repo, tier):
    check.rule("R1", "every shape hands the same curve / length / keyword arguments to parametric (or rejects identically) in both distance modes, for the same absolute waypoints")
    check.rule("R2", "samples and polyline points reach the same machine positions in both modes (real move + RS274 machine model)")
    check.rule("R3", "set_distance_mode announces the mode it records (for every spelling it accepts), and the distance-mode switches a path relies on are undone on every exit: absolute_mode / relative_mode run their body in the requested mode "
                     "and restore the previous one on return and on exception; move_absolute / rapid_absolute leave the mode as it was, also when rejected (rule R4 of C01)")
    P = Program(repo)
    L = Lab(P)
    n1 = shape_equivalence(check, L)
    n2 = emission_equivalence(check, P)
    n3 = mode_switches(check, repo, tier) + nested_mode_contexts(check, P)
    check.analysed = {"program": P.stats(), "shape_paths": n1, "emission_paths": n2, "mode_switch_obligations": n3, "shapes": list(SHAPES) + ["parametric", "polyline"]}
    check.sample({"shape": "arc", "absolute_mode_input": "target = T", "relative_mode_input": "target = T - O", "compared": "x(theta), y(theta), z(theta), length, kwargs"})
    check.coverage["exhaustive"] = True
    check.explanation = (
        "Symbolic equivalence of the two modes: the tracer's closed-form curve functions are evaluated by the abstract interpreter "
        "at a symbolic parameter; identical polynomials (modulo the trig identities of the engine) in both modes for the same "
        "absolute waypoints mean identical vertex formulas for every input. The emission loop is run with the real move() and the "
        "machine model. Plain moves and mode context managers: C01.")
    check.assume("position known on all axes; identity transform")
    check.assume("floating-point evaluation of the identical formulas is not modelled")
