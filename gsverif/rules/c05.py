"""C05 -- a rejected command has no effect.

Deciding method: validate-then-commit typestate over every abstract path of
every public command of the builder.  On a path that ends in a validation or
interlock exception, (a) no statement may have been delivered to the writers
and (b) the final abstract store of the tracked objects (builder position,
remembered parameters, distance mode; every GState slot; the bounds table;
hook and writer registrations) must equal the initial one.  A store that is
changed and restored on the same path is clean (finally-restoration).

A finding is keyed by command, the function of the first lasting effect and
the raising function -- never by line numbers.
"""
from __future__ import annotations

from ..commands import CommandRun
from ..model import AnalysisError
from ..traceutil import statements, is_writer_delivery, out_of_scope_exception, out_of_scope_path, chain, decisions_text
from ..values import *

TRACKED_OBJECTS = ("g", "state", "bounds")
TRACKED_CONTAINERS = ("g._current_params", "state._current_params", "bounds._bounds", "g._hooks", "g._writers")
IGNORED_FIELDS = {("g", "_logger")}


def snapshot(heap, W):
    snap = {}
    for a, lab in W.labels.items():
        o = heap.get(a)
        if o is None:
            continue
        if isinstance(o, AObj) and lab in TRACKED_OBJECTS:
            for k, v in o.fields.items():
                if (lab, k) not in IGNORED_FIELDS:
                    snap[(lab, k)] = v
        elif isinstance(o, ADict) and lab in TRACKED_CONTAINERS:
            snap[(lab, "<entries>")] = (tuple(o.entries.items()), o.open, o.bases, tuple(sorted(o.removed)))
        elif isinstance(o, AList) and lab in TRACKED_CONTAINERS:
            snap[(lab, "<items>")] = (None if o.items is None else tuple(o.items), o.base)
    return snap


_INITIAL = {}


def resolve(v, facts):
    """Value of an initial-store entry under the decisions of one path."""
    if isinstance(v, Choice):
        if v.kind == "bool" and ("bool:" + v.name) in facts:
            return Const(facts["bool:" + v.name])
        if v.kind.startswith("enum:") and ("enum:" + v.name) in facts:
            return Member(v.kind[5:], facts["enum:" + v.name])
        return v
    if isinstance(v, Opt):
        k = facts.get("opt:" + v.name)
        if k == "none":
            return NONE
        if k == "some":
            from ..poly import Poly
            return Num(Poly.sym(v.name))
        return v
    if isinstance(v, NT):
        return NT(v.cls, v.names, tuple(resolve(x, facts) for x in v.items))
    if isinstance(v, Tup):
        return Tup(tuple(resolve(x, facts) for x in v.items))
    return v


def same(a, b, facts):
    a, b = resolve(a, facts), resolve(b, facts)
    if isinstance(a, Num) and isinstance(b, Num):
        return a.p == b.p
    if isinstance(a, tuple) and isinstance(b, tuple) and len(a) == len(b):
        return all(same(x, y, facts) for x, y in zip(a, b))
    return a == b


def analyse(W, name, f, ctx, desc, path):
    if path.outcome != "raise":
        return [("accepted",)]
    P = W.P
    cls = path.value.cls
    if out_of_scope_path(P, path):
        return [("oos",)]
    entry = f"{name}({desc})"
    init = _INITIAL.get(id(W))
    if init is None:
        init = _INITIAL[id(W)] = snapshot(W.I.static_heap, W)
    final = snapshot(path.heap, W)
    changed = {k for k in final if k not in init or not same(final[k], init[k], path.facts)} | {k for k in init if k not in final}
    effects = []
    list_mut = set()
    for e in path.trace:
        if is_writer_delivery(e):
            effects.append(("delivery", e, "statement delivered to the writers"))
        elif e.kind == "SET":
            lab = W.labels.get(e.data.get("obj"))
            if lab and (lab, e.data["field"]) in changed:
                effects.append(("store", e, f"{lab}.{e.data['field']} = {e.data['value']!r}"))
        elif e.kind == "MUT":
            lab = W.labels.get(e.data.get("obj")) if isinstance(e.data.get("obj"), int) else None
            if lab in TRACKED_CONTAINERS:
                o = path.heap.get(e.data["obj"])
                if isinstance(o, AList) and o.items is None:
                    # opaque registration list: any mutation is an effect
                    effects.append(("mutation", e, f"{lab}.{e.data['method']}(...)"))
                elif (lab, "<entries>") in changed or (lab, "<items>") in changed:
                    effects.append(("mutation", e, f"{lab}.{e.data['method']}(...)"))
    if not effects:
        return [("clean", f"{entry}: {cls} in {path.raise_site[0]}")]
    # name the finding after the first delivered statement when there is one,
    # otherwise after the first lasting store
    deliveries = [x for x in effects if x[0] == "delivery"]
    kind, ev, what = deliveries[0] if deliveries else effects[0]
    if deliveries:
        from ..traceutil import Statement
        st = Statement(ev.data["args"][0], ev)
        what = f"statement {st.codes() or st.describe()[:40]} delivered to the writers"
    eff_fn = ev.site[0]
    tag = "delivery" if kind == "delivery" else (ev.data.get("field") or ev.data.get("method"))
    # what is left behind when the exception reaches the caller: the codes delivered and the slots that differ
    from ..traceutil import Statement as _St
    sent = [c for x in deliveries for c in (_St(x[1].data["args"][0], x[1]).codes() or ["?"])]
    net = sorted(f"{a}.{b}" for a, b in changed)
    # identity of a finding: the command, what the first lasting effect touches (a delivery, or a state slot), the
    # exception class and what is left behind -- no function names, so that extracting or renaming a helper on
    # either side does not turn a known finding into a new one
    first = "delivery" if kind == "delivery" else f"{W.labels.get(ev.data.get('obj'), '?')}.{tag}"
    key = f"{name}:{first}:{cls}:sent={','.join(sent) or '-'}:net={','.join(net) or '-'}"
    later = [w for k, e, w in effects if e is not ev][:3]
    return [("viol", key,
             f"{entry} is rejected with {cls} (raised in {path.raise_site[0]}) after a lasting effect: {what} in {eff_fn}"
             + (f"; further effects: {later}" if later else ""),
             [f"effect at {ev.where()} via {chain(ev)}", f"raise via {chain(path.raise_stack)}",
              f"path decisions: {decisions_text(path, 16)}"])]


def pins(key):
    return None


def run(check, repo, tier):
    check.rule("R1", "on every abstract path of every public command that ends in a validation/interlock exception: nothing was delivered and the final store of the tracked objects equals the initial store")
    cr = CommandRun(repo, tier=tier, cm_body=("pass",))
    results = cr.run(analyse)
    if tier == "quick":
        # the two motion primitives validate in several places (pre-validation, core update, state setter): a rejection that
        # needs one more non-default decision than the quick bound (target equal to the tracked position + a bounds entry + a
        # parameter word + the late raise) is still explored on every change (round 7 seed C05-prevalidation-skipped-...)
        deep = CommandRun(repo, tier=tier, max_dev=4, methods=["move", "rapid"], cm_body=("pass",))
        results = [r for r in results if r["command"] not in ("move", "rapid")] + deep.run(analyse)
        cr.stats["deep_motion_paths"] = sum(r["paths"] for r in results if r["command"] in ("move", "rapid"))
    check.floor(not (cr.stats["commands"] < 40), f"C05: only {cr.stats['commands']} public commands analysed (floor 40)")
    rejected = 0
    for r in results:
        n_rej = 0
        for it in r["items"]:
            if it[0] == "clean":
                check.ok("R1", it[1])
                n_rej += 1
            elif it[0] == "viol":
                check.violation("R1", it[1], it[2], it[3])
                n_rej += 1
        rejected += n_rej
        if len(check.samples) < 10 and n_rej:
            check.sample({"command": r["command"], "context": r["ctx"], "abstract_paths": r["paths"], "rejecting_paths": n_rej})
    check.floor(not (rejected < 100), f"C05: only {rejected} rejecting paths found (floor 100): the analysis no longer sees the validation raises")
    check.analysed = dict(cr.stats, rejecting_paths=rejected)
    check.coverage["exhaustive"] = tier == "thorough"
    check.explanation = (
        "Every public GCodeBuilder command is abstractly executed from a havocked state for every enum member / flag / "
        "presence of optional words; on each path ending in an in-scope exception the trace must contain no writer delivery "
        "and the final store of builder, GState and bounds table must equal the initial one. "
        + ("Exhaustive path enumeration." if tier == "thorough" else "Quick tier: at most 3 non-default decisions per path (4 for move and rapid)."))
    check.assume("raise set: every exception except the DeviceError family / GscribError I/O wrapper and typeguard type errors")
    check.assume("interpolated shapes (g.trace.*) are sequences of move commands by design; each move is covered as a command of its own")
    check.assume("formatter number()/parameters() used through their contract: ValueError iff a numeric value is not finite (checked by C08)")
