"""C10 -- interpolated paths follow the requested curve and end on target.

Decided part (static): the *closed form* each shape hands to ``parametric``
is obtained by abstract execution (polynomials over the inputs and
uninterpreted cos/sin/hypot/arctan2 applications with the identities
cos(arctan2(y, x) + 2*pi*k) = x / hypot(x, y), sin likewise) and checked
against the curve the property describes:

R1  start and end: f(0) is the current position; f(1) is the requested target
    (for arc under the radius-equality the code itself demands; circle ends on
    its start); z is linear in the parameter;
R2  centre and radius: x = cx + R cos(A), y = cy + R sin(A) with (cx, cy) the
    given centre (arc, circle, helix), the chord midpoint (thread) or the
    start (spiral); R constant for arc / circle / thread and linear between
    start and end radius for helix / spiral; A linear in the parameter,
    starting at the start angle;
R3  sweep: the angular rate is (end - start) plus the direction's turns:
    0 or -2*pi for clockwise arcs, 0 or +2*pi counter-clockwise, exactly one
    full turn for circles, `turns` full turns for helix / spiral / thread;
    Direction.enforce / full_turn have their specified values; arc_radius picks
    the centre on the side given by direction and sign of the radius;
R4  end sample: parametric evaluates linspace(0, 1, n + 1)[1:] and the segment
    filter never drops the first or the last sample (5 symbolic samples, every
    combination of filter decisions);
R5  splines are built on [current position, targets...] in order; polylines
    visit exactly the given points (see C11.R2).
Not decided (runtime numerics): proximity of a cubic spline to its control
points, segment lengths (C12), floating-point error.
"""
from __future__ import annotations

import ast

from ..intrinsics import make_math, mk_app
from ..model import Program, AnalysisError
from ..poly import Poly
from ..tracerlab import Lab, AX, O, T, T2, C, THETA, pt, row, keys
from ..traceutil import decisions_text
from ..values import *
from .c11 import shape_args

TWO_PI = Poly.const(2) * Poly.sym("pi")
ZERO = Poly.const(0)


def atan2(I, y, x):
    return make_math("arctan2")(I, None, [Num(y), Num(x)], {}, None).p


def hyp(I, a, b):
    return make_math("hypot")(I, None, [Num(a), Num(b)], {}, None).p


def deep_subs(I, p: Poly, subs):
    """Substitute input symbols everywhere, also inside uninterpreted applications (which are rebuilt, so the
    canonical forms and the arctan2 / hypot reductions apply to the substituted arguments)."""
    if not subs:
        return p
    out = Poly()
    for m, c in p.terms.items():
        t = Poly.const(c)
        for sname, e in m:
            if sname in I.apps:
                fn, args = I.apps[sname]
                new_args = [deep_subs(I, a, subs) for a in args]
                if all(na == a for na, a in zip(new_args, args)):
                    base = Poly.sym(sname)
                else:
                    try:
                        r = make_math(fn)(I, None, [Num(a) for a in new_args], {}, None)
                        base = r.p if isinstance(r, Num) else Poly.sym(sname)
                    except Exception:
                        base = Poly.sym(sname)
            else:
                base = Poly.sym(sname)
                for sym, val in subs:
                    if sym == sname:
                        base = val
                        break
            t = t * base.pow(e)
        out = out + t
    return out


class PathAlgebra:
    """Equality of two formulas *on one abstract path*: modulo the equalities the path itself established
    (a target compared equal with the origin, an angle compared equal with zero)."""

    def __init__(self, I, decisions):
        from .c11 import equalities
        facts = dict(decisions)
        self.I = I
        self.subs = equalities(I, facts)
        self.zero = []
        for k, v in facts.items():
            if k.startswith("cmp:Eq:") and v is True:
                q = I.key_poly.get(k.split(":", 2)[2])
                if q is not None:
                    q = deep_subs(I, q, self.subs)
                    if not q.is_zero() and not q.is_const():
                        self.zero.append(q)

    def norm(self, p: Poly) -> Poly:
        return deep_subs(self.I, p, self.subs)

    def same(self, a: Poly, b: Poly) -> bool:
        d = self.norm(a) - self.norm(b)
        if d.is_zero():
            return True
        for q in self.zero:
            # d == k * q for a constant k
            (m0, c0) = min(q.terms.items())
            c = d.terms.get(m0)
            if c is not None and (d - q * Poly.const(c / c0)).is_zero():
                return True
        return False


def trig_symbol(I, p: Poly, fname):
    syms = [s for s in p.symbols() if s in I.apps and I.apps[s][0] == fname]
    return syms


def isclose_subst(I, rec, p: Poly, PA=None) -> Poly:
    """Apply the equalities the accepted path established with numpy.isclose."""
    for k, v in rec["decisions"]:
        if k.startswith("isclose:") and v is True:
            a, b = k[len("isclose:"):].rsplit(":", 1) if k.count(":") == 2 else _split_isclose(k)
            if a in I.apps and b in I.apps:
                pa, pb = Poly.sym(a), Poly.sym(b)
                if PA is not None:
                    # the path's own equalities were substituted into the formulas: bring the two radii into the same form
                    pa, pb = PA.norm(pa), PA.norm(pb)
                mb = pb.single_monomial()
                if mb is not None and len(mb[0]) == 1 and mb[0][0][1] == 1 and mb[1] == 1:
                    p = p.subs(mb[0][0][0], pa)
    return p


def _split_isclose(k):
    body = k[len("isclose:"):]
    depth = 0
    for i, ch in enumerate(body):
        if ch == "(":
            depth += 1
        elif ch == ")":
            depth -= 1
        elif ch == ":" and depth == 0:
            return body[:i], body[i + 1:]
    return body, ""


def theta_degree_ok(p: Poly):
    for m in p.terms:
        for s, e in m:
            if s == "theta" and e not in (1,):
                return False
    return True


def analyse_shape(check, L, shape, direction, dims, mode="ABSOLUTE"):
    I = L.I
    mk = shape_args(L, shape, dims)
    # the same absolute waypoints in both distance modes: in relative mode the target argument is T - O (tracerlab), so the
    # closed form the curve is compared with is the same
    recs = L.run(shape, mode, direction, mk)
    accepted = 0
    label = f"{shape}[{direction}, {dims}D]" + ("" if mode == "ABSOLUTE" else "[relative mode]")
    for rec in recs:
        if rec["outcome"] != "return" or not rec["parametric"]:
            continue
        if shape == "arc_radius" and any((k.startswith("cmp:Lt:abs(arg.radius)") or k == "cmp:Eq:arg.radius") and v is True for k, v in rec["decisions"]):
            continue        # the 'radius marginally too small' repair branch: checked through arc() itself
        accepted += 1
        n = rec["parametric"][-1]
        d = ["; ".join(f"{k}={v}" for k, v in rec["decisions"])[:400]]
        f, f0, f1 = row(n["theta"]), row(n["f0"]), row(n["f1"])
        PA = PathAlgebra(I, rec["decisions"])

        def bad(rule, key, msg, dd, PA=PA):
            if PA.zero:
                # the path assumed an equality between trigonometric terms that the polynomial algebra cannot exploit
                # (it is often infeasible): a mismatch on it is not a definite breach
                check.undecided(rule, f"{msg} -- on a path that assumes {PA.zero[0].key()[:80]} == 0")
            else:
                check.violation(rule, key, msg, dd)
        if f is not None and f0 is not None and f1 is not None and (PA.subs or PA.zero):
            # compare everything under what this path knows to be equal
            try:
                f, f0, f1 = [PA.norm(x) for x in f], [PA.norm(x) for x in f0], [PA.norm(x) for x in f1]
            except ZeroDivisionError:
                # the path's equalities put the start on the centre (radius 0): x / hypot(x, y) is not cos(arctan2(y, x)) there
                check.assume(f"{label}: a path on which the start coincides with the centre of rotation (radius 0) is not compared")
                accepted -= 1
                continue
        if f is None or f0 is None or f1 is None:
            check.undecided("R1", f"{label}: the curve function does not evaluate to three coordinates the analysis can follow ({n['theta']!r})")
            continue
        # ---------------- expected geometry
        if shape in ("arc", "circle", "helix"):
            cx, cy = O[0] + C[0], O[1] + C[1]
        elif shape == "thread":
            cx, cy = (O[0] + T[0]) * Poly.const(0.5), (O[1] + T[1]) * Poly.const(0.5)
        elif shape == "spiral":
            cx, cy = O[0], O[1]
        else:
            cx = cy = None
        end = list(O) if shape == "circle" else [T[0], T[1], T[2] if dims == 3 else O[2]]
        Oa = [PA.norm(x) for x in O]
        end = [PA.norm(x) for x in end]
        if cx is not None:
            cx, cy = PA.norm(cx), PA.norm(cy)
        # ---------------- R1 start / end / z
        if all(PA.same(a, b) for a, b in zip(f0, Oa)):
            check.ok("R1", f"{label}: f(0) = current position")
        else:
            bad("R1", f"{shape}:start", f"{label}: the curve starts at {keys(f0)}, the current position is {keys(O)}", d)
        f1s = [isclose_subst(I, rec, p, PA) for p in f1]
        if all(PA.same(a, b) for a, b in zip(f1s, end)):
            check.ok("R1", f"{label}: f(1) = target")
        else:
            bad("R1", f"{shape}:end", f"{label}: the curve ends at {keys(f1s)}, the requested end point is {keys(end)}", d)
        zexp = Oa[2] + THETA * (end[2] - Oa[2])
        if PA.same(f[2], zexp):
            check.ok("R1", f"{label}: z linear in the parameter")
        else:
            bad("R1", f"{shape}:z", f"{label}: z(theta) = {f[2].key()}, expected {zexp.key()}", d)
        if shape == "arc_radius":
            arc_radius_centre(check, L, rec, direction, label, d)
            continue
        # ---------------- R2 centre / radius / angle
        cs, ss = trig_symbol(I, f[0], "cos"), trig_symbol(I, f[1], "sin")
        if len(cs) != 1 or len(ss) != 1:
            if shape == "spiral" and not cs and not ss:
                pass
            bad("R2", f"{shape}:form", f"{label}: x(theta)/y(theta) are not of the form centre + R*cos(A) / centre + R*sin(A): {keys(f[:2])}", d)
            continue
        Rc, P0x = f[0].coeff_of(cs[0]), f[0].without(cs[0])
        Rs, P0y = f[1].coeff_of(ss[0]), f[1].without(ss[0])
        Ac, As = I.apps[cs[0]][1][0], I.apps[ss[0]][1][0]
        if (Rc - Rs).is_zero() and (Ac - As).is_zero():
            A, R = As, Rc
        elif (Rc + Rs).is_zero() and (Ac - As).is_zero():
            A, R = -As, Rc          # sin(-A) = -sin(A): the true angle is -As
        else:
            bad("R2", f"{shape}:xy-mismatch", f"{label}: x uses radius {Rc.key()} / angle {Ac.key()}, y uses {Rs.key()} / {As.key()}", d)
            continue
        if PA.same(P0x, cx) and PA.same(P0y, cy):
            check.ok("R2", f"{label}: centre = {cx.key()}, {cy.key()}")
        else:
            bad("R2", f"{shape}:centre", f"{label}: the curve turns about ({P0x.key()}, {P0y.key()}); the {('given centre' if shape in ('arc', 'circle', 'helix') else 'expected centre')} is ({cx.key()}, {cy.key()})", d)
            continue
        dox, doy = Oa[0] - cx, Oa[1] - cy
        dtx, dty = end[0] - cx, end[1] - cy
        r0, r1 = hyp(I, dox, doy), hyp(I, dtx, dty)
        if shape in ("arc", "circle", "thread"):
            if "theta" in R.symbols():
                bad("R2", f"{shape}:radius-varies", f"{label}: the radius {R.key()} depends on the parameter: the curve does not keep a constant radius about its centre", d)
            elif PA.same(R, r0):
                check.ok("R2", f"{label}: constant radius = distance of the start from the centre")
            else:
                bad("R2", f"{shape}:radius", f"{label}: radius {R.key()}, the start is {r0.key()} away from the centre", d)
        else:
            want = r0 + (r1 - r0) * THETA
            if PA.same(R, want):
                check.ok("R2", f"{label}: radius linear from start radius to end radius")
            else:
                bad("R2", f"{shape}:radius-profile", f"{label}: radius {R.key()}, expected {want.key()}", d)
        if not theta_degree_ok(A):
            bad("R2", f"{shape}:angle-nonlinear", f"{label}: the angle {A.key()} is not linear in the parameter", d)
            continue
        delta, a0 = A.coeff_of("theta"), A.without("theta")
        s_ang = atan2(I, doy, dox)
        e_ang = atan2(I, dty, dtx)
        if PA.same(a0, s_ang):
            check.ok("R2", f"{label}: starts at the start angle")
        else:
            bad("R2", f"{shape}:start-angle", f"{label}: the angle starts at {a0.key()}, the start point lies at {s_ang.key()}", d)
        # ---------------- R3 sweep
        sgn = Poly.const(-1) if direction == "CLOCKWISE" else Poly.const(1)
        base = e_ang - s_ang
        extra = delta - base
        if shape == "circle":
            ok = PA.same(delta, sgn * TWO_PI)
            exp = f"{'-' if direction == 'CLOCKWISE' else '+'}2*pi (one full turn)"
        elif shape == "arc":
            ok = PA.same(extra, Poly()) or PA.same(extra, sgn * TWO_PI)
            exp = f"(end - start) or (end - start) {'-' if direction == 'CLOCKWISE' else '+'} 2*pi"
        else:
            turns = Poly.sym("arg.turns") if shape != "thread" else None
            if turns is None:
                # thread: turns = max(1, int(|dz| / pitch)), any integer symbol
                cand = [s for s in extra.symbols() if s in I.int_symbols]
                turns = Poly.sym(cand[0]) if cand else Poly.const(1)
            ok = PA.same(extra, sgn * TWO_PI * turns) or PA.same(extra, sgn * TWO_PI * (turns - Poly.const(1)))
            exp = f"(end - start) + {'-' if direction == 'CLOCKWISE' else '+'}2*pi*(turns or turns-1)"
        if ok:
            check.ok("R3", f"{label}: sweep {delta.key()[:60]}")
        else:
            bad("R3", f"{shape}:{direction}:sweep", f"{label}: the angle advances by {delta.key()} over the path; expected {exp}", d)
    check.floor(accepted >= 1, f"C10: {label} has no accepted abstract path")
    return len(recs)


def arc_radius_centre(check, L, rec, direction, label, d):
    I = L.I
    arcs = [c for c in rec["calls"] if c[0] == "PathTracer.arc"]
    if len(arcs) != 1:
        check.violation("R3", "arc_radius:delegation", f"{label}: arc_radius makes {len(arcs)} arc() calls", d)
        return
    centre = arcs[0][1][2] if len(arcs[0][1]) > 2 else arcs[0][2].get("center")
    items = list(centre.items) if isinstance(centre, (Tup, NT)) else None
    if not items or len(items) < 2 or not all(isinstance(x, Num) for x in items[:2]):
        check.undecided("R3", f"{label}: the centre handed to arc() is {centre!r}, which the analysis cannot follow")
        return
    # the sign of the requested radius, from whatever comparisons of it the path made (zero is rejected before)
    facts_r = {k: v for k, v in rec["decisions"] if k in ("cmp:Gt:arg.radius", "cmp:Lt:arg.radius", "cmp:Eq:arg.radius", "sign:arg.radius")}
    pos = []
    if facts_r.get("cmp:Gt:arg.radius") is True or facts_r.get("sign:arg.radius") == 1:
        pos = [True]
    elif facts_r.get("cmp:Lt:arg.radius") is True or facts_r.get("sign:arg.radius") == -1:
        pos = [False]
    elif facts_r.get("cmp:Eq:arg.radius") is False and facts_r.get("cmp:Gt:arg.radius") is False:
        pos = [False]
    elif facts_r.get("cmp:Eq:arg.radius") is False and facts_r.get("cmp:Lt:arg.radius") is False:
        pos = [True]
    unconsulted = not pos
    if unconsulted:
        # the path never looks at the sign of the radius, so it stands for both signs; the two expected centres differ
        # (opposite sides of the chord), hence whichever side the code picked is wrong for one of them
        pos = [True, False]
    dtx, dty = T[0] - O[0], T[1] - O[1]
    dist = hyp(I, dtx, dty)
    r = Poly.sym("arg.radius")
    from ..poly import even_app
    h = mk_app(I, "sqrt", [even_app("abs", r).pow(2) - (dist * Poly.const(0.5)).pow(2)])
    for is_pos in pos:
        s = Poly.const(1) if ((direction == "CLOCKWISE") == is_pos) else Poly.const(-1)
        # centre on the right of the chord for clockwise minor arcs (and by symmetry for the other three cases)
        cx = (O[0] + T[0]) * Poly.const(0.5) + s * h * dty * dist.inverse() - O[0]
        cy = (O[1] + T[1]) * Poly.const(0.5) - s * h * dtx * dist.inverse() - O[1]
        if items[0].p == cx and items[1].p == cy:
            if not unconsulted:
                check.ok("R3", f"{label}: centre on the {'right' if s == Poly.const(1) else 'left'} of the chord (radius {'>' if is_pos else '<='} 0)")
        else:
            check.violation("R3", f"arc_radius:{direction}:centre-side", f"{label}, radius {'positive' if is_pos else 'negative'}"
                            + (" (the path never looks at the sign of the radius)" if unconsulted else "") + f": arc() receives the centre offset "
                            f"({items[0].p.key()[:120]}, ...); the {'minor' if is_pos else 'major'} {direction.lower()} arc needs ({cx.key()[:120]}, ...)", d)


def direction_rules(check, L):
    I = L.I
    P = L.P
    ci = P.cls("Direction")
    node = ast.parse("0").body[0]
    ang = Num(Poly.sym("angle"))
    n = 0
    for member, sgn in (("CLOCKWISE", -1), ("COUNTER", 1)):
        f = ci.lookup("enforce")
        # three-valued comparisons: every path knows whether the angle is negative, zero or positive, so the
        # specified value is decided at the boundary too (enforce(0) is a full turn in the selected direction)
        saved_mode = I.sign_mode
        I.sign_mode = "sign"
        seen = set()
        try:
            paths = list(I.explore(lambda I_: None, lambda I_, _: _call(I_, f, [Member("Direction", member), ang], ci, node), max_dev=None))
        finally:
            I.sign_mode = saved_mode
        for path in paths:
            n += 1
            if path.outcome != "return":
                check.violation("R3", f"enforce:{member}:raises", f"Direction.{member}.enforce raises {path.value.cls}", [])
                continue
            r = I.as_num(path.value)
            shifted = r is not None and r.p == Poly.sym("angle") + Poly.const(sgn) * TWO_PI
            same = r is not None and r.p == Poly.sym("angle")
            sg = path.facts.get("sign:angle")
            where = {1: "positive", 0: "zero", -1: "negative"}.get(sg)
            if sg is None:
                check.undecided("R3", f"Direction.{member}.enforce: a path that never compares the angle with zero (decisions {path.decisions})")
                continue
            seen.add(sg)
            must_shift = (sg >= 0) if member == "CLOCKWISE" else (sg <= 0)
            spec = "angle - 2*pi when angle >= 0, else angle" if member == "CLOCKWISE" else "angle + 2*pi when angle <= 0, else angle"
            if (shifted and must_shift) or (same and not must_shift):
                check.ok("R3", f"Direction.{member}.enforce for a {where} angle: {spec}")
            else:
                check.violation("R3", f"enforce:{member}:{where}", f"Direction.{member}.enforce returns {path.value!r} for a {where} angle; specified: {spec}", [])
        check.floor(seen == {-1, 0, 1}, f"C10.R3: Direction.{member}.enforce explored for angle signs {sorted(seen)} only")
        ft = ci.lookup("full_turn")
        for path in I.explore(lambda I_: None, lambda I_, _: _call(I_, ft, [Member("Direction", member)], ci, node), max_dev=None):
            n += 1
            r = I.as_num(path.value) if path.outcome == "return" else None
            if r is not None and r.p == Poly.const(sgn) * TWO_PI:
                check.ok("R3", f"Direction.{member}.full_turn = {sgn}*2*pi")
            elif path.outcome == "return" and r is None:
                check.undecided("R3", f"Direction.{member}.full_turn returns {path.value!r}, a value the analysis cannot follow")
            else:
                check.violation("R3", f"full_turn:{member}", f"Direction.{member}.full_turn returns {path.value!r}, expected {sgn}*2*pi", [])
    return n


def _call(I, f, args, ci, node):
    from ..interp import Frame
    I.frames = [Frame(None, f.module, {}, qualname="<entry>")]
    try:
        return I.call_function(f, args, {}, node, dyncls=ci)
    finally:
        I.frames = []


def filter_rule(check, L, n_samples=5):
    I, W = L.I, L.W
    pts = [Tup(tuple(Num(Poly.sym(f"p{i}.{a}")) for a in AX)) for i in range(n_samples)]
    arr = ArrV(tuple(pts))
    n = 0
    ok = 0
    I.positive_syms.add("g.resolution")
    for path in I.explore(L.setup("ABSOLUTE", "CLOCKWISE"), lambda I_, _: W.call_method(I_, "tracer", "_filter_segments", (arr,)), max_dev=None, max_paths=5000):
        n += 1
        d = [decisions_text(path, 16)]
        if path.outcome != "return":
            check.violation("R4", f"filter:raises:{path.value.cls}", f"_filter_segments raises {path.value.cls}", d)
            continue
        r = path.value
        got = list(r.items) if isinstance(r, ArrV) else None
        if got is None:
            check.undecided("R4", f"_filter_segments returns {r!r} for five samples: the analysis does not model how it is built")
            continue
        idx = [pts.index(p) if p in pts else None for p in got]
        if None in idx or idx != sorted(set(idx)):
            check.violation("R4", "filter:order", f"_filter_segments returns samples {idx}: not an ordered sub-sequence of the input", d)
        elif idx[0] != 0:
            check.violation("R4", "filter:first-dropped", f"_filter_segments keeps samples {idx}: the first sample is dropped", d)
        elif idx[-1] != len(pts) - 1:
            check.violation("R4", "filter:last-dropped", f"_filter_segments keeps samples {idx}: the final sample (the target) is dropped", d)
        else:
            ok += 1
            check.ok("R4", f"filter keeps {idx}")
    check.floor(ok >= 4, f"C10.R4: only {ok} accepted filter paths")
    return n


def _eq_fact(facts, a: Poly, b: Poly):
    d = a - b
    if d.is_zero():
        return True
    lead = d.terms[min(d.terms)]
    q = -d if lead < 0 else d
    return facts.get("cmp:Eq:" + q.key()) is True or facts.get("sign:" + q.key()) == 0


def spline_rule(check, L):
    I = L.I
    n = 0
    want = {a: [Poly.sym(f"o.{a}"), Poly.sym(f"t.{a}"), Poly.sym(f"u.{a}")] for a in AX}
    recs = L.run("spline", "ABSOLUTE", "CLOCKWISE", shape_args(L, "spline"))
    seen = 0
    for rec in recs:
        n += 1
        if rec["outcome"] != "return":
            continue
        sp = [e for e in rec["ext"] if isinstance(e.data.get("callee"), ExtV) and e.data["callee"].name.endswith("CubicSpline")]
        d = ["; ".join(f"{k}={v}" for k, v in rec["decisions"])[:400]]
        if len(sp) != 3:
            check.violation("R5", "spline:axes", f"spline builds {len(sp)} CubicSpline objects, expected one per axis", d)
            continue
        seen += 1
        saved = I.heap
        I.heap = rec["heap"]
        try:
            kept = {}
            for axis, e in zip(AX, sp):
                vals = e.data["args"][1]
                items = list(I.deref(vals).items) if isinstance(vals, Ref) else []
                ps = [x.p if isinstance(x, Num) else None for x in items]
                kept[axis] = [want[axis].index(p) if p in want[axis] else None for p in ps]
        finally:
            I.heap = saved
        k = kept["x"]
        if None in k or kept["y"] != k or kept["z"] != k or k != sorted(set(k)) or not k or k[0] != 0:
            check.violation("R5", "spline:controls", f"the spline is built on control points {kept} (0 = current position, 1, 2 = the targets in order); "
                            "expected the current position followed by the targets in order, the same on every axis", d)
            continue
        bad = None
        for i in range(1, 3):
            if i in k:
                continue
            prev = max(j for j in k if j < i) if any(j < i for j in k) else None
            # a target may be left out only as a *consecutive* duplicate: equal to the control point kept just before it
            if prev is None or not all(_eq_fact(rec["facts"], want[a][i], want[a][prev]) for a in AX):
                bad = (i, prev)
        if bad:
            check.violation("R5", "spline:target-dropped", f"the spline leaves out target {bad[0]} although this path did not decide it equal to the control point kept just before it "
                            f"(kept {k}): a path that revisits an earlier point would never reach it", d)
        else:
            check.ok("R5", f"spline controls {k}: current position, then the targets in order (only consecutive duplicates removed)")
    check.floor(seen >= 1, "C10.R5: spline has no accepted path")
    return n


def run(check, repo, tier):
    check.rule("R1", "f(0) = current position, f(1) = requested end point, z linear in the parameter")
    check.rule("R2", "x = cx + R cos(A), y = cy + R sin(A): expected centre, constant / linear radius, angle linear from the start angle")
    check.rule("R3", "angular sweep per direction and turns; Direction.enforce / full_turn; arc_radius centre side")
    check.rule("R4", "the segment filter keeps first and last sample in every combination of its decisions")
    check.rule("R5", "spline control points are [current position, targets...] in order")
    P = Program(repo)
    L = Lab(P)
    n = 0
    for shape in ("arc", "circle", "helix", "thread", "spiral", "arc_radius"):
        for direction in ("CLOCKWISE", "COUNTER"):
            for dims in ((3, 2) if shape in ("arc", "helix") else (3,)):
                for mode in ("ABSOLUTE", "RELATIVE"):
                    n += analyse_shape(check, L, shape, direction, dims, mode)
    n += direction_rules(check, L)
    n += filter_rule(check, L, 7 if tier == "thorough" else 5)
    n += spline_rule(check, L)
    # the points a path is made of reach the machine: parametric samples (the end sample included) and polyline points are
    # each converted and emitted with move(), in both distance modes (rule R2 of C11, run with the real move() and the machine model)
    check.rule("R6", "every parametric sample and every polyline point is emitted as one G1 move to that point, in both distance modes (rule R2 of C11)")
    from .c11 import emission_equivalence
    from .c13 import _Remap
    rm = _Remap(check, {"R2": "R6"})
    rm.floor = lambda cond, message: check.floor(cond, message.replace("C11.", "C10<-C11."))
    n += emission_equivalence(rm, P)
    check.analysed = {"program": P.stats(), "abstract_paths": n, "shapes": ["arc", "circle", "helix", "thread", "spiral", "arc_radius", "spline"]}
    check.sample({"shape": "arc (clockwise)", "x(theta)": "o.x + c.x + hypot(c.x, c.y) * cos(start + (end - start [- 2*pi]) * theta)", "f(0)": "o", "f(1)": "t given hypot(start) = hypot(end)"})
    check.coverage["exhaustive"] = True
    check.explanation = (
        "The curve function each shape builds is evaluated by the abstract interpreter at a symbolic parameter and at 0 and 1; the "
        "results are polynomials over the inputs with uninterpreted trig applications, normalised with the identities the shapes rely "
        "on, and compared with the closed form the property describes (centre, radius profile, linear angle, sweep per direction, "
        "linear z, end points). The segment filter is run on five symbolic samples over all its decision combinations.")
    check.assume("position known on all axes; both distance modes are run with the same absolute waypoints (relative target = T - O)")
    check.assume("arc end point equals the target under the radius equality the shape itself requires (numpy.isclose, rtol 1e-10)")
    check.assume("numeric proximity of splines, segment lengths and floating-point error are not decided")
