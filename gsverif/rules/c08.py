"""C08 -- every emitted line is one well-formed block with faithful numbers.

Decided part (static): every number that reaches a writer from any builder
command was rendered by ``DefaultFormatter.number``; ``number`` cannot return a
rendering for a non-finite input and renders with the fixed-point call at the
configured fractional precision; each statement is right-stripped and
terminated exactly once, has at most one comment, and its literal text has no
line break, tab or double space.  Not decided: the half-unit accuracy of
``numpy.format_float_positional`` itself (trusted).

R1  provenance of every delivered statement on every abstract path of every command;
R2  number(): every non-constant return is dominated by the finiteness guard and
    a non-finite input always raises ValueError; constant returns are digit strings;
R3  number(): the rendering is an accepted fixed-point idiom whose precision is
    the decimal-places field;
R4  parameters(): every numeric value (Python or numpy scalar) goes through
    number(); axis words first, one space between words, None axes skipped;
R5  line()/write(): one right-strip, one terminator, one UTF-8 encoding; the
    line-ending field has a single writer.
"""
from __future__ import annotations

import ast
import re

from ..commands import CommandRun
from ..driver import World
from ..model import Program, AnalysisError
from ..poly import Poly
from ..traceutil import statements, words, chain, decisions_text, short
from ..values import *

# applications that discard decimal places of a value before it is rendered
PRE_ROUNDING = ("round(", "int(", "floor(", "ceil(", "trunc(")

# renderers of numpy that are known not to give fixed-point notation at a number of decimal places
KNOWN_NOT_FIXED_POINT = ("numpy.format_float_scientific",)

LE = "fmt._line_endings"


def analyse(W, name, f, ctx, desc, path):
    items = []
    entry = f"{name}({desc})"
    for s in statements(path):
        where = [f"delivered at {s.event.where()} via {chain(s.event)}", f"statement: {s.describe()[:100]}",
                 f"path decisions: {decisions_text(path, 8)}"]
        parts = s.parts
        ok = True

        def viol(key, msg):
            nonlocal ok
            ok = False
            items.append(("viol", "R1" if not key.startswith("line:") else "R5", f"{name}:{key}", f"{entry}: {msg}", where))
        # --- terminator: ... RStripEnd, Text(line endings)  exactly once, at the end
        le = [i for i, p in enumerate(parts) if isinstance(p, Text) and p.name == LE]
        if name != "write" or True:
            if len(le) != 1 or le[0] != len(parts) - 1:
                viol("line:terminator", f"the line-ending field occurs {len(le)} time(s) / not at the end of the delivered line")
            elif len(parts) < 2 or not isinstance(parts[-2], RStripEnd):
                viol("line:not-stripped", "the statement is not right-stripped immediately before the terminator")
            if str(s.encoding).lower().replace("_", "-") not in ("utf-8", "utf8", "ascii", "us-ascii"):
                viol("line:encoding", f"delivered bytes are encoded as {s.encoding!r}, not UTF-8 (or its ASCII subset)")
        # --- literal text
        for p in parts:
            if isinstance(p, Lit) and re.search(r"[\n\r\t]|  ", p.text):
                viol("literal-whitespace", f"literal text {p.text!r} contains a line break, tab or double space")
        # --- numbers
        for letter, value, status, how in words(s, path.facts, letters=()):
            if how == "raw" and isinstance(value, (Num,)):
                viol(f"raw-number:{letter}", f"the {letter} word interpolates a number without number(): {short(value)}")
            if isinstance(value, Num):
                # faithful to the configured precision: the value handed to number() is the caller's quantity, not a
                # rounding or truncation of it made beforehand (number() does the only rounding, at the configured places)
                pre = sorted(sym for sym in value.p.symbols() if sym.startswith(PRE_ROUNDING) and re.search(r"\b(arg\.|kw\[)", sym))
                if pre:
                    viol(f"pre-rounded:{letter}", f"the {letter} word renders {pre[0]}: the caller's value is rounded / truncated before number() "
                         "renders it at the configured number of decimal places")
        for i, p in enumerate(parts):
            if isinstance(p, StrOf):
                v = p.value
                numeric = isinstance(v, Num) or (isinstance(v, Const) and isinstance(v.v, (int, float)) and not isinstance(v.v, bool)) or isinstance(v, Opt)
                if numeric and not (isinstance(v, Num) and v.is_int and not any(c in re.sub(r"\{[^{}]*(?:\{[^{}]*\}[^{}]*)*\}", "", p.spec or "") for c in "eEgG%")):
                    viol("raw-number", f"a numeric value is interpolated into the statement without number(): {short(v)} (format spec {p.spec!r})")
        # --- free text inside the statement: no line break may survive (one block = one line); Fmt arguments are the comment texts
        def free_texts(v):
            out = []
            if isinstance(v, Str):
                for q in v.parts:
                    if isinstance(q, Text):
                        out.append(q)
                    elif isinstance(q, Fmt):
                        for a_ in q.args:
                            out += free_texts(a_)
            elif isinstance(v, Unk) and v.typ == "str":
                out.append(Text(v.tag))
            return out
        for p in parts:
            if isinstance(p, Fmt):
                for a_ in p.args:
                    for t_ in free_texts(a_):
                        if (t_.name.startswith(("arg.", "kw[")) or "(arg." in t_.name or "(kw[" in t_.name) and not ({"\n", "\r"} <= set(t_.removed)):
                            viol(f"text-line-break:{t_.name}", f"free text {t_.name} reaches the line with line breaks not provably removed "
                                 f"(removed: {sorted(t_.removed)!r}): the statement would be delivered as more than one line")
        # --- comment: at most one, last before the strip marker
        cm = [i for i, p in enumerate(parts) if isinstance(p, Fmt)]
        if len(cm) > 1:
            viol("two-comments", "the statement carries more than one comment")
        elif cm and cm[0] != len(parts) - 3 and name != "write":
            viol("comment-not-last", "address words follow the comment")
        if ok:
            items.append(("ok", "R1", f"{entry}: {s.describe()[:50]}"))
    return items


# ---------------------------------------------------------------------- formatter contracts
def fmt_world(P, keep=()):
    W = World(P, "DefaultFormatter", root_label="fmt", universal_lists=(), keep_fields=keep)
    return W


def check_number(check, P):
    W = fmt_world(P)
    I = W.I
    f = P.func("DefaultFormatter.number")
    I.intrinsics.pop("DefaultFormatter.number", None)
    calls = []
    orig = I.intrinsics["numpy.format_float_positional"]

    def fmt_pos(I_, fv, args, kwargs, node):
        I_.emit("NOTE", node, what="format_float_positional", args=tuple(args), kwargs={k: v for k, v in kwargs.items() if k != "**"})
        return orig(I_, fv, args, kwargs, node)
    I.intrinsics["numpy.format_float_positional"] = fmt_pos
    v = Num(Poly.sym("arg.number"))
    n = 0
    returns = 0
    for path in I.explore(lambda I: None, lambda I, c: W.call_entry(I, f, {"number": v}), max_dev=None):
        n += 1
        fin = path.facts.get("finite:arg.number")
        d = decisions_text(path)
        if path.outcome == "raise":
            if path.value.cls == "ValueError" and fin is False:
                check.ok("R2", "number(): non-finite input raises ValueError")
            else:
                check.violation("R2", f"number:raises:{path.value.cls}", f"number() raises {path.value.cls} on a path where the finiteness fact is {fin}", [d])
            continue
        r = path.value
        sv = I.as_str(r)
        if isinstance(r, Const) and isinstance(r.v, str):
            if re.fullmatch(r"-?\d+", r.v):
                check.ok("R2", f"number(): constant return {r.v!r}")
                # the only constant allowed is the zero shortcut, taken when the value equals zero
                eqz = [k for k, val in path.facts.items() if k.startswith("cmp:Eq:arg.number") and val is True] or \
                      [k for k, val in path.facts.items() if k.startswith("sign:arg.number") and val == 0]
                if r.v.strip("-0") != "" or not eqz:
                    check.violation("R2", "number:constant-not-zero", f"number() returns the constant {r.v!r} on a path that does not establish value == 0", [d])
            else:
                check.violation("R2", "number:constant-return", f"number() returns the non-numeric constant {r.v!r}", [d])
            continue
        returns += 1
        if fin is not True:
            check.violation("R2", "number:unguarded-return",
                            f"number() returns a rendering of its argument on a path that never established the value to be finite (fact: {fin})", [d])
        else:
            check.ok("R2", "number(): rendered return dominated by the finiteness guard")
        # R3 idiom
        stale = [e for e in path.trace if e.kind == "NOTE" and e.data.get("what") == "memoised-call" and e.data.get("reads")]
        if stale and path.outcome == "return":
            e = stale[0]
            check.violation("R3", "number:memoised-state",
                            f"number() renders through the memoised {e.data['func']}, whose result is reused per argument although it reads "
                            f"{', '.join(e.data['reads'])}: state that other methods change (a rendering made before the change is served afterwards)", [d])
            continue
        if sv is not None and len(sv.parts) == 1 and isinstance(sv.parts[0], NumFmt) and sv.parts[0].value == v:
            notes = [e for e in path.trace if e.kind == "NOTE" and e.data.get("what") == "format_float_positional"]
            if not notes:
                check.violation("R3", "number:render-idiom", "number() renders through an unrecognised call", [d])
                continue
            kw = notes[-1].data["kwargs"]
            a = notes[-1].data["args"]
            prec = kw.get("precision", a[1] if len(a) > 1 else None)
            frac = kw.get("fractional", TRUE)
            if not (isinstance(prec, Num) and prec.p == Poly.sym("fmt._decimal_places")):
                check.violation("R3", "number:precision", f"format_float_positional is called with precision={prec!r}, not the decimal-places field", [d])
            elif frac != TRUE:
                check.violation("R3", "number:fractional", f"format_float_positional is called with fractional={frac!r}: precision would count significant digits", [d])
            elif a and a[0] != v:
                check.violation("R3", "number:renders-other-value", f"format_float_positional renders {a[0]!r}, not the argument", [d])
            else:
                check.ok("R3", "number(): format_float_positional(value, precision=decimal_places, fractional=True)")
        elif sv is not None and len(sv.parts) == 1 and isinstance(sv.parts[0], StrOf) and sv.parts[0].value == v \
                and re.fullmatch(r"\.\{fmt\._decimal_places\}f", sv.parts[0].spec or ""):
            check.ok("R3", "number(): fixed-point format spec with the decimal-places field")
        elif isinstance(r, Unk) and any(k in r.tag for k in KNOWN_NOT_FIXED_POINT):
            check.violation("R3", "number:render-idiom", f"number() renders with {r.tag}: not a fixed-point rendering at the configured number of decimal places", [d])
        elif isinstance(r, Unk):
            check.undecided("R3", f"number() returns {r!r}: the result of a call the analysis does not model")
        else:
            check.violation("R3", "number:render-idiom",
                            f"number() returns {r!r}: not a recognised fixed-point rendering of its argument "
                            "(accepted: numpy.format_float_positional(v, precision=<decimal places>, fractional=True) or f'{v:.{<decimal places>}f}')", [d])
    check.floor(not (n < 2 or returns < 1), f"C08.R2: number() yields {n} abstract paths / {returns} rendering returns (floor 2/1)")
    return n


def check_parameters(check, P):
    W = fmt_world(P, keep=("fmt._valid_axes", "fmt._labels"))
    I = W.I
    f = P.func("DefaultFormatter.parameters")
    I.intrinsics.pop("DefaultFormatter.parameters", None)
    a, b, c, d = (Num(Poly.sym(n)) for n in ("va", "vb", "vc", "np32:vd"))
    samples = [
        ("mixed", [("f", a), ("x", b), ("z", NONE), ("E", c)], [("X", b), ("F", a), ("E", c)]),
        ("axes-order", [("z", a), ("y", b), ("x", c)], [("X", c), ("Y", b), ("Z", a)]),
        ("numpy-scalar", [("F", d), ("x", d)], [("X", d), ("F", d)]),
        ("single", [("S", a)], [("S", a)]),
        ("int", [("P", Num(Poly.sym("ni"), True))], [("P", Num(Poly.sym("ni"), True))]),
    ]
    n = 0
    for label, entries, want in samples:
        def entry(I, _):
            dd = ADict()
            for k, v in entries:
                dd.entries[k] = v
            return W.call_entry(I, f, {"params": I.alloc(dd)})
        I.default_fact = lambda k: True if k.startswith("finite:") else None
        for path in I.explore(lambda I: None, entry, max_dev=None):
            n += 1
            dtxt = decisions_text(path)
            if path.outcome != "return":
                check.violation("R4", f"parameters:{label}:raises", f"parameters({dict(entries)!r}) raises {path.value.cls}", [dtxt])
                continue
            sv = I.as_str(path.value)
            if sv is None:
                check.undecided("R4", f"parameters({dict(entries)!r}) returns {path.value!r}: the analysis lost track of how it is built")
                continue
            got = []
            text_ok = True
            parts = list(sv.parts)
            i = 0
            while i < len(parts):
                p = parts[i]
                if isinstance(p, Lit) and i + 1 < len(parts) and isinstance(parts[i + 1], (NumFmt, StrOf)):
                    lab = p.text
                    sep_ok = (lab == lab.lstrip()) if not got else (lab.startswith(" ") and not lab.startswith("  "))
                    if not sep_ok:
                        text_ok = False
                    q = parts[i + 1]
                    got.append((lab.strip(), q.value, isinstance(q, NumFmt)))
                    i += 2
                else:
                    text_ok = False
                    i += 1
            raw = [g for g in got if not g[2]]
            if raw:
                check.violation("R4", f"parameters:{label}:number-bypass",
                                f"parameters() renders {[(g[0], short(g[1])) for g in raw]} without number()"
                                + (" (a numpy scalar does not take the numeric branch)" if label == "numpy-scalar" else ""), [dtxt])
            elif [(g[0], g[1]) for g in got] != want:
                check.violation("R4", f"parameters:{label}:words", f"parameters({[(k, short(v)) for k, v in entries]}) yields words {[(g[0], short(g[1])) for g in got]}, expected {[(k, short(v)) for k, v in want]}", [dtxt])
            elif not text_ok:
                check.violation("R4", f"parameters:{label}:separators", f"parameters() does not separate words by exactly one space: {sv!r}", [dtxt])
            else:
                check.ok("R4", f"parameters[{label}]")
    check.floor(not (n < 5), f"C08.R4: only {n} paths of parameters() analysed")
    return n


def check_line_endings_writer(check, P):
    writers = []
    for mod in P.modules.values():
        if ".printrun" in mod.name:
            continue
        for fn in ast.walk(mod.tree):
            if isinstance(fn, ast.FunctionDef):
                for n in ast.walk(fn):
                    if isinstance(n, ast.Attribute) and isinstance(n.ctx, ast.Store) and n.attr == "_line_endings":
                        writers.append((mod.name, fn.name, n.lineno))
    names = {w[1] for w in writers}
    check.floor(not (not writers), "C08.R5: no store to _line_endings found (anchor vanished)")
    for m, fn, line in writers:
        if fn in ("__init__", "set_line_endings"):
            check.ok("R5", f"_line_endings stored in {fn}")
        else:
            check.violation("R5", f"line-endings-writer:{fn}", f"_line_endings is also stored in {m}.{fn} (line {line})", [f"{m}:{line}"])


def run(check, repo, tier):
    check.rule("R1", "provenance of every delivered statement: numbers only through number(), literal text free of line breaks/tabs/double spaces, at most one trailing comment")
    check.rule("R2", "number(): rendering returns are dominated by the finiteness guard; non-finite input raises ValueError; constants are digit strings")
    check.rule("R3", "number(): accepted fixed-point rendering idiom at the configured fractional precision")
    check.rule("R4", "parameters(): every numeric value incl. numpy scalars goes through number(); axis words first; single-space separation; None axes skipped")
    check.rule("R5", "line()/write(): right-strip then exactly one terminator, UTF-8; single writer of the line-ending field")
    cr = CommandRun(repo, tier=tier, cm_body=("pass",), with_invalid=False)
    results = cr.run(analyse)
    n_ok = 0
    for r in results:
        for it in r["items"]:
            if it[0] == "ok":
                check.ok(it[1], it[2])
                n_ok += 1
            else:
                check.violation(it[1], it[2], it[3], it[4])
                n_ok += 1
        if len(check.samples) < 8 and r["items"]:
            check.sample({"command": r["command"], "context": r["ctx"], "abstract_paths": r["paths"],
                          "statement": r["items"][0][2] if r["items"][0][0] == "ok" else r["items"][0][3]})
    check.floor(not (n_ok < 500), f"C08.R1: only {n_ok} delivered statements analysed (floor 500)")
    P = cr.program
    check.rule("R6", "a coordinate is not altered between the request and number(): Point.from_vector returns its first three components exactly (rule of C04)")
    from .c04 import point_vector_rule
    point_vector_rule(check, P, "R6")
    n2 = check_number(check, P)
    n4 = check_parameters(check, P)
    check_line_endings_writer(check, P)
    check.analysed = dict(cr.stats, delivered_statements=n_ok, number_paths=n2, parameters_paths=n4)
    check.coverage["exhaustive"] = tier == "thorough"
    check.explanation = (
        "Provenance terms of every statement delivered on the abstract paths of every public command (which parts are literal, "
        "which were rendered by number(), which are comments, where the terminator is), plus abstract execution of "
        "DefaultFormatter.number and .parameters themselves to verify the contract the other analyses rely on.")
    check.assume("numpy.format_float_positional renders within half a unit of the last place (trusted)")
    check.assume("non-numeric parameter values are outside the property's quantifier")
