"""C15 -- streamed print jobs arrive complete, in order and checksummed.

Decided part (static): the framing and bookkeeping every correct run depends
on, by abstract execution of the vendored sender's functions.  NOT decided:
exactly-once, in-order acceptance under arbitrary corruption patterns and
thread schedules -- a property of interleavings of three lock-free threads and
a firmware model, outside static reach here.

R1  framing: with checksumming on, the bytes written to the device are
    "N" + str(lineno) + " " + command + "*" + str(checksum(prefix)) + "\\n"
    where the checksum is an XOR fold over ord of that very prefix, and the
    numbered text is stored in sentlines[lineno] before the device write;
R2  numbering: a main-queue line is sent with the current line number and
    checksumming on, after which line number and queue index advance by one;
    startprint resets the line number to 0 and announces it with M110 N-1
    before the print thread is started;
R3  resend priority: while -1 < resendfrom < lineno the stored line
    sentlines[resendfrom] is re-sent under its own number, un-renumbered,
    resendfrom advances by one, and nothing else is sent on that call;
R4  listener: 'ok' sets clear; a resend request assigns resendfrom from the
    first integer token and then sets clear.
"""
from __future__ import annotations

import ast

from ..driver import World
from ..interp import Closure
from ..model import Program, AnalysisError
from ..poly import Poly
from ..traceutil import decisions_text, calls
from ..values import *

PRINTER = Unk("pc.printer", "object")


def pc_world(P):
    W = World(P, "printcore", root_label="pc", module_hint="printrun.printcore", keep_fields=("pc.event_handler", "pc.greetings"))
    W.I.default_fact = lambda k: True if k == "truth:pc.printer" else None
    I = W.I
    I.ext_quiet = lambda tag: "logger" in tag or tag.startswith("logging") or tag.startswith("time.") or tag.startswith("traceback")
    I.while_bound = 6
    return W


def setup_sender(I, W, **over):
    pc = I.heap[W.ref("pc").addr]
    pc.fields.update(printer=PRINTER, sendcb=NONE, loud=FALSE, analyzer=Unk("pc.analyzer", "object"), mainqueue=Unk("pc.mainqueue", "object"))
    pc.fields.update(over)


def writes(path):
    return [(i, e) for i, e in enumerate(path.trace) if e.kind == "EXT" and isinstance(e.data.get("callee"), Unk) and e.data["callee"].tag == "pc.printer.write"]


def framing(check, P):
    W = pc_world(P)
    I = W.I
    cmd = Unk("arg.command", "str")
    ln = Num(Poly.sym("arg.lineno"), True)
    n = 0
    framed = 0
    for path in I.explore(lambda I_: setup_sender(I_, W, _send_line_numbers=TRUE), lambda I_, _: W.call_method(I_, "pc", "_send", (cmd, ln, TRUE)), max_dev=None):
        n += 1
        d = [decisions_text(path)]
        fc = [v for k, v in path.decisions if "has_flow_control" in k]
        if fc and fc[0] is True:
            continue          # tcp: no checksums by design
        ws = writes(path)
        if path.outcome != "return" or len(ws) != 1:
            check.violation("R1", "send:write-count", f"_send(command, lineno, True) performs {len(ws)} device writes / outcome {path.outcome}", d)
            continue
        framed += 1
        i_w, ev = ws[0]
        payload = ev.data["args"][0] if ev.data["args"] else None
        s = payload.s if isinstance(payload, Bytes) else None
        parts = list(s.parts) if isinstance(s, Str) else []
        shape_ok = (len(parts) == 7 and parts[0] == Lit("N") and isinstance(parts[1], StrOf) and parts[1].value == ln and parts[2] == Lit(" ")
                    and parts[3] == Text("arg.command") and parts[4] == Lit("*") and isinstance(parts[5], StrOf) and parts[6] == Lit("\n"))
        if not shape_ok:
            check.violation("R1", "send:frame", f"the checksummed line written to the device is {s!r}; expected N<lineno> <command>*<checksum>\\n", d)
            continue
        check.ok("R1", "frame: N<lineno> <command>*<checksum>\\n")
        # checksum argument: reduce(xor, map(ord, prefix)) of the very prefix
        red = [e for e in path.trace if e.kind == "EXT" and isinstance(e.data.get("callee"), ExtV) and e.data["callee"].name.endswith("reduce")]
        cs = parts[5].value
        good = False
        if red and red[-1].data.get("result") == cs:
            a = red[-1].data["args"]
            lam = a[0] if a else None
            xor = isinstance(lam, Closure) and isinstance(lam.node, ast.Lambda) and isinstance(lam.node.body, ast.BinOp) and isinstance(lam.node.body.op, ast.BitXor) \
                and {getattr(lam.node.body.left, "id", None), getattr(lam.node.body.right, "id", None)} == {x.arg for x in lam.node.args.args}
            # the same fold spelled with the standard library: operator.xor / operator.__xor__ / int.__xor__
            xor = xor or (isinstance(lam, ExtV) and lam.name in ("operator.xor", "operator.__xor__", "int.__xor__"))
            src = I.tag(a[1]) if len(a) > 1 else ""
            prefix_tag = I.tag(Str(tuple(parts[:4])))
            over_prefix = src == f"map(Ext(ord), {prefix_tag})" or src == f"map(Ext(ord),{prefix_tag})"
            if not xor:
                check.violation("R1", "send:checksum-fold", "the checksum is not an XOR fold (reduce(lambda x, y: x ^ y, ...))", d)
            elif not over_prefix:
                check.violation("R1", "send:checksum-argument", f"the checksum is computed over {src}; firmware verifies it over the whole 'N<lineno> <command>' prefix {prefix_tag}", d)
            else:
                good = True
        else:
            check.violation("R1", "send:checksum-source", f"the text after '*' is {cs!r}, not the result of the checksum fold", d)
        if good:
            check.ok("R1", "checksum = XOR fold over ord of the N<lineno> <command> prefix")
        # stored before the write, under lineno, the numbered text
        st = [(i, e) for i, e in enumerate(path.trace) if e.kind == "MUT" and e.data.get("label") == "pc.sentlines" and e.data.get("method") == "__setitem__"]
        m110 = [v for k, v in path.decisions if k.startswith("in:Const('M110')")]
        if m110 and m110[0] is True:
            check.ok("R1", "an M110 line-number reset is not kept for resending (by design)")
        elif st and st[0][0] < i_w and st[0][1].data["args"][0] == ln and isinstance(st[0][1].data["args"][1], Str) and list(st[0][1].data["args"][1].parts) == parts[:6]:
            check.ok("R1", "numbered text stored in sentlines[lineno] before the device write")
        else:
            check.violation("R1", "send:sentlines", f"sentlines is updated {[(e.data['args']) for _, e in st]} relative to the device write; the numbered line must be stored under its number first (a resend needs it)", d)
    check.floor(framed >= 1, "C15.R1: no checksummed _send path")
    return n


def numbering(check, P):
    W = pc_world(P)
    I = W.I
    I.event_funcs = {"printcore._send"}
    I.intrinsics["printcore._send"] = lambda I_, fv, a, k, node: (I_.emit("CALL", node, func="printcore._send", args=tuple(a), kwargs=dict(k)), NONE)[1]
    orig = I.ext_result

    def ext_result(I_, callee, args, kwargs, node):
        t = I_.tag(callee)
        if t == "pc.mainqueue.idxs":
            return Tup((Num(Poly.sym("layer"), True), Num(Poly.sym("line"), True)))
        if t.endswith(".sub"):
            return Unk("stripped-line", "str")
        return orig(I_, callee, args, kwargs, node)
    I.ext_result = ext_result
    n = 0
    main = resend = 0

    def setup(I_):
        setup_sender(I_, W, printing=TRUE, online=TRUE, clear=TRUE, paused=FALSE, preprintsendcb=NONE, printsendcb=NONE, layerchangecb=NONE)
    for path in I.explore(setup, lambda I_, _: W.call_method(I_, "pc", "_sendnext", ()), max_dev=None, max_paths=5000):
        n += 1
        if path.outcome != "return":
            continue
        d = [decisions_text(path, 14)]
        sends = calls(path, "printcore._send")
        pc = path.heap[W.ref("pc").addr]
        f = path.facts
        lo = [v for k, v in path.decisions if k.startswith("cmp:") and "pc.resendfrom" in k and "pc.lineno" in k]
        gt = [v for k, v in path.decisions if k.startswith("cmp:") and "pc.resendfrom" in k and "pc.lineno" not in k]
        in_resend = bool(lo) and bool(gt) and _resend_window(path)
        if in_resend:
            resend += 1
            want_args_ok = len(sends) == 1 and len(sends[0].data["args"]) >= 3
            if want_args_ok:
                a = sends[0].data["args"]
                line_ok = isinstance(a[1], Unk) and "pc.sentlines" in a[1].tag and "pc.resendfrom" in a[1].tag
                num_ok = a[2] == Num(Poly.sym("pc.resendfrom"), True)
                nocs = (len(a) > 3 and a[3] == FALSE) or (len(a) == 3)
                adv = pc.fields.get("resendfrom")
                adv_ok = isinstance(adv, Num) and adv.p == Poly.sym("pc.resendfrom") + Poly.const(1)
                if line_ok and num_ok and nocs and adv_ok:
                    check.ok("R3", "resend: sentlines[resendfrom] re-sent under its number, un-renumbered; resendfrom += 1; nothing else sent")
                else:
                    check.violation("R3", "resend:shape", f"in the resend window _sendnext sends {a[1:]!r} and leaves resendfrom = {adv!r}; expected "
                                    "_send(sentlines[resendfrom], resendfrom, False) and resendfrom + 1", d)
            else:
                check.violation("R3", "resend:priority", f"in the resend window (-1 < resendfrom < lineno) _sendnext makes {len(sends)} sends: "
                                f"{[s.data['args'][1:] for s in sends]}; the requested line must be re-sent first and alone", d)
            continue
        sends = [s_ for s_ in sends if len(s_.data["args"]) > 1 and _is_job_line(s_.data["args"][1])]
        if len(sends) == 1:
            a = sends[0].data["args"]
            main += 1
            if not (len(a) >= 4 and a[3] == TRUE):
                check.violation("R2", "mainqueue:checksum-off", f"a job line is handed to _send as {a[1:]!r}: without checksumming it goes out un-numbered", d)
                continue
            ln = pc.fields.get("lineno")
            qi = pc.fields.get("queueindex")
            if a[2] != Num(Poly.sym("pc.lineno"), True):
                check.violation("R2", "mainqueue:number", f"a job line is sent with line number {a[2]!r}, expected the current lineno", d)
            elif not (isinstance(ln, Num) and ln.p == Poly.sym("pc.lineno") + Poly.const(1)):
                check.violation("R2", "mainqueue:lineno-advance", f"after sending a job line lineno is {ln!r}, expected lineno + 1 (consecutive numbers)", d)
            elif not (isinstance(qi, Num) and qi.p == Poly.sym("pc.queueindex") + Poly.const(1)):
                check.violation("R2", "mainqueue:queueindex-advance", f"after sending a job line queueindex is {qi!r}, expected queueindex + 1", d)
            else:
                check.ok("R2", "job line sent with lineno and checksum; lineno and queueindex advance by one")
    check.floor(main >= 1 and resend >= 1, f"C15.R2/R3: main-queue paths {main}, resend paths {resend}")
    # the boundaries of the resend window, with every queue possibly non-empty: inside (-1 < resendfrom < lineno)
    # the resend comes first and alone, outside no stored line is re-sent
    for rf, ln_, inside in ((0, 5, True), (3, 5, True), (4, 5, True), (0, 1, True), (-1, 5, False), (5, 5, False), (-1, 0, False)):
        def setup_window(I_, rf=rf, ln_=ln_):
            setup(I_)
            pc = I_.heap[W.ref("pc").addr]
            pc.fields.update(resendfrom=Const(rf), lineno=Const(ln_))
        win = 0
        for path in I.explore(setup_window, lambda I_, _: W.call_method(I_, "pc", "_sendnext", ()), max_dev=None, max_paths=5000):
            n += 1
            if path.outcome != "return":
                continue
            win += 1
            sends = calls(path, "printcore._send")
            pc = path.heap[W.ref("pc").addr]
            shape = [tuple(I.const_int(x) if I.const_int(x) is not None else x for x in s_.data["args"][2:]) for s_ in sends]
            first = sends[0].data["args"][1] if sends else None
            stored = [s_ for s_ in sends if isinstance(s_.data["args"][1], Unk) and "pc.sentlines" in s_.data["args"][1].tag]
            if inside:
                ok = (len(sends) == 1 and isinstance(first, Unk) and "pc.sentlines" in first.tag and shape[0][0] == rf
                      and (len(shape[0]) == 1 or shape[0][1] == FALSE) and I.const_int(pc.fields.get("resendfrom")) == rf + 1)
                if ok:
                    check.ok("R3", f"resendfrom={rf} < lineno={ln_}: sentlines[{rf}] re-sent first and alone, resendfrom -> {rf + 1}")
                else:
                    check.violation("R3", "resend:window" if rf not in (0,) else "resend:window:first-line",
                                    f"with resendfrom={rf} and lineno={ln_} pending, _sendnext sends {[s_.data['args'][1:] for s_ in sends]} and leaves "
                                    f"resendfrom={pc.fields.get('resendfrom')!r}; the requested line {rf} must be re-sent before anything else "
                                    "(line 0 is the first job line after M110 N-1)", [decisions_text(path, 14)])
            else:
                if not stored:
                    check.ok("R3", f"resendfrom={rf}, lineno={ln_}: outside the window, no stored line is re-sent")
                else:
                    check.violation("R3", "resend:outside-window", f"with resendfrom={rf} and lineno={ln_} (no resend pending) _sendnext re-sends a stored line: "
                                    f"{[s_.data['args'][1:] for s_ in stored]}", [decisions_text(path, 14)])
        check.floor(win >= 1, f"C15.R3: no path for resendfrom={rf}, lineno={ln_}")
    # the resent line can itself be corrupted: the same line number is requested again
    def setup_repeat(I_):
        setup(I_)
        pc = I_.heap[W.ref("pc").addr]
        lines = ADict(entries={Const(k).v: Unk(f"sent-line-{k}", "str") for k in range(5)}, label="pc.sentlines")
        pc.fields.update(resendfrom=Const(3), lineno=Const(5), sentlines=I_.alloc(lines))

    def twice(I_, _):
        W.call_method(I_, "pc", "_sendnext", ())
        pc = I_.heap[W.ref("pc").addr]
        pc.fields["resendfrom"] = Const(3)       # what the listener stores when 'Resend: 3' arrives again
        pc.fields["clear"] = TRUE
        W.call_method(I_, "pc", "_sendnext", ())
        return NONE
    rep = 0
    for path in I.explore(setup_repeat, twice, max_dev=None, max_paths=5000):
        n += 1
        sends = calls(path, "printcore._send")
        d = [decisions_text(path, 14)]
        if path.outcome != "return":
            rep += 1
            check.violation("R3", f"resend:repeat:{path.value.cls}", f"a second 'Resend: 3' (the resent line was corrupted again) makes _sendnext raise {path.value.cls} in {path.raise_site[0]}: "
                            "the stored line is gone, the print thread dies and the job stops short", d)
            continue
        rep += 1
        got = [s_.data["args"][1] for s_ in sends]
        if got == [Unk("sent-line-3", "str"), Unk("sent-line-3", "str")]:
            check.ok("R3", "the same line can be requested and re-sent twice")
        else:
            check.violation("R3", "resend:repeat", f"two consecutive 'Resend: 3' requests lead to the sends {got}; expected the stored line 3 both times", d)
    check.floor(rep >= 1, "C15.R3: repeated-resend sequence has no path")
    # startprint: reset + M110 before the print thread starts
    W2 = pc_world(P)
    I2 = W2.I
    I2.event_funcs = {"printcore._send"}
    I2.intrinsics["printcore._send"] = I.intrinsics["printcore._send"]
    started = 0
    for path in I2.explore(lambda I_: setup_sender(I_, W2, printing=FALSE, online=TRUE, _send_line_numbers=TRUE),
                           lambda I_, _: W2.call_method(I_, "pc", "startprint", (Unk("arg.gcode", "object"),)), max_dev=None):
        n += 1
        if path.outcome != "return" or path.value != TRUE:
            continue
        started += 1
        d = [decisions_text(path)]
        sends = [(i, e) for i, e in enumerate(path.trace) if e.kind == "CALL" and e.data.get("func") == "printcore._send"]
        thr = [i for i, e in enumerate(path.trace) if e.kind == "EXT" and I2.tag(e.data.get("callee")).endswith(".start")]
        sets = [(i, e) for i, e in enumerate(path.trace) if e.kind == "SET" and e.data.get("field") == "lineno"]
        ok_reset = sets and sets[0][1].data["value"] in (Const(0),) and (not thr or sets[0][0] < thr[0])
        ok_m110 = (len(sends) == 1 and len(sends[0][1].data["args"]) == 4 and sends[0][1].data["args"][1] == Const("M110 N-1")
                   and I2.const_int(sends[0][1].data["args"][2]) == -1 and sends[0][1].data["args"][3] == TRUE and (not thr or sends[0][0] < thr[0]))
        if ok_reset and ok_m110 and thr:
            check.ok("R2", "startprint: lineno = 0 and 'M110 N-1' (line -1, checksummed) before the print thread starts")
        else:
            check.violation("R2", "startprint:reset", f"startprint: lineno stores {[e.data['value'] for _, e in sets]}, sends {[e.data['args'][1:] for _, e in sends]}, "
                            f"thread start at {thr}; expected lineno = 0 and _send('M110 N-1', -1, True) before the print thread starts", d)
    check.floor(started >= 1, "C15.R2: startprint has no accepting path")
    return n


def ack_gate(check, P):
    """Flow control: while a job is printing and the previous line has not been acknowledged (`clear` is False),
    `_sendnext` may not send anything, advance the job or finish it -- whatever the queues hold.  A correct
    implementation waits there (the abstract path does not complete); a completed path must be effect-free."""
    W = pc_world(P)
    I = W.I
    I.event_funcs = {"printcore._send"}
    I.intrinsics["printcore._send"] = lambda I_, fv, a, k, node: (I_.emit("CALL", node, func="printcore._send", args=tuple(a), kwargs=dict(k)), NONE)[1]
    orig = I.ext_result

    def ext_result(I_, callee, args, kwargs, node):
        if I_.tag(callee) == "pc.mainqueue.idxs":
            return Tup((Num(Poly.sym("layer"), True), Num(Poly.sym("line"), True)))
        return orig(I_, callee, args, kwargs, node)
    I.ext_result = ext_result
    n = 0
    for flow, streaming in ((FALSE, FALSE), (TRUE, FALSE)):
        def setup(I_, flow=flow, streaming=streaming):
            setup_sender(I_, W, printing=TRUE, online=TRUE, clear=FALSE, paused=FALSE, preprintsendcb=NONE, printsendcb=NONE, layerchangecb=NONE,
                         tcp_streaming_mode=streaming)
        completed = 0
        for path in I.explore(setup, lambda I_, _: W.call_method(I_, "pc", "_sendnext", ()), max_dev=None, max_paths=5000):
            n += 1
            completed += 1
            d = [decisions_text(path, 14)]
            sends = calls(path, "printcore._send")
            pc = path.heap[W.ref("pc").addr]
            changed = [f for f, init in (("printing", TRUE), ("lineno", None), ("queueindex", None), ("resendfrom", None))
                       if (pc.fields.get(f) != init if init is not None else any(e.kind == "SET" and e.data.get("field") == f for e in path.trace))]
            if sends or changed:
                what = []
                if sends:
                    what.append(f"sends {[s_.data['args'][1:] for s_ in sends]}")
                if changed:
                    what.append(f"changes {', '.join(changed)}")
                check.violation("R7", "ack-gate:" + ("send" if sends else "state"),
                                f"with the previous line still unacknowledged (clear is False) _sendnext {' and '.join(what)}: the answer to that line "
                                "(an ok or a resend request) is no longer waited for", d)
            else:
                check.ok("R7", "an unacknowledged line: a completed _sendnext path has no effect")
    check.ok("R7", "while the previous line is unacknowledged _sendnext sends nothing, advances nothing and does not finish the job")
    return n


def _is_job_line(v):
    if isinstance(v, Unk):
        return v.tag == "stripped-line"
    if isinstance(v, Str):
        return any(isinstance(p, Text) and p.name == "stripped-line" for p in v.parts)
    return False


def _resend_window(path):
    """Did this path take the `resendfrom < lineno and resendfrom > -1` branch?"""
    vals = {}
    for k, v in path.decisions:
        if k.startswith("cmp:") and "pc.resendfrom" in k:
            vals[k] = v
    # bool-mode keys: cmp:Lt:(lineno - resendfrom) / cmp:Gt:..., canonicalised; evaluate both conjuncts
    lt = gt = None
    for k, v in vals.items():
        op, poly = k.split(":", 2)[1:]
        if "pc.lineno" in poly:
            # poly is lineno - resendfrom (canonical lead positive on 'pc.lineno' since 'pc.l' < 'pc.r')
            if op == "Gt":
                lt = v          # lineno - resendfrom > 0
            elif op == "Lt":
                lt = (not v) and None
            elif op == "Eq":
                pass
        else:
            # poly is resendfrom + 1 ( > 0 ) or resendfrom - (-1)
            if op == "Gt":
                gt = v
            elif op == "Lt":
                gt = None if v else None
    return lt is True and gt is True


def listener(check, P):
    W = pc_world(P)
    I = W.I
    orig = I.ext_result
    state = {}

    def ext_result(I_, callee, args, kwargs, node):
        return orig(I_, callee, args, kwargs, node)
    n = 0
    # _listen reads lines through self._readline(): script one line, then None
    I.intrinsics["printcore._readline"] = lambda I_, fv, a, k, node: state["lines"].pop(0) if state["lines"] else NONE
    I.intrinsics["printcore._listen_until_online"] = lambda I_, fv, a, k, node: NONE
    I.intrinsics["printcore._listen_can_continue"] = lambda I_, fv, a, k, node: TRUE
    seen_ok = seen_rs = 0
    for label, line in (("ok", Const("ok")), ("ok with temperature", Const("ok T:200 /200")), ("Resend: 7", Const("Resend: 7")),
                        ("rs N2 Expected checksum 67", Const("rs N2 Expected checksum 67")), ("Resend:12", Const("Resend:12")),
                        ("status line", Const("echo:busy: processing"))):
        def entry(I_, _):
            state["lines"] = [line]
            pc = I_.heap[W.ref("pc").addr]
            pc.fields.update(printing=TRUE, tempcb=NONE, recvcb=NONE, clear=FALSE)
            return W.call_method(I_, "pc", "_listen", ())
        for path in I.explore(lambda I_: None, entry, max_dev=None, max_paths=2000):
            n += 1
            if path.outcome != "return":
                check.violation("R4", f"listen:{label}:raises", f"_listen raises {path.value.cls} on the line {line.v!r}", [decisions_text(path)])
                continue
            sets = [(e.data["field"], e.data["value"]) for e in path.trace if e.kind == "SET" and e.data.get("label") == "pc" and e.data.get("field") in ("clear", "resendfrom")]
            # drop the unconditional clear = True at entry and at exit of _listen
            body = sets[1:-1] if len(sets) >= 2 else []
            d = [f"stores: {sets}", decisions_text(path)]
            if label.startswith("ok"):
                seen_ok += 1
                if ("clear", TRUE) in body:
                    check.ok("R4", f"'{label}' sets clear")
                else:
                    check.violation("R4", "listen:ok-clear", f"an '{label}' line does not set clear: the sender would wait for ever", d)
            elif label.startswith(("Resend", "rs")):
                seen_rs += 1
                want = {"Resend: 7": 7, "rs N2 Expected checksum 67": 2, "Resend:12": 12}[label]
                rs = [v for f_, v in body if f_ == "resendfrom"]
                idx_rs = [i for i, (f_, v) in enumerate(body) if f_ == "resendfrom"]
                idx_cl = [i for i, (f_, v) in enumerate(body) if f_ == "clear" and v == TRUE]
                got = I.const_int(rs[0]) if rs else None
                if got == want and idx_cl and idx_cl[-1] > idx_rs[0]:
                    check.ok("R4", f"'{label}': resendfrom = {want}, then clear")
                else:
                    check.violation("R4", f"listen:resend:{label}", f"on '{label}' the listener stores {body}; expected resendfrom = {want} (first integer token) and then clear = True", d)
            else:
                if any(f_ == "resendfrom" for f_, v in body) or ("clear", TRUE) in body:
                    check.violation("R4", "listen:status-line", f"an unrelated status line changes the send bookkeeping: {body}", d)
                else:
                    check.ok("R4", "an unrelated status line leaves clear/resendfrom alone")
    check.floor(seen_ok >= 2 and seen_rs >= 3, f"C15.R4: listener paths ok={seen_ok} resend={seen_rs}")
    return n


STRIP_ORACLE = [
    # job line -> what must remain after comment stripping and .strip()  (RS274: '(...)' inline comments, ';' to end of line)
    ("G28", "G28"),
    ("G1 X10 Y0 E1 ; perimeter", "G1 X10 Y0 E1"),
    ("G28 (all axes)", "G28"),
    ("(op 1: home) G28 (all axes)", "G28"),
    ("G1 X0 (left edge) Y10 E3 (extruding)", "G1 X0  Y10 E3"),
    ("; only a comment", ""),
    ("(only a comment)", ""),
    ("M117 hello world", "M117 hello world"),
]


def comment_stripping(check, P):
    """R6: the sender strips comments, and only comments, from a job line (evaluation of the *constant* pattern)."""
    import re
    b = P.resolve_name("gscrib.printrun.gcoder", "gcode_strip_comment_exp")
    pat = None
    if b and b[0] == "var" and isinstance(b[1], ast.Call) and b[1].args and isinstance(b[1].args[0], ast.Constant):
        pat = b[1].args[0].value
    if not isinstance(pat, str):
        raise AnalysisError("C15.R6: gcode_strip_comment_exp is not re.compile(<string literal>) any more")
    try:
        rx = re.compile(pat)
    except re.error as e:
        check.violation("R6", "strip:pattern-invalid", f"gcode_strip_comment_exp {pat!r} is not a valid pattern: {e}", [])
        return 1
    for line, want in STRIP_ORACLE:
        got = rx.sub("", line).strip()
        if got == want:
            check.ok("R6", f"{line!r} -> {want!r}")
        else:
            check.violation("R6", f"strip:{want or 'comment-only'}", f"comment stripping turns the job line {line!r} into {got!r}; the firmware must receive {want!r} "
                            f"(pattern {pat!r})", ["gscrib/printrun/gcoder.py: gcode_strip_comment_exp", "used by printcore._sendnext"])
    return len(STRIP_ORACLE)


def job_indexing(check, P):
    """R5: the i-th entry of (layer_idxs, line_idxs) locates the i-th job line in all_layers, wherever lines are stored."""
    from ..interp import Interp, Frame
    n = 0
    f = P.func("GCode._preprocess", "printrun.gcoder")
    nested = [x for x in ast.walk(f.node) if isinstance(x, ast.FunctionDef) and x.name == "append_lines"]
    if len(nested) != 1:
        raise AnalysisError("C15.R5: GCode._preprocess has no nested append_lines any more")
    nested = nested[0]
    I = Interp(P)
    I.intrinsics["Layer"] = lambda I_, fv, a, k, node: I_.alloc(AList(list(I_.deref(a[0]).items) if a and isinstance(a[0], Ref) and isinstance(I_.deref(a[0]), AList) else []))
    OLD = [Unk("old0", "line"), Unk("old1", "line")]
    NEW = [Unk("new0", "line"), Unk("new1", "line"), Unk("new2", "line")]

    def located(I_, layers, li, ni):
        """the lines located by the index pairs, in order"""
        out = []
        for a, b in zip(li, ni):
            a, b = I_.const_int(a), I_.const_int(b)
            if a is None or b is None or not (0 <= a < len(layers)):
                out.append(None)
                continue
            lay = I_.deref(layers[a]) if isinstance(layers[a], Ref) else None
            out.append(lay.items[b] if isinstance(lay, AList) and lay.items is not None and 0 <= b < len(lay.items) else None)
        return out

    for existing in (True, False):
        def entry(I_, _, existing=existing):
            fr = Frame(f, f.module, {}, qualname="GCode._preprocess")
            I_.frames = [fr]
            try:
                layers = [I_.alloc(AList(list(OLD)))] if existing else []
                all_layers = I_.alloc(AList(layers))
                fr.env.update(build_layers=TRUE, all_layers=all_layers,
                              layer_idxs=I_.alloc(AList([Const(0), Const(0)] if existing else [])),
                              line_idxs=I_.alloc(AList([Const(0), Const(1)] if existing else [])),
                              cur_layer_has_extrusion=Choice("has_extrusion", "bool"), prev_z=Num(Poly.sym("prev_z")), last_layer_z=Num(Poly.sym("last_z")),
                              totalduration=Num(Poly.sym("tot")), layerbeginduration=Num(Poly.sym("beg")), layer_callback=NONE,
                              all_zs=Unk("all_zs", "object"), self=Unk("self", "object"))
                I_.exec(nested, fr)
                I_.call(fr.env["append_lines"], [I_.alloc(AList(list(NEW))), FALSE], {}, nested)
                got = located(I_, I_.deref(all_layers).items, I_.deref(fr.env["layer_idxs"]).items, I_.deref(fr.env["line_idxs"]).items)
                return Tup(tuple(x if x is not None else Const("<nothing>") for x in got))
            finally:
                I_.frames = []
        done = 0
        for path in I.explore(lambda I_: None, entry, max_dev=None, max_paths=200):
            n += 1
            if path.outcome != "return":
                continue
            done += 1
            want = (OLD if existing else []) + NEW
            got = list(path.value.items)
            what = "merged into the last layer" if (existing and len(got) and path.facts.get("bool:has_extrusion") is not True or path.facts.get("cmp:Eq:last_z - prev_z") is True) else "opening a new layer"
            if got == want:
                check.ok("R5", f"_preprocess.append_lines ({'existing layer' if existing else 'empty job'}, {what}): index pairs locate the job lines in order")
            else:
                check.violation("R5", f"append_lines:{'existing' if existing else 'empty'}:index-pairs",
                                f"GCode._preprocess.append_lines ({'a job that already has a layer of two lines' if existing else 'an empty job'}, {what}) stores three lines, "
                                f"after which (layer_idxs[i], line_idxs[i]) locate {[I.tag(x) for x in got]} instead of {[I.tag(x) for x in want]}: "
                                "the sender walks the job through these pairs, so lines are sent twice and others never", [decisions_text(path)])
        check.floor(done >= 1, f"C15.R5: append_lines ({'existing' if existing else 'empty'}) has no completing path")
    # GCode.append(command): the single-line path used by the writers
    fa = P.func("GCode.append", "printrun.gcoder")
    gcls = P.cls("GCode", "printrun.gcoder")
    I.intrinsics["GCode._preprocess"] = lambda I_, fv, a, k, node: NONE

    def entry_append(I_, _):
        I_.frames = [Frame(None, fa.module, {}, qualname="<entry>")]
        try:
            layer = I_.alloc(AList(list(OLD)))
            all_layers = I_.alloc(AList([layer]))
            g = I_.alloc(AObj(gcls, {"lines": I_.alloc(AList(list(OLD))), "append_layer": layer, "append_layer_id": Const(0), "all_layers": all_layers,
                                      "layer_idxs": I_.alloc(AList([Const(0), Const(0)])), "line_idxs": I_.alloc(AList([Const(0), Const(1)]))}, "job"))
            I_.call_function(fa, [g, Unk("arg.command", "str")], {}, fa.node)
            o = I_.deref(g)
            got = located(I_, I_.deref(all_layers).items, I_.deref(o.fields["layer_idxs"]).items, I_.deref(o.fields["line_idxs"]).items)
            lines = I_.deref(o.fields["lines"]).items
            return Tup(tuple(x if x is not None else Const("<nothing>") for x in got) + (lines[-1], Const(len(lines)),))
        finally:
            I_.frames = []
    stored = 0
    for path in I.explore(lambda I_: None, entry_append, max_dev=None, max_paths=200):
        n += 1
        if path.outcome != "return":
            continue
        got = list(path.value.items)
        if got[-1] == Const(len(OLD)):
            continue                # empty command: nothing stored
        stored += 1
        newline = got[-2]
        if got[:-2] == OLD + [newline]:
            check.ok("R5", "GCode.append: the new line is located by the new index pair")
        else:
            check.violation("R5", "append:index-pair", f"GCode.append stores a line after which the index pairs locate {[I.tag(x) for x in got[:-2]]} "
                            f"instead of the two earlier lines and the new one ({I.tag(newline)})", [decisions_text(path)])
    check.floor(stored >= 1, "C15.R5: GCode.append has no storing path")
    return n


def run(check, repo, tier):
    check.rule("R1", "framing N<lineno> <command>*<xor over the prefix>\\n; numbered text stored before the device write")
    check.rule("R2", "numbering: current lineno with checksum, lineno and queueindex advance by one; startprint resets to 0 and announces M110 N-1 first")
    check.rule("R3", "resend window dominates the queues: sentlines[resendfrom] re-sent un-renumbered, resendfrom += 1, nothing else")
    check.rule("R7", "flow control: with the previous line unacknowledged (clear False) while printing, _sendnext sends nothing, advances nothing and does not finish the job")
    check.rule("R5", "job indexing: wherever the parser stores job lines, the i-th (layer, line) index pair locates the i-th line of the job")
    check.rule("R4", "listener: ok sets clear; resend assigns resendfrom from the first integer token, then clear")
    P = Program(repo)
    check.rule("R6", "comment stripping before transmission removes '(...)' and ';...' comments and nothing else (constant pattern evaluated on an oracle table of job lines)")
    n = framing(check, P) + numbering(check, P) + ack_gate(check, P) + listener(check, P) + job_indexing(check, P) + comment_stripping(check, P)
    check.analysed = {"program": P.stats(), "abstract_paths": n, "functions": ["printcore._send", "_checksum", "_sendnext", "startprint", "_reset_line_numbers", "_listen",
                                                                               "GCode._preprocess.append_lines", "GCode.append"]}
    check.sample({"function": "printcore._send", "written": "N<lineno> <command>*<reduce(xor, map(ord, 'N<lineno> <command>'))>\\n", "stored_first": "sentlines[lineno]"})
    check.coverage["exhaustive"] = True
    check.explanation = (
        "The vendored sender's functions are executed abstractly one at a time (no thread interleavings): the device write, the "
        "checksum fold and the bookkeeping stores are read off each path. The listener is run on constant reply lines (constant "
        "evaluation of its string handling). These are necessary conditions; the end-to-end exactly-once guarantee under corruption "
        "and scheduling is not decided.")
    check.assume("NOT decided: exactly-once, in-order acceptance under arbitrary corruption patterns, latencies and thread schedules")
    check.assume("tcp connections (has_flow_control) send without checksums by design")
