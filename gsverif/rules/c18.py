"""C18 -- device reports are parsed into the readings the caller asks for.

Decided part (static): every report line reaches the parser (also a report
that starts with 'ok', and before the acknowledgement is signalled), the
token pattern has the shape the report families need, the dispatch covers the
families, the first occurrence of a letter wins within a report, readings of
letters a report does not mention are kept, and a later report updates again.
Not decided: float() of every decimal string.

R1  must-parse: on every path of the receive callback that is not the error
    branch the parser is called; on the 'ok ...' path before the
    acknowledgement event is set;
R2  VALUE_PATTERN: key = one or more alphanumerics, ':', value = one or more of
    [-0-9.] with comma separated repeats (regex AST facts + evaluation of the
    constant pattern on one line of each report family);
R3  dispatch: single-letter keys, FS under a '<...>' status, MPos/WPos/PRB zipped
    with the axis letters X, Y, Z, ...;
R4  first occurrence wins per report, the per-report set is cleared (and only
    it) at the start of each report, unmentioned readings are kept.
"""
from __future__ import annotations

import ast
import re

from ..driver import World
from ..interp import IterV
from ..model import Program, AnalysisError
from ..poly import Poly
from ..traceutil import decisions_text, calls
from ..values import *
from .c16 import pw_world, ext


def must_parse(check, P):
    W = pw_world(P)
    I = W.I
    I.event_funcs = {"PrintrunWriter._parse_message"}
    msg = Unk("arg.message", "str")
    n = 0
    seen = {"ok": 0, "report": 0}
    # the parser itself is not of interest here
    I.intrinsics["PrintrunWriter._parse_message"] = lambda I_, fv, a, k, node: (I_.emit("CALL", node, func="PrintrunWriter._parse_message", args=tuple(a), kwargs={}), NONE)[1]
    # constant reply lines: how a line is classified (prefix tests, regular expressions, ...) folds to a constant, so the
    # rule does not depend on the way the classification is written
    REPLIES = [("ok", "ok"), ("ok T:210.5 /210.0 B:60.1 /60.0 @:127", "ok"), ("OK T:1.0 /0.0", "ok"),
               ("X:10.00 Y:2.00 Z:0.30 E:0.00 Count X:800", "report"), ("<Idle|MPos:1.000,-2.000,3.500|FS:500,8000>", "report"),
               ("T:150.0 /210.0 B:60.0 /60.0", "report"), ("[PRB:1.000,2.000,-3.500:1]", "report"), ("E:-3.25 X:12.00 Y:22.00", "report")]
    for line, kind in REPLIES:
        for path in I.explore(lambda I: None, lambda I, _, line=line: W.call_method(I, "pw", "_on_device_message", (Const(line),)), max_dev=None, max_paths=200):
            n += 1
            if path.outcome != "return":
                check.violation("R1", f"callback-raises:{path.value.cls}", f"the receive callback raises {path.value.cls} for the reply {line!r}", [decisions_text(path)])
                continue
            parse = [i for i, e in enumerate(path.trace) if e.kind == "CALL" and e.data.get("func") == "PrintrunWriter._parse_message"]
            acks = ext(path, "_ack_event.set")
            d = [f"reply {line!r}", decisions_text(path)]
            if kind == "ok":
                seen["ok"] += 1
                if not parse:
                    check.violation("R1", "ok-report-not-parsed", f"the reply {line!r} returns from the receive callback without reaching the parser: "
                                    "'ok T:210.5 /210.0 B:60.1 /60.0' leaves T and B unset", d)
                elif acks and parse[0] > acks[0][0]:
                    check.violation("R1", "ok-report-parsed-after-ack", "an 'ok ...' report is parsed after the acknowledgement is signalled: write() can return before the reading is stored", d)
                else:
                    arg = path.trace[parse[0]].data["args"][-1]
                    if I.strval(arg) is not None and I.strval(arg).strip() == line.strip():
                        check.ok("R1", f"{line!r}: parsed before the acknowledgement")
                    else:
                        check.violation("R1", "ok-report-parses-other-text", f"the parser receives {arg!r}, not the message {line!r}", d)
            else:
                seen["report"] += 1
                if parse:
                    check.ok("R1", f"{line!r}: unsolicited report parsed")
                else:
                    check.violation("R1", "report-not-parsed", f"the report line {line!r} (neither ok nor error) never reaches the parser", d)
    check.floor(seen["ok"] >= 1 and seen["report"] >= 1, f"C18.R1: callback paths seen: {seen}")
    return n


FAMILIES = [
    ("Marlin M114", "X:10.00 Y:-5.50 Z:0.30 E:1.25 Count X:800 Y:-440 Z:24", [("X", "10.00"), ("Y", "-5.50"), ("Z", "0.30"), ("E", "1.25"), ("X", "800"), ("Y", "-440"), ("Z", "24")]),
    ("Marlin M105", "ok T:210.5 /210.0 B:60.1 /60.0 @:127 B@:0", [("T", "210.5"), ("B", "60.1")]),
    ("Grbl status", "<Idle|MPos:1.000,-2.000,3.500|FS:500,8000|WCO:0.000,0.000,0.000>", [("MPos", "1.000,-2.000,3.500"), ("FS", "500,8000"), ("WCO", "0.000,0.000,0.000")]),
    ("Grbl probe", "[PRB:1.000,2.000,-3.500:1]", [("PRB", "1.000,2.000,-3.500")]),
]


def pattern_rule(check, P):
    b = P.resolve_name("gscrib.writers.printrun_writer", "VALUE_PATTERN")
    pat = None
    if b and b[0] == "var" and isinstance(b[1], ast.Call) and b[1].args and isinstance(b[1].args[0], ast.Constant):
        pat = b[1].args[0].value
    if not isinstance(pat, str):
        raise AnalysisError("C18.R2: VALUE_PATTERN is not re.compile(<string literal>) any more")
    import re._parser as sre
    tree = sre.parse(pat)
    txt = str(tree.data) if hasattr(tree, "data") else str(tree)
    groups = tree.state.groups - 1 if hasattr(tree, "state") else None
    if groups != 2:
        check.violation("R2", "pattern:groups", f"VALUE_PATTERN has {groups} capturing groups; findall must yield (key, value) pairs", [pat])
    else:
        check.ok("R2", "two capturing groups (key, value)")
    # structural facts from the regex AST
    def first_group_items(t):
        for op, av in t:
            if str(op) == "SUBPATTERN":
                return av[3]
        return None
    g1 = first_group_items(tree)
    ok_key = False
    if g1 is not None and len(g1) == 1 and str(g1[0][0]) == "MAX_REPEAT" and g1[0][1][0] >= 1:
        inner = g1[0][1][2]
        if len(inner) == 1 and str(inner[0][0]) == "IN":
            ranges = {(a, z) for op, (a, z) in [(o, v) for o, v in inner[0][1] if str(o) == "RANGE"]}
            ok_key = {(65, 90), (97, 122), (48, 57)} <= ranges
    if ok_key:
        check.ok("R2", "key group: one or more of [A-Za-z0-9]")
    else:
        check.violation("R2", "pattern:key-class", f"the key group of VALUE_PATTERN is not 'one or more alphanumerics': {pat!r}", [])
    # evaluation of the constant pattern on one line per family
    rx = re.compile(pat)
    for fam, line, want in FAMILIES:
        got = rx.findall(line)
        if got == want:
            check.ok("R2", f"{fam}: {len(want)} tokens")
        else:
            check.violation("R2", f"pattern:{fam}", f"VALUE_PATTERN tokenises the {fam} line {line!r} into {got}; the family needs {want}", [pat])
    return pat


def dispatch_rule(check, P):
    W = pw_world(P)
    I = W.I
    orig = I.ext_result
    state = {"tokens": None}

    def ext_result(I_, callee, args, kwargs, node):
        if isinstance(callee, Unk) and callee.tag.endswith(".findall"):
            toks = state["tokens"].pop(0)
            return IterV(tuple(Tup((Const(k), v)) for k, v in toks))
        return orig(I_, callee, args, kwargs, node)
    I.ext_result = ext_result
    a, b, c, d, e = (Unk(f"tok.{x}", "str") for x in "abcde")
    fl = lambda t: Num(Poly.sym(f"float({t.tag})"))
    scenarios = [
        ("position report, X repeated", "X:..", [[("X", a), ("Y", b), ("Z", c), ("E", d), ("X", e)]],
         {"X": fl(a), "Y": fl(b), "Z": fl(c), "E": fl(d)}),
        ("temperature report", "ok T:..", [[("T", a), ("B", b)]], {"T": fl(a), "B": fl(b)}),
        ("grbl status", "<Idle|MPos..", [[("MPos", Const("1.5,-2.5,3.5")), ("FS", Const("500,8000")), ("WCO", Const("0,0,0"))]],
         {"X": 1.5, "Y": -2.5, "Z": 3.5, "F": 500.0, "S": 8000.0}),
        ("grbl work position", "<Run|WPos..", [[("WPos", Const("4,5,6"))]], {"X": 4.0, "Y": 5.0, "Z": 6.0}),
        ("probe report", "[PRB:..", [[("PRB", Const("1.0,2.0,-3.5"))]], {"X": 1.0, "Y": 2.0, "Z": -3.5}),
        ("two reports in a row", "X:..", [[("X", a)], [("X", b), ("Y", c)]], {"X": fl(b), "Y": fl(c)}),
        ("machine and work position repeated in one status", "<Idle,MPos..", [[("MPos", Const("1,2,3")), ("WPos", Const("4,5,6"))]],
         {"X": 1.0, "Y": 2.0, "Z": 3.0}),
        ("letter repeated through FS in one status", "<Run|F..", [[("F", a), ("FS", Const("640,9000"))]], {"F": fl(a), "S": 9000.0}),
        ("letter repeated through MPos in one status", "<Run|Z..", [[("Z", a), ("MPos", Const("1,2,9"))]], {"Z": fl(a), "X": 1.0, "Y": 2.0}),
        ("multi-letter key outside a status is ignored", "FS:..", [[("FS", Const("1,2")), ("T0", a)]], {}),
    ]
    n = 0
    for label, prefix, token_lists, want in scenarios:
        msgs = [Const(prefix) if prefix.startswith(("<", "[")) else Unk("arg.message", "str") for _ in token_lists]

        def entry(I_, _):
            state["tokens"] = [list(t) for t in token_lists]
            for m in msgs:
                W.call_method(I_, "pw", "_parse_message", (m,))
            pw = I_.heap[W.ref("pw").addr]
            return pw.fields.get("_current_params")
        done = 0
        I.default_fact = lambda k: True if k.startswith("floatok:") else None
        for path in I.explore(lambda I: None, entry, max_dev=None, max_paths=5000):
            n += 1
            if path.outcome != "return":
                check.violation("R3", f"parse:{label}:raises", f"parsing a {label} raises {path.value.cls}", [decisions_text(path)])
                continue
            lt = [v for k, v in path.facts.items() if k.startswith("startswith:") and "'<'" in k]
            if lt and lt[0] is True and not prefix.startswith("<"):
                continue        # this scenario is about a line that is not a '<...>' status report
            if lt and lt[0] is False and prefix.startswith("<"):
                continue
            done += 1
            rec = path.heap.get(path.value.addr) if isinstance(path.value, Ref) else None
            d_ = [decisions_text(path)]
            if not isinstance(rec, ADict):
                check.violation("R4", f"parse:{label}:params-lost", "the readings are no longer a record", d_)
                continue
            got = {}
            for k, v in rec.entries.items():
                got[k] = v
            good = True
            for k, w in want.items():
                g = got.get(k)
                gn = I.as_num(g) if g is not None and not isinstance(g, (Opt, Choice)) else None
                wp = w.p if isinstance(w, Num) else Poly.const(w)
                if gn is None or gn.p != wp:
                    good = False
                    check.violation("R3" if "repeated" not in label and "row" not in label else "R4", f"parse:{label}:{k}",
                                    f"{label}: reading {k} is {g!r}, expected {wp.key()}", d_)
            extra = sorted(set(got) - set(want))
            if extra:
                good = False
                check.violation("R3", f"parse:{label}:extra", f"{label}: unexpected readings {extra}", d_)
            if not rec.open:
                good = False
                check.violation("R4", f"parse:{label}:earlier-readings-dropped", f"{label}: the earlier readings are discarded when a report is parsed", d_)
            if good:
                check.ok("R4" if ("repeated" in label or "row" in label) else "R3", f"{label}: {sorted(want)}")
        check.floor(done >= 1, f"C18.R3: scenario '{label}' has no completing path")
    return n


def run(check, repo, tier):
    check.rule("R1", "every non-error reply reaches the parser; an 'ok ...' report before the acknowledgement is signalled")
    check.rule("R2", "VALUE_PATTERN: (key, value) groups, alphanumeric key class, tokenises one line of each report family as required")
    check.rule("R3", "dispatch: letters, FS under a status report, MPos/WPos/PRB zipped with X, Y, Z")
    check.rule("R4", "first occurrence wins per report; a later report updates again; earlier readings are kept")
    P = Program(repo)
    n1 = must_parse(check, P)
    pat = pattern_rule(check, P)
    n3 = dispatch_rule(check, P)
    check.rule("R5", "ParamsDict (the readings record) behaves as the case-insensitive dict the analysis uses in its place: every method executed "
                     "from source on symbolic stored values (a reading of 0 is a value, not an absent key)")
    from . import paramsdict
    paramsdict.contract(check, P, "R5")
    check.analysed = {"program": P.stats(), "callback_paths": n1, "parser_paths": n3, "pattern": pat, "families": [f[0] for f in FAMILIES]}
    check.sample({"scenario": "position report, X repeated", "tokens": "X:a Y:b Z:c E:d X:e", "expected_readings": "X=float(a) (first), Y, Z, E"})
    check.coverage["exhaustive"] = True
    check.explanation = (
        "The receive callback and the parser are executed abstractly; the regular-expression tokeniser is an external call whose "
        "result is supplied per report family (symbolic values), so dispatch, first-occurrence and retention are read off the final "
        "record; the pattern itself is examined through its regex AST and by evaluating the constant pattern on one line per family.")
    check.assume("float() converts every token the pattern lets through (floatok pinned True); decimal parsing itself is not decided")
    check.assume("evaluating the module-level pattern *constant* with the re module is constant evaluation, not execution of gscrib code")
