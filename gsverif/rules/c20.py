"""C20 -- move hooks see the true move; extrusion matches path length.

Decided part (static): how many times and with which values hooks are called,
that their result is what is formatted and remembered, and the algebraic form
of the extrusion amount.  Not decided: the floating-point value of the
product; behaviour with an active transform (the property mentions none).

R1  routing: interpolated paths produce output only through move();
R2  hook loop: for move()/move_absolute() in both distance modes, with one and
    with two registered hooks, each hook is called exactly once, in
    registration order, with (resolved origin, absolute target, parameters,
    state) where the parameters of hook k+1 are the result of hook k;
R3  the record returned by the last hook is the one formatted into the G1
    statement and merged into the remembered parameters;
R4  extrusion hook: the E parameter normalises to
    4 * nozzle * layer * hypot(dx, dy) / (pi * filament^2), plus the
    remembered E (or 0) exactly in absolute extrusion mode; hypot takes the x
    and y components only; the hook returns the record it was given;
R5  set_axis(E=...) reaches the remembered parameters, so a running total restarts.
"""
from __future__ import annotations

import ast

from ..commands import CommandRun
from ..driver import World
from ..interp import Frame
from ..model import Program, AnalysisError
from ..poly import Poly, even_app
from ..traceutil import statements, resolve, chain, decisions_text
from ..values import *

AXES = ("x", "y", "z")


def topoly(v):
    if isinstance(v, Num):
        return v.p
    if isinstance(v, Const) and isinstance(v.v, (int, float)) and not isinstance(v.v, bool):
        return Poly.const(v.v)
    return None


def hook_events(path):
    return [e for e in path.trace if e.kind == "EXT" and isinstance(e.data.get("callee"), Unk) and e.data["callee"].tag.startswith("elem(g._hooks)")]


def analyse(W, name, f, ctx, desc, path):
    items = []
    entry = f"{name}({desc})"
    facts = path.facts
    hooks = hook_events(path)
    if name in ("rapid", "rapid_absolute", "probe", "set_axis", "auto_home"):
        if hooks:
            items.append(("viol", "R2", f"{name}:hooks-on-non-linear", f"{entry}: move hooks are called for a command that is not a linear move", []))
        if name == "set_axis" and path.outcome == "return":
            g = path.heap[W.ref("g").addr]
            rec = path.heap[g.fields["_current_params"].addr]
            st = path.heap[W.ref("state").addr]
            same = isinstance(st.fields.get("_current_params"), Ref) and st.fields["_current_params"].addr == g.fields["_current_params"].addr
            if "kw" in rec.bases and same:
                items.append(("ok", "R5", f"{entry}: extra words (E) reach the remembered parameters of builder and state"))
            else:
                items.append(("viol", "R5", "set_axis:E-not-remembered", f"{entry}: the extra words of set_axis() do not reach the remembered parameters (bases {rec.bases}, shared {same})", []))
        return items
    if name not in ("move", "move_absolute"):
        return items
    nonempty = facts.get("nonempty:g._hooks")
    n_expected = 0 if nonempty is False else facts.get("iter:g._hooks", 1)
    where = [f"path decisions: {decisions_text(path, 14)}"]
    raised_early = path.outcome == "raise"
    if raised_early and len(hooks) < n_expected:
        return items      # rejected before / while running the hooks
    if len(hooks) != n_expected:
        items.append(("viol", "R2", f"{name}:hook-count", f"{entry}: {n_expected} hooks are registered but {len(hooks)} hook calls are made", where))
        return items
    if not hooks:
        return items
    mode = facts.get("enum:g._distance_mode")
    O = []
    for a in AXES:
        k = facts.get(f"opt:g._current_axes.{a}")
        O.append(Poly.const(0) if k == "none" else Poly.sym(f"g._current_axes.{a}"))
    D = []
    p = ctx.get("point")
    for i, a in enumerate("XYZ"):
        if isinstance(p, NT):
            v = resolve(p.items[i], facts)
            D.append(v.p if isinstance(v, Num) else None)
        else:
            D.append(Poly.sym(f"kw[{a}]") if facts.get(f"has:kw[{a}]") is True else None)
    zero = Poly.const(0)
    if name == "move_absolute" or mode == "ABSOLUTE":
        T = [d if d is not None else o for o, d in zip(O, D)]
    else:
        T = [o + (d if d is not None else zero) for o, d in zip(O, D)]
    prev_result = None
    for k, e in enumerate(hooks):
        c = e.data["callee"]
        if not c.tag.endswith(f"#{k}"):
            items.append(("viol", "R2", f"{name}:hook-order", f"{entry}: hook call {k} invokes {c.tag}: not registration order", where))
        a = e.data["args"]
        if len(a) != 4:
            items.append(("viol", "R2", f"{name}:hook-arity", f"{entry}: a hook is called with {len(a)} arguments, the contract is (origin, target, params, state)", where))
            continue
        o_arg, t_arg = resolve(a[0], facts), resolve(a[1], facts)
        ok_o = isinstance(o_arg, NT) and all(topoly(v) == w for v, w in zip((resolve(x, facts) for x in o_arg.items), O))
        ok_t = isinstance(t_arg, NT) and all(topoly(v) == w for v, w in zip((resolve(x, facts) for x in t_arg.items), T))
        if ok_o:
            items.append(("ok", "R2", f"{entry}[{mode}] hook {k}: origin = resolved tracked position"))
        else:
            items.append(("viol", "R2", f"{name}:hook-origin", f"{entry}: hook {k} receives origin {o_arg!r}, the move starts at {[x.key() for x in O]}", where))
        if ok_t:
            items.append(("ok", "R2", f"{entry}[{mode}] hook {k}: target = absolute target"))
        else:
            items.append(("viol", "R2", f"{name}:{mode}:hook-target", f"{entry}: in {mode} mode hook {k} receives target {t_arg!r}, the move ends at {[x.key() for x in T]}", where))
        if a[3] != W.ref("state"):
            items.append(("viol", "R2", f"{name}:hook-state", f"{entry}: hook {k} does not receive the builder's state object", where))
        if k == 0:
            rec = path.heap.get(a[2].addr) if isinstance(a[2], Ref) else None
            if not (isinstance(rec, ADict) and rec.upper):
                items.append(("viol", "R2", f"{name}:hook-params", f"{entry}: the first hook does not receive the call's parameter record", where))
        else:
            if a[2] != prev_result:
                items.append(("viol", "R2", f"{name}:hook-threading", f"{entry}: hook {k} does not receive the result of hook {k - 1}", where))
            else:
                items.append(("ok", "R2", f"{entry}: result of hook {k - 1} threaded into hook {k}"))
        prev_result = e.data.get("result")
    # ---- R3: last result formatted and remembered
    if path.outcome == "return" and isinstance(prev_result, Ref):
        last = path.heap[prev_result.addr]
        sts = [s for s in statements(path) if "G1" in s.codes()]
        if len(sts) != 1:
            items.append(("viol", "R3", f"{name}:g1-count", f"{entry}: {len(sts)} G1 statements delivered", where))
        else:
            pfs = sts[0].params()
            if pfs and last.bases and last.bases[0] in pfs[0].bases and "kw" not in pfs[0].bases:
                items.append(("ok", "R3", f"{entry}: the last hook's record is the one formatted"))
            else:
                items.append(("viol", "R3", f"{name}:hook-result-not-formatted", f"{entry}: the G1 statement formats {pfs[0].bases if pfs else None}, the last hook returned {last.bases}", where))
        g = path.heap[W.ref("g").addr]
        rec = path.heap[g.fields["_current_params"].addr]
        if last.bases and last.bases[0] in rec.bases:
            items.append(("ok", "R3", f"{entry}: the last hook's record is remembered"))
        else:
            items.append(("viol", "R3", f"{name}:hook-result-not-remembered", f"{entry}: the remembered parameters {rec.bases} do not include the last hook's record {last.bases}", where))
    return items


def extrusion_rule(check, P):
    W = World(P, "GCodeBuilder")
    I = W.I
    fn = P.func("extrusion_hook", "hooks.extrusion_hook")
    layer, nozzle, fil = (Num(Poly.sym(n)) for n in ("layer", "nozzle", "filament"))
    o = NT("Point", AXES, tuple(Num(Poly.sym(f"o.{a}")) for a in AXES))
    t = NT("Point", AXES, tuple(Num(Poly.sym(f"t.{a}")) for a in AXES))
    node = ast.parse("0").body[0]
    n = 0

    def entry(I, _):
        I.frames = [Frame(None, fn.module, {}, qualname="<entry>")]
        try:
            hook = I.call_function(fn, [], {"layer_height": layer, "nozzle_diameter": nozzle, "filament_diameter": fil}, node)
            params = I.alloc(ADict(open=True, bases=("p",), upper=True, cls=P.cls("ParamsDict"), label="p"))
            r = I.call(hook, [o, t, params, W.ref("state")], {}, node)
            return Tup((params, r))
        finally:
            I.frames = []

    dx = Poly.sym("t.x") - Poly.sym("o.x")
    dy = Poly.sym("t.y") - Poly.sym("o.y")
    base = Poly.const(4) * nozzle.p * layer.p * even_app("hypot", dx, dy) / (Poly.sym("pi") * fil.p * fil.p)
    for path in I.explore(lambda I: None, entry, max_dev=None):
        n += 1
        d = [decisions_text(path)]
        if path.outcome != "return":
            check.violation("R4", f"extrusion:raises:{path.value.cls}", f"the extrusion hook raises {path.value.cls}", d)
            continue
        params, r = path.value.items
        if r != params:
            check.violation("R4", "extrusion:returns-other-record", "the extrusion hook does not return the record it was given", d)
        rec = path.heap[params.addr]
        E = rec.entries.get("E")
        mode = path.facts.get("enum:state._current_extrusion_mode")
        if mode is None:
            mode = path.facts.get("enum:g._extrusion_mode")
        prev_has = path.facts.get("has:state._current_params[E]")
        want = base
        if mode == "ABSOLUTE":
            want = base + (Poly.sym("state._current_params[E]") if prev_has is True else Poly.const(0))
        got = I.as_num(E) if E is not None and not isinstance(E, (Opt, Choice)) else None
        if got is not None and got.p == want:
            check.ok("R4", f"extrusion[{mode}, previous E {'present' if prev_has else 'absent'}]: E = {want.key()[:80]}")
        else:
            check.violation("R4", f"extrusion:{mode}:amount",
                            f"in {mode} extrusion mode the hook sets E = {got.p.key() if got is not None else E!r}; expected {want.key()}", d)
    check.floor(not (n < 3), f"C20.R4: only {n} abstract paths of the extrusion hook")
    return n


def routing_rule(check, P):
    """R1: in tracer.py output is produced only by self._g.move."""
    mod = P.modules.get("gscrib.geometry.tracer")
    if mod is None:
        raise AnalysisError("C20.R1: gscrib/geometry/tracer.py not found")
    producers = {"move", "rapid", "write", "move_absolute", "rapid_absolute", "probe", "comment", "set_axis", "auto_home", "annotate", "halt",
                 "tool_on", "tool_off", "power_on", "power_off", "set_distance_mode", "absolute_mode", "relative_mode"}
    n = 0
    for fn in [x for x in ast.walk(mod.tree) if isinstance(x, ast.FunctionDef)]:
        # local names that stand for the builder (builder = self._g)
        aliases = set()
        for a in ast.walk(fn):
            if isinstance(a, ast.Assign) and isinstance(a.value, ast.Attribute) and a.value.attr == "_g":
                aliases |= {t.id for t in a.targets if isinstance(t, ast.Name)}
            elif isinstance(a, ast.NamedExpr) and isinstance(a.value, ast.Attribute) and a.value.attr == "_g":
                aliases.add(a.target.id)
        for c in ast.walk(fn):
            if isinstance(c, ast.Call) and isinstance(c.func, ast.Attribute) and c.func.attr in producers \
                    and ((isinstance(c.func.value, ast.Attribute) and c.func.value.attr == "_g")
                         or (isinstance(c.func.value, ast.Name) and c.func.value.id in aliases)):
                if c.func.attr == "move":
                    check.ok("R1", f"{fn.name}: output through move()")
                    n += 1
                else:
                    n += 1
                    check.violation("R1", f"tracer:{fn.name}:{c.func.attr}", f"PathTracer.{fn.name} produces output through {c.func.attr}(), which runs no move hooks",
                                    [f"gscrib/geometry/tracer.py:{c.lineno}"])
    check.floor(n >= 1, "C20.R1: no move() call site found in the tracer")


def pins(key):
    if key == "has:kw[COMMENT]" or key.startswith("has:bounds._bounds[") or key in ("has:kw[F]", "has:kw[S]"):
        return False
    if key.startswith("finite:"):
        return True
    if key.startswith("has:hookret"):
        return False
    return None


def registration(check, P):
    """R6: which hooks are registered after add_hook / remove_hook / move_hook sequences (a hook that is registered is
    the one 'called once per linear move')."""
    from ..interp import AbsRaise, _Return
    W = World(P, "GCodeBuilder", keep_fields=("g._hooks",), universal_lists=())
    I = W.I
    node = ast.parse("0").body[0]
    H = [Unk(f"hook{i}", "hook") for i in range(4)]
    n = 0

    def hooks(I_):
        g = I_.heap[W.ref("g").addr]
        o = I_.deref(g.fields["_hooks"])
        return list(o.items) if isinstance(o, AList) and o.items is not None else None

    def block(I_, hook, body, raises):
        cm = W.call_method(I_, "g", "move_hook", (hook,))
        gfr = cm.frame
        inside = {}

        def cb(val):
            inside["hooks"] = hooks(I_)
            body()
            if raises:
                I_.raise_("BodyError", node, note="with-body raises")
        gfr.yield_cb = cb
        depth = len(I_.frames)
        I_.frames.append(gfr)
        try:
            try:
                I_.exec_block(cm.func.node.body, gfr)
            except _Return:
                pass
            except AbsRaise:
                pass
        finally:
            del I_.frames[depth:]
            gfr.yield_cb = None
        return inside.get("hooks")

    scenarios = []
    for raises in (False, True):
        tag = "raising" if raises else "returning"
        scenarios += [
            (f"add(h0); with move_hook(h1) [{tag} body]", lambda I_, r=raises: (W.call_method(I_, "g", "add_hook", (H[0],)), block(I_, H[1], lambda: None, r))[1],
             [H[0], H[1]], [H[0]]),
            (f"add(h0); with move_hook(h1): add(h2) [{tag} body]", lambda I_, r=raises: (W.call_method(I_, "g", "add_hook", (H[0],)),
                                                                                           block(I_, H[1], lambda: W.call_method(I_, "g", "add_hook", (H[2],)), r))[1],
             [H[0], H[1]], [H[0], H[2]]),
            (f"add(h0); add(h3); with move_hook(h1): remove(h0) [{tag} body]", lambda I_, r=raises: (W.call_method(I_, "g", "add_hook", (H[0],)), W.call_method(I_, "g", "add_hook", (H[3],)),
                                                                                                       block(I_, H[1], lambda: W.call_method(I_, "g", "remove_hook", (H[0],)), r))[2],
             [H[0], H[3], H[1]], [H[3]]),
            (f"with move_hook(h1): with move_hook(h2) [{tag} inner body]", lambda I_, r=raises: block(I_, H[1], lambda: block(I_, H[2], lambda: None, r), False),
             [H[1]], []),
        ]
    scenarios.append(("add(h0); add(h0); remove(h0)", lambda I_: (W.call_method(I_, "g", "add_hook", (H[0],)), W.call_method(I_, "g", "add_hook", (H[0],)),
                                                                  W.call_method(I_, "g", "remove_hook", (H[0],)), None)[3], None, []))
    for label, script, want_inside, want_after in scenarios:
        done = 0

        def entry(I_, _, script=script):
            inside = script(I_)
            return Tup((Const(repr(inside)), Const(repr(hooks(I_)))))
        for path in I.explore(lambda I_: None, entry, max_dev=None, max_paths=500):
            n += 1
            if path.outcome != "return":
                continue
            done += 1
            got_in, got_after = path.value.items[0].v, path.value.items[1].v
            ok_in = want_inside is None or got_in == repr(want_inside)
            if ok_in and got_after == repr(want_after):
                check.ok("R6", f"{label}: registered afterwards {[h.tag for h in want_after]}")
            else:
                check.violation("R6", f"registration:{label.split(' [')[0]}", f"after '{label}' the registered hooks are {got_after} (inside the block: {got_in}); "
                                f"expected {[h.tag for h in want_after]} (inside: {[h.tag for h in want_inside] if want_inside is not None else 'n/a'}): "
                                "a hook registered with add_hook stays registered, a removed one stays removed, move_hook removes only its own hook", [decisions_text(path)])
        check.floor(done >= 1, f"C20.R6: scenario '{label}' has no completing path")
    return n


def run(check, repo, tier):
    check.rule("R1", "the tracer produces output only through move()")
    check.rule("R2", "each registered hook is called once per linear move, in order, with (resolved origin, absolute target, threaded parameters, state), in both distance modes")
    check.rule("R3", "the last hook's record is formatted into the G1 statement and remembered")
    check.rule("R4", "extrusion amount = 4*nozzle*layer*hypot(dx,dy)/(pi*filament^2) (+ previous E in absolute extrusion mode only)")
    check.rule("R5", "set_axis(E=...) reaches the remembered parameters shared by builder and state")
    check.rule("R6", "registration: add_hook / remove_hook / move_hook (also nested, also with a raising body) leave exactly the hooks registered that the calls name")
    cr = CommandRun(repo, tier=tier, methods=["move", "move_absolute", "rapid", "rapid_absolute", "probe", "set_axis", "auto_home"],
                    with_invalid=False, transform="identity", max_dev=None, pins=pins, loop_unroll=2)
    results = cr.run(analyse)
    counts = {}
    for r in results:
        for it in r["items"]:
            if it[0] == "ok":
                check.ok(it[1], it[2])
            else:
                check.violation(it[1], it[2], it[3], it[4])
            counts[it[1]] = counts.get(it[1], 0) + 1
        if len(check.samples) < 6 and r["items"]:
            check.sample({"command": r["command"], "context": r["ctx"], "abstract_paths": r["paths"], "example": [it[2] for it in r["items"] if it[0] == "ok"][:2]})
    for rid, floor in (("R2", 100), ("R3", 20), ("R5", 4)):
        check.floor(not (counts.get(rid, 0) < floor), f"C20.{rid}: only {counts.get(rid, 0)} obligations decided (floor {floor})")
    n4 = extrusion_rule(check, cr.program) + registration(check, cr.program)
    check.rule("R8", "ParamsDict (the record threaded through the hooks and remembered) behaves as the case-insensitive dict the analysis uses in its place")
    from . import paramsdict
    paramsdict.contract(check, cr.program, "R8")
    # the running total lives in the remembered parameters: only motion / offset commands may touch them (rule R7 of C07)
    check.rule("R7", "only commands that deliver a motion / offset statement modify the remembered parameters (the extrusion total restarts only with an E reset)")
    from . import c07
    cr7 = CommandRun(repo, tier=tier, exclude=("write",), cm_body=("pass",), with_invalid=False)
    n7 = 0
    for r in cr7.run(c07.analyse):
        for it in r["items"]:
            if it[1] != "R7":
                continue
            if it[0] == "ok":
                check.ok("R7", it[2])
                n7 += 1
            elif it[0] == "viol":
                check.violation("R7", it[2], it[3], it[4])
                n7 += 1
    check.floor(n7 >= 100, f"C20.R7: only {n7} obligations decided (floor 100)")
    routing_rule(check, cr.program)
    check.analysed = dict(cr.stats, extrusion_paths=n4)
    check.coverage["exhaustive"] = True
    check.explanation = (
        "Hook calls are calls that leave the package: the abstract interpreter records callee, arguments and result of each, so "
        "count, order, argument values (polynomials, both distance modes, one and two hooks) and the flow of the result into the "
        "formatted statement and the remembered parameters are read off each path; the bundled extrusion hook is executed "
        "abstractly and its E value compared as a normalised polynomial with the closed form.")
    check.assume("no transform active; hooks may return any record")
    check.assume("floating-point evaluation of the product is not modelled")
