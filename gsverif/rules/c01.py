"""C01 -- the emitted program reproduces the tracked position.

Decided part (static): the inductive step.  For every public command of the
builder and every abstract path (accepted or rejected), starting from a
machine that agrees with the tracked position and distance mode, an RS274
machine model executes the statements the path delivered (symbolically: the
coordinates are polynomials of the call's inputs); afterwards every axis whose
machine coordinate is known must equal the tracked coordinate, and the tracked
distance mode must equal the machine's.  Established for symbolic inputs,
both modes and every known/unknown/given/omitted axis combination, the step
holds for call histories of any length.  No transform is active (identity).
Not decided: rounding to the configured decimal places; tracer paths are
sequences of move() calls and inherit the step.

R1  to_absolute / to_absolute_list / to_distance_mode have their RS274 meaning;
R3  machine-model agreement of position after every command path;
R4  machine-model agreement of the distance mode; context managers run their
    body in the requested mode and restore the previous one also when it raises;
R5  state and builder copies of position and distance mode stay equal.
"""
from __future__ import annotations

from ..commands import CommandRun
from ..driver import World
from ..machine import Machine, UNKNOWN
from ..model import Program, AnalysisError
from ..poly import Poly
from ..traceutil import statements, is_writer_delivery, Statement, resolve, same_value, chain, decisions_text
from ..values import *

AXES = ("x", "y", "z")


def initial_machine(W, facts):
    g = W.I.static_heap[W.ref("g").addr]
    pos = {}
    for a, c in zip(AXES, g.fields["_current_axes"].items):
        v = resolve(c, facts)
        if isinstance(v, Const) and v.v is None:
            pos[a] = UNKNOWN
        elif isinstance(v, Num):
            pos[a] = v.p
        else:
            pos[a] = Poly.sym(c.name)      # never consulted on this path: any value
    mode = facts.get("enum:g._distance_mode")
    return Machine(pos, mode)


def tracked(W, heap, facts):
    g = heap[W.ref("g").addr]
    g0 = W.I.static_heap[W.ref("g").addr]
    out = {}
    pt = g.fields["_current_axes"]
    if not isinstance(pt, NT):
        return None, None
    for a, c, c0 in zip(AXES, pt.items, g0.fields["_current_axes"].items):
        v = resolve(c, facts)
        if isinstance(v, Opt):
            v = Num(Poly.sym(v.name))
        out[a] = v
    mode = resolve(g.fields["_distance_mode"], facts)
    return out, mode


def analyse(W, name, f, ctx, desc, path):
    items = []
    entry = f"{name}({desc})"
    facts = path.facts
    m = initial_machine(W, facts)
    body_mode_checked = False
    mode_now = resolve(W.I.static_heap[W.ref("g").addr].fields["_distance_mode"], facts)
    for e in path.trace:
        if is_writer_delivery(e):
            m.execute(Statement(e.data["args"][0] if e.data["args"] else NONE, e), facts)
        elif e.kind == "SET" and e.data.get("label") == "g" and e.data.get("field") == "_distance_mode":
            mode_now = resolve(e.data["value"], facts)
        elif e.kind == "NOTE" and str(e.data.get("what", "")).startswith("with-body") and name in ("absolute_mode", "relative_mode"):
            want = "ABSOLUTE" if name == "absolute_mode" else "RELATIVE"
            body_mode_checked = True
            tm = mode_now.name if isinstance(mode_now, Member) else None
            if tm != want or (m.mode is not None and m.mode != want) or (m.mode is None and facts.get("enum:g._distance_mode") != want):
                items.append(("viol", "R4", f"{name}:body-mode", f"{entry}: the with-body runs with tracked mode {tm} and machine mode {m.mode or facts.get('enum:g._distance_mode')}, expected {want}",
                              [f"path decisions: {decisions_text(path)}"]))
            else:
                items.append(("ok", "R4", f"{entry}: body runs in {want} (tracked and machine)"))
    tr, tmode = tracked(W, path.heap, facts)
    where = [f"delivered: {m.log}", f"outcome: {path.outcome}" + (f" {path.value.cls} in {path.raise_site[0]}" if path.outcome == "raise" else ""),
             f"path decisions: {decisions_text(path, 14)}"]
    if tr is None:
        items.append(("viol", "R3", f"{name}:position-not-a-point", f"{entry}: the tracked position is no longer a Point", where))
        return items
    for note in m.notes:
        if "is not a number: Unk(" in note:
            # the coordinate is a value the analysis lost track of (the result of something it does not model)
            items.append(("undecided", "R3", f"{entry}: {note[:200]}"))
            continue
        items.append(("viol", "R3", f"{name}:machine-note:{note.split(' ')[0]}", f"{entry}: {note}", where))
    bad = False
    for a in AXES:
        mv = m.pos[a]
        tv = tr[a]
        if mv is UNKNOWN:
            continue
        lost = any(s.startswith(("home.", "probe-stop.")) for s in mv.symbols())
        if isinstance(tv, Const) and tv.v is None:
            if lost:
                continue    # homed / probed: the interpreter does not know the coordinate either, and the builder says so
            bad = True
            items.append(("viol", "R3", f"{name}:{a}:forgotten:{'rejected' if path.outcome == 'raise' else 'accepted'}",
                          f"{entry}: the emitted program leaves the machine at {a.upper()} = {mv.key()}, a coordinate the program determines, "
                          f"but the builder reports {a.upper()} as unknown", where))
            continue
        if isinstance(tv, Num) and tv.p == mv:
            continue
        bad = True
        got = tv.p.key() if isinstance(tv, Num) else repr(tv)
        items.append(("viol", "R3", f"{name}:{a}:{'rejected' if path.outcome == 'raise' else 'accepted'}",
                      f"{entry}: after the call the machine is at {a.upper()} = {mv.key()} but the builder reports {got}", where))
    if not bad:
        items.append(("ok", "R3", f"{entry} [{path.outcome}]: machine == tracked on known axes {[(a, m.pos[a].key() if m.pos[a] is not UNKNOWN else '?') for a in AXES]}"))
    # ---- R4 mode
    tm = tmode.name if isinstance(tmode, Member) else None
    if m.mode is None:
        # no G90/G91 delivered and the mode never consulted: the tracked mode must be untouched
        g0 = W.I.static_heap[W.ref("g").addr].fields["_distance_mode"]
        if path.heap[W.ref("g").addr].fields["_distance_mode"] == g0:
            items.append(("ok", "R4", f"{entry}: mode untouched"))
        else:
            items.append(("viol", "R4", f"{name}:mode-changed-silently", f"{entry}: the tracked distance mode becomes {tm} although no G90/G91 is delivered", where))
    elif tm == m.mode:
        items.append(("ok", "R4", f"{entry}: mode {tm} (tracked == machine)"))
    else:
        items.append(("viol", "R4", f"{name}:mode:{'rejected' if path.outcome == 'raise' else 'accepted'}",
                      f"{entry}: the machine is in {m.mode} mode but the builder reports {tm}", where))
    if name in ("absolute_mode", "relative_mode"):
        ini = facts.get("enum:g._distance_mode")
        if tm != ini:
            items.append(("viol", "R4", f"{name}:not-restored", f"{entry}: the distance mode on exit is {tm}, on entry it was {ini}", where))
        else:
            items.append(("ok", "R4", f"{entry}: mode restored to {ini}"))
        if not body_mode_checked:
            items.append(("undecided", "R4", f"{entry}: with-body not reached"))
    # ---- R5 mirrored copies (GCodeBuilder only: GCodeCore has no state object)
    if W.cls.name != "GCodeBuilder":
        return items
    st = path.heap[W.ref("state").addr]
    sm = resolve(st.fields.get("_current_distance_mode"), facts)
    if sm != tmode:
        items.append(("viol", "R5", f"{name}:state-mode", f"{entry}: builder distance mode {tmode!r} but state reports {sm!r}", where))
    sp = resolve(st.fields.get("_current_axes"), facts)
    gp = resolve(path.heap[W.ref("g").addr].fields["_current_axes"], facts)
    if isinstance(sp, NT) and isinstance(gp, NT) and all(same_value(x, y) for x, y in zip(sp.items, gp.items)):
        items.append(("ok", "R5", f"{entry}: state copies equal builder's"))
    else:
        items.append(("viol", "R5", f"{name}:state-position", f"{entry}: builder position {gp!r} but state position {sp!r}", where))
    return items


def helper_forms(check, P):
    """R1: the three conversion helpers against their RS274 meaning."""
    W = World(P, "GCodeBuilder")
    I = W.I
    I.transform_mode = "identity"
    pub = W.public_methods()
    zero = Poly.const(0)
    n = 0

    def origin(facts):
        out = []
        for a in AXES:
            k = facts.get(f"opt:g._current_axes.{a}")
            out.append(zero if k == "none" else Poly.sym(f"g._current_axes.{a}"))
        return out

    def arg(facts, name):
        out = []
        for a in AXES:
            k = facts.get(f"opt:{name}.{a}")
            out.append(None if k == "none" else Poly.sym(f"{name}.{a}"))
        return out

    def res_point(v, facts):
        v = resolve(v, facts)
        if not isinstance(v, NT):
            return None
        def one(x):
            if isinstance(x, Num):
                return x.p
            if isinstance(x, Const) and x.v is None:
                return None
            if isinstance(x, Const) and isinstance(x.v, (int, float)) and not isinstance(x.v, bool):
                return Poly.const(x.v)
            return "?"
        return [one(resolve(c, facts)) for c in v.items]

    pt = lambda nm: NT("Point", AXES, tuple(Opt(f"{nm}.{a}") for a in AXES))
    # to_absolute
    for path in I.explore(lambda I: None, lambda I, c: W.call_entry(I, pub["to_absolute"], {"point": pt("arg.p")}), max_dev=None):
        n += 1
        if path.outcome != "return":
            check.violation("R1", "to_absolute:raises", f"to_absolute raises {path.value.cls}", [decisions_text(path)])
            continue
        mode = path.facts.get("enum:g._distance_mode")
        o, d = origin(path.facts), arg(path.facts, "arg.p")
        want = [(oo + (dd if dd is not None else zero)) if mode == "RELATIVE" else (dd if dd is not None else oo) for oo, dd in zip(o, d)]
        got = res_point(path.value, path.facts)
        if got == want:
            check.ok("R1", f"to_absolute[{mode}] given={[x is not None for x in d]}")
        else:
            check.violation("R1", f"to_absolute:{mode}", f"to_absolute in {mode} mode returns {got}, RS274 meaning is {want}", [decisions_text(path, 14)])
    # to_distance_mode
    for path in I.explore(lambda I: None, lambda I, c: W.call_entry(I, pub["to_distance_mode"], {"point": pt("arg.p")}), max_dev=None):
        n += 1
        if path.outcome != "return":
            check.violation("R1", "to_distance_mode:raises", f"to_distance_mode raises {path.value.cls}", [decisions_text(path)])
            continue
        mode = path.facts.get("enum:g._distance_mode")
        o, d = origin(path.facts), arg(path.facts, "arg.p")
        pres = [dd if dd is not None else zero for dd in d]
        want = [pp - oo if mode == "RELATIVE" else pp for pp, oo in zip(pres, o)]
        got = res_point(path.value, path.facts)
        if got == want:
            check.ok("R1", f"to_distance_mode[{mode}]")
        else:
            check.violation("R1", f"to_distance_mode:{mode}", f"to_distance_mode in {mode} mode returns {got}, expected {want}", [decisions_text(path, 14)])
    # to_absolute_list with two points (running sum / running replace)
    def entry(I, c):
        lst = I.alloc(AList([pt("arg.p"), pt("arg.q")]))
        return W.call_entry(I, pub["to_absolute_list"], {"points": lst})
    I.default_fact = lambda k: "some" if k.startswith("opt:g._current_axes") else None
    for path in I.explore(lambda I: None, entry, max_dev=3):
        n += 1
        if path.outcome != "return":
            check.violation("R1", "to_absolute_list:raises", f"to_absolute_list raises {path.value.cls}", [decisions_text(path)])
            continue
        mode = path.facts.get("enum:g._distance_mode")
        o = origin(path.facts)
        p, q = arg(path.facts, "arg.p"), arg(path.facts, "arg.q")
        if mode == "RELATIVE":
            t1 = [oo + (x if x is not None else zero) for oo, x in zip(o, p)]
            t2 = [tt + (x if x is not None else zero) for tt, x in zip(t1, q)]
        else:
            t1 = [x if x is not None else oo for oo, x in zip(o, p)]
            t2 = [x if x is not None else tt for tt, x in zip(t1, q)]
        r = path.value
        items = path.heap[r.addr].items if isinstance(r, Ref) and isinstance(path.heap.get(r.addr), AList) else None
        got = [res_point(x, path.facts) for x in (items or [])]
        if got == [t1, t2]:
            check.ok("R1", f"to_absolute_list[{mode}]")
        else:
            check.violation("R1", f"to_absolute_list:{mode}", f"to_absolute_list in {mode} mode returns {got}, expected {[t1, t2]}", [decisions_text(path, 14)])
    I.default_fact = None
    check.floor(not (n < 100), f"C01.R1: only {n} helper paths (floor 100)")
    return n


def pins(key):
    return None


def run(check, repo, tier):
    check.rule("R1", "to_absolute / to_distance_mode / to_absolute_list equal their RS274 meaning for every mode and every given/omitted, known/unknown axis combination")
    check.rule("R3", "after every command path the RS274 machine model (run on the delivered statements) agrees with the tracked position on every axis whose machine coordinate is known")
    check.rule("R4", "the machine's distance mode equals the tracked one after every path; mode context managers run their body in the requested mode and restore on all exits")
    check.rule("R5", "state copies of position and distance mode equal the builder's after every path")
    cr = CommandRun(repo, tier=tier, exclude=("write",), cm_body=("pass", "raise"), with_invalid=False, transform="identity",
                    max_dev=3 if tier == "quick" else None,
                    pins=(lambda k: False if k == "has:kw[COMMENT]" else None) if tier == "thorough" else None)
    results = cr.run(analyse)
    counts = {}
    motion_cmds = set()
    for r in results:
        for it in r["items"]:
            if it[0] == "ok":
                check.ok(it[1], it[2])
            elif it[0] == "undecided":
                check.undecided(it[1], it[2])
            else:
                check.violation(it[1], it[2], it[3], it[4])
            counts[it[1]] = counts.get(it[1], 0) + 1
        if len(check.samples) < 10 and r["command"] in ("move", "move_absolute", "set_axis", "auto_home", "probe", "absolute_mode"):
            oks = [it[2] for it in r["items"] if it[0] == "ok" and it[1] == "R3"]
            check.sample({"command": r["command"], "context": r["ctx"], "abstract_paths": r["paths"], "example": oks[:1]})
            motion_cmds.add(r["command"])
    for rid, floor in (("R3", 1000), ("R4", 1000), ("R5", 1000)):
        check.floor(not (counts.get(rid, 0) < floor), f"C01.{rid}: only {counts.get(rid, 0)} obligations decided (floor {floor})")
    # the core class on its own (its set_distance_mode / set_axis / write are overridden by the builder)
    core = CommandRun(repo, cls_name="GCodeCore", tier=tier, exclude=("write",), cm_body=("pass", "raise"), with_invalid=False,
                      transform="identity", max_dev=3 if tier == "quick" else None)
    core_n = 0
    for r in core.run(analyse):
        for it in r["items"]:
            if it[0] == "ok":
                check.ok(it[1], "GCodeCore." + it[2])
                core_n += 1
            elif it[0] == "undecided":
                check.undecided(it[1], "GCodeCore." + it[2])
            else:
                check.violation(it[1], "GCodeCore:" + it[2], "[receiver GCodeCore] " + it[3], it[4])
                core_n += 1
    check.floor(core_n >= 300, f"C01: only {core_n} obligations decided for receiver GCodeCore (floor 300)")
    n1 = helper_forms(check, cr.program)
    # mode context managers and absolute bypasses used inside an open mode block (C11's nested scenarios): each exit
    # restores the mode of its own entry, and the delivered G90/G91 leave the machine in the mode the builder reports
    from . import c11
    c11.nested_mode_contexts(check, cr.program, "R4")
    # the formatter contract this check relies on (a coordinate word is a faithful fixed-point rendering of the value):
    # discharged here as well, by the formatter rules of C08
    check.rule("R6", "formatter contract: number() renders its argument in fixed point at the configured precision behind a finiteness guard, "
                     "parameters() sends every numeric value through number() (rules R2, R3, R4 of C08)")
    from . import c08
    from .c13 import _Remap
    _rm = _Remap(check, {"R2": "R6", "R3": "R6", "R4": "R6"})
    _rm.floor = lambda cond, message: check.floor(cond, message.replace("C08.", "C01<-C08."))
    c08.check_number(_rm, cr.program)
    c08.check_parameters(_rm, cr.program)
    from .c04 import point_vector_rule
    point_vector_rule(check, cr.program, "R6")
    check.analysed = dict(cr.stats, helper_paths=n1, gcodecore=core.stats)
    check.coverage["exhaustive"] = tier == "thorough"
    check.explanation = (
        "Symbolic translation validation of one call: the statements delivered on each abstract path are executed by an RS274 "
        "machine model whose coordinates are polynomials of the inputs, starting from agreement with the tracked state; agreement "
        "must hold again afterwards. Because the step is proved for symbolic positions, both modes and all axis subsets, it is "
        "inductive over histories.")
    check.assume("no transform active (identity), as the property states")
    check.assume("rounding to the configured decimal places is not modelled")
    check.assume("axis labels are the default X/Y/Z (relabelling renames words consistently)")
    check.assume("tracer shapes are sequences of move() calls; each move is covered by the step")
