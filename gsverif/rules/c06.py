"""C06 -- the tool and coolant can always be switched off.

Deciding method: exhaustive path enumeration of the four OFF entry points
under the abstract interpreter, from a havocked builder state (every
interlock flag, every prior mode, bounds table open, i.e. any configuration)
with constant propagation of the OFF members.

R1  no validation/interlock raise is reachable on any abstract path;
R2  the delivered statements carry exactly M05 / M09 / M05,M09,comment,M00|M30;
R3  the final store has the corresponding activity flags False.
"""
from __future__ import annotations

from ..commands import CommandRun
from ..traceutil import statements, out_of_scope_exception, out_of_scope_path, chain, decisions_text, norm_code
from ..values import *

# RS274/NGC + Marlin: M5 stop spindle, M9 coolant off, M0 program pause, M30 program end + reset
EXPECTED = {
    "tool_off": lambda ctx: [["M5"]],
    "power_off": lambda ctx: [["M5"]],
    "coolant_off": lambda ctx: [["M9"]],
    "emergency_halt": lambda ctx: [["M5"], ["M9"], "comment", ["M30"] if ctx.get("reset") == TRUE else ["M0"]],
}
FLAGS = {
    "tool_off": ("_is_tool_active",),
    "power_off": ("_is_tool_active",),
    "coolant_off": ("_is_coolant_active",),
    "emergency_halt": ("_is_tool_active", "_is_coolant_active"),
}


def analyse(W, name, f, ctx, desc, path):
    P = W.P
    items = []
    entry = f"{name}({desc})"
    if path.outcome == "raise":
        cls = path.value.cls
        if out_of_scope_path(P, path):
            items.append(("ok", "R1", f"{entry}: only I/O-class exception {cls}"))
            return items
        fn = path.raise_site[0]
        key = f"{name}:refused:{cls}:{fn}"
        items.append(("viol", "R1", key,
                      f"{entry} can be refused: {cls} raised in {fn} (line {path.raise_site[1]})",
                      [f"call chain: {chain(path.raise_stack)}", f"path decisions: {decisions_text(path)}"]))
        return items
    items.append(("ok", "R1", f"{entry}: path completes"))
    # R2 emitted sequence
    got = []
    for s in statements(path):
        codes = s.codes()
        if codes:
            got.append(codes)
        elif s.comments():
            texts = [a for c in s.comments() for a in c.args]
            got.append("comment")
        else:
            got.append(["?" + s.describe()])
    want = EXPECTED[name](ctx)
    if got != want:
        key = f"{name}:sequence:{got}"
        items.append(("viol", "R2", key, f"{entry} emits {got}, expected {want}",
                      [f"path decisions: {decisions_text(path)}"]))
    else:
        items.append(("ok", "R2", f"{entry}: emits {got}"))
        if name == "emergency_halt":
            # the message must be the text of the comment-only statement
            sts = statements(path)
            msg_ok = any(any(_mentions(a, "arg.message") for c in s.comments() for a in c.args) for s in sts if not s.codes())
            if not msg_ok:
                items.append(("viol", "R2", f"{name}:message-missing", f"{entry}: the halt message is not in the comment statement", []))
    # R3 final flags
    state = None
    for a, lab in W.labels.items():
        if lab == "state":
            state = path.heap[a]
    for flag in FLAGS[name]:
        v = state.fields.get(flag)
        if v != FALSE:
            items.append(("viol", "R3", f"{name}:flag:{flag}", f"{entry} leaves state.{flag} = {v!r}, expected False",
                          [f"path decisions: {decisions_text(path)}"]))
        else:
            items.append(("ok", "R3", f"{entry}: {flag} False"))
    return items


def _mentions(v, name):
    if isinstance(v, Str):
        return any(isinstance(p, Text) and p.name == name for p in v.parts)
    if isinstance(v, Unk):
        return v.tag == name
    return False


def run(check, repo, tier):
    check.rule("R1", "no validation/interlock raise reachable on tool_off/power_off/coolant_off/emergency_halt from any state and bounds configuration")
    check.rule("R2", "delivered codes are exactly M05 / M09 / M05,M09,<message comment>,M00|M30 in order (RS274 oracle, modulo leading zeros)")
    check.rule("R3", "final store reports tool and/or coolant inactive")
    cr = CommandRun(repo, tier=tier, methods=list(EXPECTED), max_dev=None, transform="identity")
    results = cr.run(analyse)
    if len(results) < 5:
        raise_floor(len(results))
    for r in results:
        for it in r["items"]:
            if it[0] == "ok":
                check.ok(it[1], it[2])
            else:
                check.violation(it[1], it[2], it[3], it[4])
        check.sample({"entry": r["command"], "context": r["ctx"], "abstract_paths": r["paths"]})
    check.analysed = cr.stats
    check.coverage["exhaustive"] = True
    check.explanation = (
        "Abstract interpretation (constants, enum members, finite unknowns for the interlock flags and prior modes, "
        "open bounds table) of the OFF entry points of GCodeBuilder, all paths enumerated; a finding names the entry, "
        "the raising function and the call chain.")
    check.assume("callers pass type-correct arguments (typeguard failures are not validation errors)")
    check.assume("writer I/O failures (DeviceError family, GscribError wrapper in GCodeCore.write) are outside the property")
    check.assume("formatter contract: command() with no parameters cannot reach number(); verified by C08 rules")


def raise_floor(n):
    from ..model import AnalysisError
    raise AnalysisError(f"C06: expected at least 5 entry contexts, analysed {n}")
