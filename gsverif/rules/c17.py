"""C17 -- socket input is split into lines independently of packet boundaries.

Deciding method: the line splitter is executed by the abstract interpreter on
*symbolic byte strings*: a received chunk is a sequence of named, non-empty,
newline-free segments and newline bytes, so one abstract run stands for every
byte stream of that fragmentation shape.  Shapes are enumerated (bounded):
every sequence of up to three chunks over a seven-shape alphabet (newline at
the start / end / middle / twice / alone / absent), with 'no data yet' results
interleaved, followed by end-of-stream.

R1  conservation: the concatenation of the returned lines equals the
    concatenation of the received chunks (nothing lost, duplicated, reordered);
R2  cutting: every returned line except an unterminated tail ends with the one
    newline it contains; the tail is delivered at end-of-stream, then EOF;
R3  a 'no data yet' result returns the empty marker and leaves the buffer alone.
"""
from __future__ import annotations

import itertools

from ..driver import World
from ..model import Program, AnalysisError
from ..traceutil import decisions_text
from ..values import *

NL = BNL()


def shapes(i):
    s = lambda n: BSeg(f"c{i}{n}")
    return {
        "a": (s("a"),), "a|": (s("a"), NL), "|a": (NL, s("a")), "a|b": (s("a"), NL, s("b")),
        "|": (NL,), "a|b|c": (s("a"), NL, s("b"), NL, s("c")), "||": (NL, NL),
    }


def merge_cr(parts):
    """Undo the head/tail view of a segment that contains a carriage return (x~h x~t -> x, x~h -> x)."""
    out = []
    for p in parts:
        if isinstance(p, BSeg) and p.name.endswith("~t") and out and isinstance(out[-1], BSeg) and out[-1].name == p.name[:-2] + "~h":
            out[-1] = BSeg(p.name[:-2])
        else:
            out.append(p)
    # a head without tail: only when the path decided there is no tail (then the head is the whole segment)
    return tuple(BSeg(p.name[:-2]) if isinstance(p, BSeg) and p.name.endswith("~h") else p for p in out)


# numbers of pending packets tried for one long line (guards that count packets or bytes tend to sit at powers of two)
LONG_LINES = {"quick": (70, 300), "thorough": (70, 300, 1100, 4200)}


def scripts(tier):
    names = list(shapes(0))
    out = []
    maxlen = 4 if tier == "thorough" else 3
    for n in range(1, maxlen + 1):
        for combo in itertools.product(names, repeat=n):
            out.append([("chunk", c) for c in combo])
    # 'no data yet' interleavings for the one- and two-chunk scripts
    for n in (1, 2):
        for combo in itertools.product(names, repeat=n):
            for pos in range(n + 1):
                sc = [("chunk", c) for c in combo]
                sc.insert(pos, ("again", None))
                out.append(sc)
    if tier == "quick":
        # every 1- and 2-chunk script, the timeouts, and the 3-chunk scripts whose middle chunk has no newline
        out = [sc for sc in out if len(sc) <= 2 or any(k == "again" for k, _ in sc) or sc[1][1] in ("a", "|")]
    return out


def run(check, repo, tier):
    check.rule("R1", "byte conservation: concatenation of returned lines == concatenation of received chunks")
    check.rule("R2", "every returned line but an unterminated tail ends with its only newline; the tail comes at end-of-stream, then EOF")
    check.rule("R3", "'no data yet' returns the empty marker and does not touch the buffer")
    P = Program(repo)
    W = World(P, "Device", root_label="dev", module_hint="printrun.device", keep_fields=("dev._read_buffer",))
    I = W.I
    I.ext_quiet = lambda tag: "logger" in tag or tag.startswith("logging")
    I.while_bound = 16
    orig = I.ext_result
    state = {}

    def ext_result(I_, callee, args, kwargs, node):
        if isinstance(callee, Unk) and callee.tag.endswith("_socketfile.read"):
            if state["script"]:
                kind, val = state["script"].pop(0)
                if kind == "again":
                    state["again"] += 1
                    return NONE
                state["received"] += val
                return BV(val)
            state["eof_reads"] += 1
            return Const(b"")
        if isinstance(callee, Unk) and callee.tag.endswith("_selector.select"):
            return Const(0)          # still nothing to read after the timeout
        return orig(I_, callee, args, kwargs, node)
    I.ext_result = ext_result
    f = P.func("Device._readline_socket", "printrun.device")
    empty = P.resolve_name("gscrib.printrun.device", "READ_EMPTY")
    n_scripts = 0
    n_paths = 0
    all_scripts = [(sc, None) for sc in scripts(tier)]
    # a write that fails between two reads marks the connection as lost (Device._write_socket): what was received before
    # is still delivered -- the same scripts with the flag dropped after the first returned line
    all_scripts += [(sc, 1) for sc in ([("chunk", "a|b|c")], [("chunk", "a|b")], [("chunk", "||")], [("chunk", "a|b|c"), ("chunk", "a")])]
    # one long line that arrives in very many newline-free packets (a status report sent a byte at a time): however many
    # packets are pending, nothing is returned before the line ending arrives (or the stream ends)
    for n_packets in LONG_LINES[tier]:
        all_scripts.append(([("chunk", "a")] * n_packets + [("chunk", "a|")], None))
        all_scripts.append(([("chunk", "a")] * n_packets + [("again", None), ("chunk", "a|b")], None))
    for script, drop_after in all_scripts:
        concrete = []
        for i, (kind, nm) in enumerate(script):
            concrete.append((kind, shapes(i)[nm] if kind == "chunk" else None))
        long_line = len(script) > 8
        I.while_bound = len(script) + 16
        label = (f"{len(script) - 1} packets without a line ending , {script[-1][1]}" + (" after <no data>" if script[-2][0] == "again" else "")) if long_line else \
            " , ".join(nm if k == "chunk" else "<no data>" for k, nm in script) + (f" , connection flag lost after read {drop_after}" if drop_after else "")

        def entry(I_, _):
            state.update(script=list(concrete), received=(), again=0, eof_reads=0)
            dev = I_.heap[W.ref("dev").addr]
            dev.fields["_type"] = Const("socket")
            dev.fields["_is_connected"] = TRUE
            dev.fields["_socketfile"] = Unk("dev._socketfile", "object")
            dev.fields["_selector"] = Unk("dev._selector", "object")
            dev.fields["_device"] = Unk("dev._device", "object")
            for p in concrete:
                if p[1]:
                    for x in p[1]:
                        if isinstance(x, BSeg):
                            I_.positive_syms.add(f"len({x.name})")
            lines = []
            for _k in range(4 * len(concrete) + 8):
                r = W.call_method(I_, "dev", "_readline_socket", ())
                lines.append(r)
                if isinstance(r, Const) and r.v is None:
                    break
                if drop_after is not None and _k + 1 == drop_after:
                    I_.heap[W.ref("dev").addr].fields["_is_connected"] = FALSE
            buf = I_.heap[I_.heap[W.ref("dev").addr].fields["_read_buffer"].addr]
            return Tup((Tup(tuple(lines)), Tup(tuple(state["received"])), Const(len(buf.items) if buf.items is not None else -1)))
        n_scripts += 1
        def explored():
            # a splitter that decides something per packet (a length comparison, say) has exponentially many paths on the
            # long-line scripts: those are explored with at most two deviating decisions, and running out of budget on
            # them is recorded, not fatal (the short scripts above are the exhaustive part)
            if not long_line:
                yield from I.explore(lambda I: None, entry, max_dev=(3 if tier == "quick" else None), max_paths=(2000 if tier == "quick" else 60000))
                return
            try:
                yield from I.explore(lambda I: None, entry, max_dev=(1 if tier == "quick" else 2), max_paths=(2000 if tier == "quick" else 20000))
            except AnalysisError as e:
                check.assume(f"long-line script [{label}] not explored to the end ({e})")
        for path in explored():
            n_paths += 1
            d = [f"script: {label}", decisions_text(path)]
            if path.outcome != "return":
                check.violation("R1", f"raises:{path.value.cls}", f"reading the stream [{label}] raises {path.value.cls} in {path.raise_site[0]}", d)
                continue
            lines, received, buflen = path.value.items
            lines = list(lines.items)
            if not (isinstance(lines[-1], Const) and lines[-1].v is None):
                check.violation("R2", "no-eof", f"stream [{label}]: end-of-stream is never reported", d)
                continue
            data = [x for x in lines[:-1] if not (isinstance(x, Const) and x.v == b"")]
            opaque = [x for x in data if not isinstance(x, BV)]
            if opaque:
                check.violation("R1", "cut-inside-bytes", f"stream [{label}]: a returned line is cut at an offset that is not a chunk/newline boundary: {opaque[0]!r}", d)
                continue
            got = merge_cr(tuple(p for x in data for p in x.parts))
            if got != tuple(received.items):
                check.violation("R1", "conservation", f"stream [{label}]: received {BV(tuple(received.items))!r} but the returned lines concatenate to {BV(got)!r}", d)
                continue
            check.ok("R1", f"[{label}]")
            bad = None
            for k, x in enumerate(data):
                nls = [i for i, p in enumerate(x.parts) if isinstance(p, BNL)]
                last = k == len(data) - 1
                if nls == [len(x.parts) - 1]:
                    continue
                if last and not nls:
                    continue
                bad = x
                break
            if bad is not None:
                check.violation("R2", "cutting", f"stream [{label}]: returned line {bad!r} is not 'bytes up to and including one newline'", d)
            else:
                check.ok("R2", f"[{label}]: {len(data)} lines")
            n_again = sum(1 for k, _ in script if k == "again")
            empties = sum(1 for x in lines[:-1] if isinstance(x, Const) and x.v == b"")
            if empties < n_again:
                check.violation("R3", "no-data-marker", f"stream [{label}]: {n_again} 'no data yet' results produce {empties} empty markers", d)
            else:
                check.ok("R3", f"[{label}]")
    check.floor(n_scripts >= 50 and n_paths >= n_scripts, f"C17: {n_scripts} scripts / {n_paths} paths")
    check.analysed = {"program": P.stats(), "fragmentation_scripts": n_scripts, "abstract_paths": n_paths,
                      "alphabet": list(shapes(0)), "max_chunks": 4 if tier == "thorough" else 3}
    check.sample({"script": "a|b , c , <no data> , |d", "received": "a \\n b c \\n d", "expected_lines": ["a\\n", "bc\\n", "d (tail at end-of-stream)"]})
    check.coverage["exhaustive"] = False
    check.explanation = (
        "Abstract execution of Device._readline_socket/_readline_buf on symbolic byte strings (named newline-free segments and "
        "newline bytes; lengths are polynomials, segment lengths positive). Each script fixes only the *shape* of the "
        "fragmentation; contents and lengths are arbitrary. The scripts enumerate all chunk-shape sequences up to length 3 over a "
        "7-shape alphabet plus interleaved read timeouts (quick: a covering subset).")
    check.assume("bounded: fragmentations of more than three chunks between two reads of end-of-stream are not enumerated; the buffer invariant is not proved inductively")
    check.assume("select() reporting readiness after a timeout is modelled as 'still no data'")
