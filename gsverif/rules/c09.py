"""C09 -- comment text can never change what the machine executes.

Deciding method: taint analysis on the provenance domain of the abstract
interpreter.  Sources are the caller's text values; the sink is the delivered
statement.

R1  formatter level, per comment style (every enclosed pair of the source's
    COMMENT_OPENINGS/ENDINGS tables plus open styles): abstractly executing
    ``set_comment_symbols(style); comment(text)`` yields
    ``<opening> <text'> [<closing>]`` where text' provably contains no line
    break and, for enclosed styles, no closing delimiter;
R2  builder level, every command: caller text reaches the writers only inside
    the argument of the comment template, line-break free; never as part of
    the executable words;
R3  exactly one line per write (terminator once; shared with C08.R5).
"""
from __future__ import annotations

import ast
import re

from ..commands import CommandRun
from ..driver import World
from ..interp import Frame
from ..model import Program, AnalysisError
from ..traceutil import statements, chain, decisions_text
from ..values import *

MUST_REMOVE = frozenset("\n\r")


def caller_text(name: str) -> bool:
    return name.startswith("arg.") or name.startswith("kw[") or name.startswith("str(arg.") or name.startswith("str(kw[")


def wraps_caller_text(name: str) -> bool:
    """A text the analysis lost track of: the result of an operation it does not model, applied to caller text."""
    return not caller_text(name) and re.search(r"\b(arg\.|kw\[)", name) is not None


def _texts(v):
    """All Text parts inside a value (recursively through Str / Fmt)."""
    out = []
    if isinstance(v, Str):
        for p in v.parts:
            if isinstance(p, Text):
                out.append(p)
            elif isinstance(p, Fmt):
                for a in p.args:
                    out += _texts(a)
                out += _texts(p.template)
            elif isinstance(p, StrOf):
                out += _texts(p.value)
    elif isinstance(v, Unk) and v.typ == "str":
        out.append(Text(v.tag))
    return out


def analyse(W, name, f, ctx, desc, path):
    items = []
    entry = f"{name}({desc})"
    for s in statements(path):
        where = [f"delivered at {s.event.where()} via {chain(s.event)}", f"statement: {s.describe()[:100]}",
                 f"path decisions: {decisions_text(path, 8)}"]
        for p in s.parts:
            if isinstance(p, Text) and wraps_caller_text(p.name):
                items.append(("undecided", "R2", f"{entry}: the statement contains {p.name[:80]}: an operation on caller text that the analysis does not model"))
            elif isinstance(p, Text) and caller_text(p.name):
                if name == "write" and p.name == "arg.statement":
                    continue        # raw write(): the statement itself is the caller's
                items.append(("viol", "R2", f"{name}:text-outside-comment:{p.name}",
                              f"{entry}: caller text {p.name} is delivered outside any comment", where))
            elif isinstance(p, StrOf) and isinstance(p.value, Unk) and p.value.typ == "str" and caller_text(p.value.tag):
                items.append(("viol", "R2", f"{name}:text-outside-comment:{p.value.tag}",
                              f"{entry}: caller text {p.value.tag} is delivered outside any comment", where))
            elif isinstance(p, Fmt):
                if not (isinstance(p.template, Unk) and p.template.tag == "fmt._comment_template"):
                    for t in _texts(p.template):
                        if caller_text(t.name):
                            items.append(("viol", "R2", f"{name}:text-as-template:{t.name}", f"{entry}: caller text {t.name} is used as a format template", where))
                for a in p.args:
                    ts = _texts(a)
                    for t in ts:
                        if wraps_caller_text(t.name):
                            items.append(("undecided", "R2", f"{entry}: the comment text is {t.name[:80]}: an operation on caller text that the analysis does not model"))
                            continue
                        if not caller_text(t.name):
                            continue
                        enclosed = path.facts.get("opt:fmt._comment_ending") == "some"
                        if enclosed and "val:fmt._comment_ending" not in t.removed:
                            items.append(("viol", "R2", f"{name}:closing-not-removed:{t.name}",
                                          f"{entry}: under an enclosed comment style, caller text {t.name} reaches the delivered statement with the closing "
                                          f"symbols not provably removed (removed: {sorted(t.removed)!r}): the text can end the comment early", where))
                        elif MUST_REMOVE <= t.removed:
                            items.append(("ok", "R2", f"{entry}: {t.name} inside the comment, line breaks"
                                          + (" and closing symbols" if enclosed else "") + " removed"))
                        else:
                            items.append(("viol", "R2", f"{name}:unsanitised:{t.name}",
                                          f"{entry}: caller text {t.name} reaches the comment of a delivered statement with line breaks "
                                          f"not provably removed (removed: {sorted(t.removed)!r})", where))
                    if isinstance(a, Unk) and a.typ == "str" and not ts:
                        items.append(("undecided", "R2", f"{entry}: opaque comment argument {a.tag}"))
    return items


def styles_from_source(P: Program):
    opens = P.resolve_name("gscrib.formatters.default_formatter", "COMMENT_OPENINGS")
    ends = P.resolve_name("gscrib.formatters.default_formatter", "COMMENT_ENDINGS")
    try:
        o = list(ast.literal_eval(opens[1]))
        e = list(ast.literal_eval(ends[1]))
    except Exception as ex:
        raise AnalysisError(f"C09: COMMENT_OPENINGS/COMMENT_ENDINGS are not literal tuples any more ({ex})")
    if len(o) != len(e) or len(o) < 3:
        raise AnalysisError("C09: COMMENT_OPENINGS and COMMENT_ENDINGS differ in length")
    return o, e


CLOSERS = {"(": ")", "[": "]", "{": "}", "<": ">", '"': '"', "'": "'", "/*": "*/"}


def formatter_level(check, P):
    W = World(P, "DefaultFormatter", root_label="fmt", universal_lists=())
    I = W.I
    f_set = P.func("DefaultFormatter.set_comment_symbols")
    f_com = P.func("DefaultFormatter.comment")
    opens, ends = styles_from_source(P)
    styles = [(o, True) for o in opens] + [(";", False), ("#", False), ("//", False), ("%", False)]
    # the setter accepts and trims surrounding whitespace: the padded spellings are the same styles
    styles += [(f"{o} ", True) for o in opens] + [(f" {o}", True) for o in opens[:2]] + [("; ", False)]
    n = 0
    for sym, enclosed in styles:
        base = sym.strip()
        text = Unk("arg.text", "str")

        def entry(I, _):
            W.call_entry(I, f_set, {"value": Const(sym)})
            return W.call_entry(I, f_com, {"text": text})

        def entry_after_rejected(I, _, bad):
            # histories contain rejected calls: a refused reconfiguration must leave the style as it was
            from ..interp import AbsRaise
            W.call_entry(I, f_set, {"value": Const(sym)})
            try:
                W.call_entry(I, f_set, {"value": Const(bad)})
            except AbsRaise:
                return W.call_entry(I, f_com, {"text": text})
            return Const("<accepted>")          # the value was accepted: a different style, judged by its own run
        if enclosed and sym == sym.strip():
            for bad in ("", "   ", "a b"):
                for path in I.explore(lambda I: None, lambda I, c, bad=bad: entry_after_rejected(I, c, bad), max_dev=None):
                    n += 1
                    if path.outcome != "return" or path.value == Const("<accepted>"):
                        continue
                    sv = I.as_str(path.value)
                    ts = [p for p in (sv.parts if sv is not None else []) if isinstance(p, Text) and p.name == "arg.text"]
                    closing = CLOSERS.get(sym)
                    tag = closing if closing is not None and len(closing) == 1 else "seq:" + str(closing)
                    suffix_ok = sv is not None and any(isinstance(p, Lit) and closing and closing in p.text for p in sv.parts[-1:])
                    if not suffix_ok:
                        continue        # the rejected call changed the style to an open one as a whole: consistent
                    if ts and (tag in ts[0].removed) and MUST_REMOVE <= ts[0].removed:
                        check.ok("R1", f"style {sym!r} after a rejected set_comment_symbols({bad!r}): still sanitised")
                    elif not ts:
                        # the text is not there as itself (an unmodelled operation stands in its place): the main run judges that
                        check.undecided("R1", f"style {sym!r} after a rejected set_comment_symbols({bad!r}): the comment text is {sv!r}, which the analysis cannot follow")
                    else:
                        check.violation("R1", f"style:{sym}:after-rejected-reconfiguration",
                                        f"comment style {sym!r}: after set_comment_symbols({bad!r}) was rejected, comment() still closes with {closing!r} but no longer removes it "
                                        f"from the text (removed: {sorted(ts[0].removed) if ts else '?'}): the rejected call left template and closing symbols inconsistent",
                                        [f"path decisions: {decisions_text(path)}"])
        for path in I.explore(lambda I: None, entry, max_dev=None):
            n += 1
            d = [f"path decisions: {decisions_text(path)}"]
            if path.outcome != "return":
                notes = [e.data.get("note") or "" for e in path.trace if e.kind == "RAISE"]
                if path.value.cls == "ValueError" and any("malformed format template" in x for x in notes):
                    # the style cannot produce any output (str.format rejects the template for every text):
                    # nothing can be emitted under it, so the property holds vacuously; recorded, not reported
                    check.ok("R1", f"style {sym!r}: template rejected by str.format for every text, no output possible")
                    check.assume(f"comment style {sym!r} is unusable in this tree (its template is not a valid str.format template); vacuous")
                    continue
                check.violation("R1", f"style:{sym}:raises", f"comment() raises {path.value.cls} for comment style {sym!r}", d)
                continue
            sv = I.as_str(path.value)
            if sv is None:
                check.undecided("R1", f"comment() returns {path.value!r} for style {sym!r}: the analysis lost track of how it is built")
                continue
            parts = list(sv.parts)
            texts = [p for p in parts if isinstance(p, Text)]
            lits = [p.text for p in parts if isinstance(p, Lit)]
            lost = [p for p in parts if not isinstance(p, Lit) and not (isinstance(p, Text) and p.name == "arg.text") and "arg.text" in repr(p)]
            if not lost:
                # the result of a call the analysis does not model stands where the text should be
                lost = [p for p in parts if isinstance(p, StrOf) and isinstance(p.value, Unk) and p.value.typ == "ext"]
            if lost:
                check.undecided("R1", f"style {sym!r}: the comment text is {repr(lost[0])[:120]}: an operation on the caller's text that the analysis does not model")
                continue
            if len(texts) != 1 or texts[0].name != "arg.text" or any(not isinstance(p, (Lit, Text)) for p in parts):
                check.violation("R1", f"style:{sym}:shape", f"comment() for style {sym!r} yields {sv!r}, expected <opening> <text> [<closing>]", d)
                continue
            t = texts[0]
            i = parts.index(t)
            prefix = "".join(p.text for p in parts[:i] if isinstance(p, Lit))
            suffix = "".join(p.text for p in parts[i + 1:] if isinstance(p, Lit))
            if not prefix.startswith(base):
                check.violation("R1", f"style:{sym}:opening", f"comment() for style {sym!r} does not start with the comment symbols: {prefix!r}", d)
                continue
            if not MUST_REMOVE <= t.removed:
                check.violation("R1", f"style:{sym}:line-breaks",
                                f"comment style {sym!r}: line breaks are not provably removed from the text (removed: {sorted(t.removed)!r}); "
                                "a line break in a comment starts a new executable line", d)
                continue
            if enclosed:
                closing = CLOSERS.get(base)
                # table agreement: the closing symbols of the source's table are the bracket partner
                idx = opens.index(base)
                if closing is not None and ends[idx] != closing:
                    check.violation("R1", f"style:{sym}:table", f"COMMENT_ENDINGS pairs {sym!r} with {ends[idx]!r}, expected {closing!r}", d)
                    continue
                closing = ends[idx]
                if suffix.strip() != closing:
                    check.violation("R1", f"style:{sym}:closing", f"comment() for style {sym!r} ends with {suffix!r}, expected the closing symbols {closing!r}", d)
                    continue
                tag = closing if len(closing) == 1 else "seq:" + closing
                if tag not in t.removed and not (len(closing) > 1 and all(c in t.removed for c in closing)):
                    check.violation("R1", f"style:{sym}:delimiter",
                                    f"comment style {sym!r}: the closing symbols {closing!r} are not provably removed from the text "
                                    f"(removed: {sorted(t.removed)!r}); the comment could be closed early", d)
                    continue
            elif suffix.strip():
                check.violation("R1", f"style:{sym}:suffix", f"open comment style {sym!r} yields a suffix {suffix!r}", d)
                continue
            check.ok("R1", f"style {sym!r}: {prefix!r} <text, removed {len(t.removed)} characters> {suffix!r}")
    check.floor(n >= len(styles), f"C09.R1: {n} paths for {len(styles)} styles")
    return n, len(styles)


def tracer_level(check, P):
    """The tracer's entry points take the same free-text keyword (comment=...) and forward it to move(): run the
    emission loops of parametric() and polyline() with the real move() and judge every delivered statement with the
    rule used for the builder's own commands."""
    from ..tracerlab import Lab, AX
    from ..poly import Poly
    n = 0
    S = [[Poly.sym(f"s{i}.{a}") for a in AX] for i in range(2)]

    def pins(key):
        if key.startswith("has:bounds._bounds[") or key.startswith("has:kw") or key == "nonempty:g._hooks":
            return False
        if key.startswith("finite:") or key.startswith("cmp:Gt:estimated") or key == "cmp:Gt:arg.length":
            return True
        return None
    for what in ("parametric", "polyline"):
        L = Lab(P)
        I, W = L.I, L.W
        I.default_fact = pins
        I.intrinsics.pop("PathTracer.parametric", None)
        I.loop_unroll = 1
        samples = ArrV(tuple(Tup(tuple(Num(p) for p in s_)) for s_ in S))
        I.intrinsics["PathTracer._filter_segments"] = lambda I_, fv, a, k, node: a[1]
        orig = I.ext_result

        def ext_result(I_, callee, args, kwargs, node, orig=orig):
            if isinstance(callee, Unk) and callee.tag == "arg.function":
                return samples
            return orig(I_, callee, args, kwargs, node)
        I.ext_result = ext_result
        text = Unk("arg.comment", "str")

        def entry(I_, _):
            kw = {"F": Num(Poly.sym("caller.F")), "comment": text}
            if what == "parametric":
                return W.call_method(I_, "tracer", "parametric", (Unk("arg.function", "hook"), Num(Poly.sym("arg.length"))), kw)
            pts = [L.target("ABSOLUTE", S[0], 3), L.target("ABSOLUTE", S[1], 3, prev=S[0])]
            return W.call_method(I_, "tracer", "polyline", (I_.alloc(AList(pts)),), kw)
        seen = 0
        for path in I.explore(L.setup("ABSOLUTE", "CLOCKWISE"), entry, max_dev=None, max_paths=3000):
            n += 1
            if path.outcome != "return":
                continue
            items = analyse(W, f"trace.{what}", None, {}, "comment=<str>", path)
            delivered = [s_ for s_ in statements(path)]
            if not delivered:
                continue
            seen += 1
            mentioned = any(it[0] == "ok" for it in items) or any(it[0] != "ok" for it in items)
            if not mentioned:
                # the text did not reach any statement at all: it must not silently become something else either
                raw = [s_ for s_ in delivered if any("arg.comment" in repr(p_) for p_ in s_.parts if not isinstance(p_, Fmt))]
                inside = [s_ for s_ in delivered if any("arg.comment" in repr(p_) for p_ in s_.parts if isinstance(p_, Fmt))]
                if inside and not raw:
                    items.append(("undecided", "R2", f"trace.{what}(comment=<str>): the comment argument is {inside[0].describe()[:100]}: an operation on the caller's text that the analysis does not model"))
                elif raw:
                    items.append(("viol", "R2", f"trace.{what}:text-outside-comment:arg.comment",
                                  f"trace.{what}(comment=<str>): the caller's text reaches a delivered statement outside the comment template: {delivered[0].describe()[:120]}",
                                  [decisions_text(path, 8)]))
            for it in items:
                if it[0] == "ok":
                    check.ok(it[1], it[2])
                elif it[0] == "undecided":
                    check.undecided(it[1], it[2])
                else:
                    check.violation(it[1], it[2], it[3], it[4])
        check.floor(seen >= 1, f"C09.R2: trace.{what} delivers nothing on any accepted path")
    return n


def run(check, repo, tier):
    check.rule("R1", "per comment style: comment(text) = <opening> <text without line breaks and without the closing symbols> [<closing>]")
    check.rule("R2", "caller text reaches the writers only inside the comment template's argument, line-break free")
    cr = CommandRun(repo, tier=tier, cm_body=("pass",), with_invalid=False)
    results = cr.run(analyse)
    sources = set()
    n_ok = 0
    for r in results:
        for it in r["items"]:
            if it[0] == "ok":
                check.ok(it[1], it[2])
                n_ok += 1
                sources.add(r["command"])
            elif it[0] == "undecided":
                check.undecided(it[1], it[2])
            else:
                check.violation(it[1], it[2], it[3], it[4])
                n_ok += 1
                sources.add(r["command"])
        if len(check.samples) < 8 and r["items"]:
            check.sample({"command": r["command"], "context": r["ctx"], "abstract_paths": r["paths"], "text_flows": len(r["items"])})
    need = {"comment", "annotate", "emergency_halt", "move", "rapid", "probe", "set_axis", "auto_home"}
    check.floor(not (not need <= sources), f"C09.R2: no caller-text flow seen for {sorted(need - sources)} (anchor floor)")
    n1, ns = formatter_level(check, cr.program)
    n2 = tracer_level(check, cr.program)
    check.analysed = dict(cr.stats, text_flows=n_ok, commands_with_text=sorted(sources), comment_styles=ns, formatter_paths=n1, tracer_paths=n2)
    check.coverage["exhaustive"] = tier == "thorough"
    check.explanation = (
        "Taint analysis over provenance terms: every caller-supplied string is a named text symbol carrying the set of characters "
        "provably removed from it; delivered statements are inspected for where such symbols sit (inside the comment template's "
        "argument or not) and what was removed; the comment styles are enumerated from the source's own delimiter tables and "
        "comment() is abstractly executed for each.")
    check.assume("line breaks that matter to a G-code consumer are LF and CR")
    check.assume("a first-close lexer ends an enclosed comment at the first closing symbol; removing the opening symbol is not required")
    check.assume("custom formatters installed with set_formatter() are outside the property (DefaultFormatter is analysed)")
