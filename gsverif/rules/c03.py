"""C03 -- configured bounds are never exceeded by an emitted command.

Decided part (static): (a) on every abstract path of every public command,
each delivered word that denotes a bounded quantity carries the very value
that was handed to ``BoundManager.validate`` for that quantity earlier on the
path, and each motion statement was preceded by a validation of the *unmasked*
absolute target in builder coordinates; (b) the acceptance predicate itself
accepts exactly ``min <= v <= max`` (NaN rejected, unknown coordinates
skipped), decided by exhaustive enumeration of order positions.
Not decided: that numpy scalars compare like floats.

R1  validate-dominates-emit for F / S / R / T words (RS274 word->quantity oracle);
R2  validate-dominates-emit for the axes target of G0/G1/G38.x/G92 statements;
R3  truth table of BoundManager.validate / Point.within_bounds over order
    positions {below, =min, inside, =max, above, NaN} and unknown coordinates;
R4  every bounded property name is validated by some command path (7/7) and
    set_bounds stores a pair only after rejecting min >= max.
"""
from __future__ import annotations

from ..commands import CommandRun
from ..driver import World
from ..model import Program, AnalysisError
from ..oracle import quantity_of, MOTION
from ..poly import Poly
from ..traceutil import statements, words, same_value, calls, chain, decisions_text, resolve, out_of_scope_exception
from ..values import *

VALIDATE = "BoundManager.validate"
AXES_CODES = MOTION | {"G92"}
ABS_BYPASS = {"move_absolute", "rapid_absolute", "set_axis"}


def _validated(path):
    """[(trace index, property name, value)] of the validate calls on this path."""
    out = []
    for i, e in enumerate(path.trace):
        if e.kind == "CALL" and e.data.get("func") == VALIDATE:
            a = e.data["args"]
            kw = e.data.get("kwargs", {})
            name = a[1] if len(a) > 1 else kw.get("name")
            value = a[2] if len(a) > 2 else kw.get("value")
            out.append((i, name.v if isinstance(name, Const) else None, value))
    return out


def _requested_point(W, ctx, facts):
    p = ctx.get("point")
    if isinstance(p, NT):
        return [resolve(c, facts) for c in p.items]
    out = []
    for a in "XYZ":
        f = facts.get(f"has:kw[{a}]")
        out.append(Num(Poly.sym(f"kw[{a}]")) if f is True else (NONE if f is False else None))
    return out


def _expected_target(W, name, ctx, path):
    """Absolute target in builder coordinates per RS274 (None entries: not demanded)."""
    facts = path.facts
    g = W.I.static_heap[W.ref("g").addr]
    o_raw = [resolve(c, facts) for c in g.fields["_current_axes"].items]
    d = _requested_point(W, ctx, facts)
    if any(x is None for x in d):
        return None
    zero = Num(Poly.const(0))
    out = []
    if name in ABS_BYPASS:
        for o, x in zip(o_raw, d):
            if isinstance(x, Const) and x.v is None:
                out.append(o if isinstance(o, Num) else None)
            else:
                out.append(x)
        return out
    mode = facts.get("enum:g._distance_mode")
    if mode is None:
        return None
    for o, x in zip(o_raw, d):
        o_res = o if isinstance(o, Num) else (zero if (isinstance(o, Const) and o.v is None) else None)
        if o_res is None:
            return None
        if mode == "RELATIVE":
            out.append(Num(o_res.p + (x.p if isinstance(x, Num) else Poly.const(0))))
        else:
            out.append(x if isinstance(x, Num) else o_res)
    return out


# commands that are meant to change the configured limits, and the slots that carry them
CONFIGURES_BOUNDS = ("set_bounds",)
BOUNDS_CARRIERS = {("g", "_state"), ("state", "_user_bounds"), ("bounds", "_bounds")}


def analyse(W, name, f, ctx, desc, path):
    items = []
    entry = f"{name}({desc})"
    vals = _validated(path)
    for _, prop, _ in vals:
        if prop:
            items.append(("prop", prop))
    # ---- R5 the configured limits stay configured: only set_bounds touches the bounds table, and no command replaces
    # the state object or its bounds manager (a fresh one has no limits at all)
    if name not in CONFIGURES_BOUNDS:
        lost = None
        for e in path.trace:
            if e.kind == "SET":
                slot = (W.labels.get(e.data.get("obj")), e.data.get("field"))
                if slot in BOUNDS_CARRIERS:
                    lost = (e, f"{slot[0]}.{slot[1]} is replaced by {e.data.get('value')!r}")
                    break
            elif e.kind == "MUT" and str(e.data.get("label") or "").startswith("bounds._bounds"):
                lost = (e, f"the bounds table is modified ({e.data.get('method')})")
                break
        if lost is not None:
            items.append(("viol", "R5", f"{name}:bounds-configuration:{lost[1].split(' is ')[0].split(' (')[0]}",
                          f"{entry}: {lost[1]} in {lost[0].site[0]}: limits configured with set_bounds are no longer enforced afterwards",
                          [f"at {lost[0].where()} via {chain(lost[0])}", f"path decisions: {decisions_text(path)}"]))
        else:
            items.append(("ok", "R5", f"{entry}: the configured bounds are left alone"))
    sts = statements(path)
    if not sts:
        return items
    index_of = {id(e): i for i, e in enumerate(path.trace)}
    for s in sts:
        at = index_of[id(s.event)]
        codes = s.codes()
        # ---- R1 words
        for letter, value, status, how in words(s, path.facts, letters=("F", "S", "R", "T")):
            q = quantity_of(codes, letter)
            if q is None:
                continue
            ok = any(i < at and prop == q and same_value(v, value) for i, prop, v in vals)
            what = f"{letter} word of {codes or 'a bare statement'} ({q})"
            if ok:
                items.append(("ok", "R1", f"{entry}: {what} validated"))
            else:
                others = sorted({prop for i, prop, v in vals if same_value(v, value) and prop})
                key = f"{name}:{'+'.join(codes) or 'bare'}:{letter}:{q}:unvalidated"
                items.append(("viol", "R1", key,
                              f"{entry}: the {what} is delivered with a value that was never validated against the {q} bounds"
                              + (f" (it was validated as {others})" if others else "")
                              + ("; the word comes from the caller's keyword arguments and is passed through unread" if status == "possible" else ""),
                              [f"delivered at {s.event.where()} via {chain(s.event)}", f"path decisions: {decisions_text(path)}"]))
        # ---- R2 axes
        if any(c in AXES_CODES for c in codes) and name != "write":
            exp = _expected_target(W, name, ctx, path)
            if exp is None:
                items.append(("undecided", "R2", f"{entry}: target not reconstructible on this path"))
            else:
                good = False
                for i, prop, v in vals:
                    if i < at and prop == "axes" and isinstance(v, NT):
                        got = [resolve(c, path.facts) for c in v.items]
                        if all(e is None or same_value(e, gv) for e, gv in zip(exp, got)):
                            good = True
                if good:
                    items.append(("ok", "R2", f"{entry}: axes target of {codes} validated"))
                else:
                    seen = [[(gv.p.key() if isinstance(gv, Num) else repr(gv)) for gv in (resolve(c, path.facts) for c in v.items)]
                            for i, prop, v in vals if prop == "axes" and isinstance(v, NT)]
                    key = f"{name}:{'+'.join(c for c in codes if c in AXES_CODES)}:axes-target:unvalidated"
                    items.append(("viol", "R2", key,
                                  f"{entry}: {codes} is delivered but the absolute target "
                                  f"{[e.p.key() if isinstance(e, Num) else None for e in exp]} was never validated against the axes bounds "
                                  f"(points validated on this path: {seen or 'none'})",
                                  [f"delivered at {s.event.where()} via {chain(s.event)}", f"path decisions: {decisions_text(path)}"]))
    return items


# ---------------------------------------------------------------------- R3
def _sign_known(I, facts, p: Poly):
    if p.is_const():
        c = p.const_value()
        return (c > 0) - (c < 0)
    lead = p.terms[min(p.terms)]
    flip = lead < 0
    q = -p if flip else p
    s = facts.get("sign:" + q.key(), "?")
    if s == "?" or s is None:
        return s
    return -s if flip else s


def _in_range_oracle(I, facts, v: Poly, lo: Poly, hi: Poly):
    """True / False / '?' -- is lo <= v <= hi decided by the facts of the path?"""
    a = _sign_known(I, facts, v - lo)
    b = _sign_known(I, facts, hi - v)
    if a is None or b is None:
        return False        # unordered (NaN): outside
    if (a != "?" and a < 0) or (b != "?" and b < 0):
        return False
    if a == "?" or b == "?":
        return "?"
    return True


def truth_tables(check, repo, tier):
    P = Program(repo)
    # --- numeric branch of BoundManager.validate
    W = World(P, "BoundManager", root_label="bounds")
    I = W.I
    I.sign_mode = "sign+nan"
    I.nanable = lambda s: s.startswith("arg.")
    f = P.func("BoundManager.validate")
    n_paths = 0
    for prop in ("feed-rate", "tool-power", "tool-number", "bed-temperature", "hotend-temperature", "chamber-temperature"):
        ctx = {"name": Const(prop), "value": Num(Poly.sym("arg.value"))}
        I.default_fact = lambda k: True if k.startswith("has:bounds._bounds[") else None
        for path in I.explore(lambda I: None, lambda I, c: W.call_entry(I, f, ctx), max_dev=None):
            n_paths += 1
            key = f"bounds._bounds[{prop.upper()}]"
            v, lo, hi = Poly.sym("arg.value"), Poly.sym(f"{key}.min"), Poly.sym(f"{key}.max")
            inside = _in_range_oracle(I, path.facts, v, lo, hi)
            where = {k: s for k, s in path.facts.items() if k.startswith("sign:")}
            if path.outcome == "return":
                if inside is True:
                    check.ok("R3", f"validate({prop}): accepted, min<=v<=max established {sorted(where.values(), key=str)}")
                else:
                    check.violation("R3", f"validate:numeric:accepts-outside",
                                    f"BoundManager.validate('{prop}', v) accepts a value that is not established to satisfy min <= v <= max "
                                    f"(order facts on the accepting path: {where})", [f"path decisions: {decisions_text(path)}"])
            else:
                if path.value.cls != "ValueError":
                    check.violation("R3", f"validate:numeric:wrong-exception:{path.value.cls}",
                                    f"BoundManager.validate('{prop}', v) rejects with {path.value.cls}, expected ValueError", [])
                elif inside is False:
                    check.ok("R3", f"validate({prop}): rejected outside {sorted(where.values(), key=str)}")
                else:
                    check.violation("R3", f"validate:numeric:rejects-inside",
                                    f"BoundManager.validate('{prop}', v) rejects a value although min <= v <= max may hold "
                                    f"(order facts on the rejecting path: {where})", [f"path decisions: {decisions_text(path)}"])
    # --- point branch (axes): Point.within_bounds through validate
    ctx = {"name": Const("axes"), "value": NT("Point", ("x", "y", "z"), tuple(Opt(f"arg.value.{a}") for a in "xyz"))}
    for path in I.explore(lambda I: None, lambda I, c: W.call_entry(I, f, ctx), max_dev=None, max_paths=400000):
        n_paths += 1
        verdicts = []
        for a in "xyz":
            k = path.facts.get(f"opt:arg.value.{a}")
            if k == "none":
                verdicts.append(True)      # unknown coordinate: ignored
                continue
            v = Poly.sym(f"arg.value.{a}")
            lo, hi = Poly.sym(f"bounds._bounds[AXES].min.{a}"), Poly.sym(f"bounds._bounds[AXES].max.{a}")
            r = _in_range_oracle(I, path.facts, v, lo, hi)
            if k is None and r == "?":
                r = "?"
            verdicts.append(r)
        if path.outcome == "return":
            if all(v is True for v in verdicts):
                check.ok("R3", f"validate(axes): accepted {verdicts}")
            else:
                check.violation("R3", "validate:axes:accepts-outside",
                                f"BoundManager.validate('axes', p) accepts a point although a known coordinate is not established inside its range "
                                f"(per-axis verdicts {verdicts})", [f"path decisions: {decisions_text(path, 20)}"])
        else:
            if any(v is False for v in verdicts):
                check.ok("R3", f"validate(axes): rejected {verdicts}")
            else:
                check.violation("R3", "validate:axes:rejects-inside",
                                f"BoundManager.validate('axes', p) rejects a point whose known coordinates may all be inside (per-axis verdicts {verdicts})",
                                [f"path decisions: {decisions_text(path, 20)}"])
    check.floor(not (n_paths < 40), f"C03.R3: only {n_paths} predicate paths enumerated (floor 40)")
    # --- set_bounds: a pair is stored only when min < max
    I.sign_mode = "sign"
    g = P.func("BoundManager.set_bounds")
    stored = 0
    for prop in ("feed-rate", "axes"):
        if prop == "axes":
            mk = lambda w: NT("Point", ("x", "y", "z"), tuple(Num(Poly.sym(f"arg.{w}.{a}")) for a in "xyz"))
            ctx = {"name": Const(prop), "min": mk("min"), "max": mk("max")}
        else:
            ctx = {"name": Const(prop), "min": Num(Poly.sym("arg.min")), "max": Num(Poly.sym("arg.max"))}
        for path in I.explore(lambda I: None, lambda I, c: W.call_entry(I, g, ctx), max_dev=None, max_paths=400000):
            muts = [e for e in path.trace if e.kind == "MUT" and e.data.get("label") == "bounds._bounds"]
            if path.outcome == "return":
                if not muts:
                    check.violation("R4", f"set_bounds:{prop}:accepted-not-stored", f"set_bounds('{prop}') returns normally without storing the pair", [])
                    continue
                stored += 1
                if prop != "axes":
                    s = _sign_known(I, path.facts, Poly.sym("arg.max") - Poly.sym("arg.min"))
                    if s == 1:
                        check.ok("R4", "set_bounds(numeric): stored only with min < max")
                    else:
                        check.violation("R4", "set_bounds:numeric:stores-unordered", f"set_bounds('{prop}', min, max) stores a pair without establishing min < max (sign fact {s})",
                                        [f"path decisions: {decisions_text(path)}"])
                else:
                    check.ok("R4", "set_bounds(axes): stored after the Point ordering test")
            elif muts:
                check.violation("R4", f"set_bounds:{prop}:stores-then-raises", f"set_bounds('{prop}') stores the pair and then raises {path.value.cls}", [])
    check.floor(stored >= 2, "C03.R4: no accepting path of set_bounds found")
    return n_paths


def run(check, repo, tier):
    check.rule("R1", "every delivered F/S/R/T word that denotes a bounded quantity carries the value validated for that quantity earlier on the path")
    check.rule("R2", "every delivered G0/G1/G38.x/G92 statement is preceded by a validation of the unmasked absolute target against the axes bounds")
    check.rule("R3", "BoundManager.validate / Point.within_bounds accept exactly min <= v <= max; NaN rejected; unknown coordinates skipped (order positions enumerated)")
    check.rule("R4", "all seven bounded property names are validated by some command path; set_bounds stores only ordered pairs")
    check.rule("R5", "the configured limits stay configured: only set_bounds modifies the bounds table; no command (teardown and context-manager exit "
                     "included) replaces the state object, its bounds manager or the table")
    cr = CommandRun(repo, tier=tier, event_funcs=(VALIDATE,), exclude=("write",), cm_body=("pass",))
    results = cr.run(analyse)
    check.floor(not (cr.stats["commands"] < 40), f"C03: only {cr.stats['commands']} public commands analysed (floor 40)")
    props = set()
    word_obl = 0
    for r in results:
        for it in r["items"]:
            if it[0] == "prop":
                props.add(it[1])
            elif it[0] == "ok":
                check.ok(it[1], it[2])
                word_obl += 1
            elif it[0] == "undecided":
                check.undecided(it[1], it[2])
            elif it[0] == "viol":
                check.violation(it[1], it[2], it[3], it[4])
                word_obl += 1
        if len(check.samples) < 8 and any(it[0] in ("ok", "viol") for it in r["items"]):
            check.sample({"command": r["command"], "context": r["ctx"], "abstract_paths": r["paths"],
                          "word_and_target_obligations": sum(1 for it in r["items"] if it[0] in ("ok", "viol"))})
    expected = {"axes", "bed-temperature", "chamber-temperature", "hotend-temperature", "feed-rate", "tool-number", "tool-power"}
    # the names come from the source's own VALID_PROPERTIES tuple when it is still there
    vp = cr.program.resolve_name("gscrib.geometry.bounds", "VALID_PROPERTIES")
    if vp and vp[0] == "var":
        import ast as _ast
        try:
            expected = set(_ast.literal_eval(vp[1]))
        except Exception:
            pass
    for name in sorted(expected):
        if name in props:
            check.ok("R4", f"property '{name}' is validated on some command path")
        else:
            check.violation("R4", f"never-validated:{name}", f"no public command ever validates the bounded property '{name}'", [])
    check.floor(not (word_obl < 200), f"C03: only {word_obl} word/target obligations found (floor 200)")
    n3 = truth_tables(check, repo, tier)
    check.analysed = dict(cr.stats, predicate_paths=n3, properties_validated=sorted(props))
    check.coverage["exhaustive"] = tier == "thorough"
    check.explanation = (
        "Validate-dominates-emit dataflow on the abstract paths of every public command (word values are value-numbered "
        "polynomials, so 'the same value' is exact), plus exhaustive order-position truth tables of the acceptance predicates "
        "obtained by abstractly executing BoundManager.validate / Point.within_bounds with three-valued signs and NaN.")
    check.assume("word->quantity mapping is the RS274/Marlin oracle in gsverif/oracle.py; S on M106, P on G4 and words of M0/M1/M2/M30/M60/M400 are not bounded quantities")
    check.assume("G28 targets are endstop-relative and excluded from the axes rule")
    check.assume("numpy scalars compare like Python floats")
