"""External oracles: what the emitted codes and words mean (RS274/NGC, Marlin).

Written from the standards, not copied from the repository's table; compared
modulo leading zeros (M05 == M5).
"""
from __future__ import annotations

# (enum class, member) -> instruction
ENUM_CODE = {
    ("PositioningMode", "RAPID"): "G0", ("PositioningMode", "LINEAR"): "G1",
    ("PositioningMode", "OFFSET"): "G92", ("PositioningMode", "HOME"): "G28",
    ("ProbingMode", "TOWARDS"): "G38.2", ("ProbingMode", "TOWARDS_NO_ERROR"): "G38.3",
    ("ProbingMode", "AWAY"): "G38.4", ("ProbingMode", "AWAY_NO_ERROR"): "G38.5",
    ("LengthUnits", "INCHES"): "G20", ("LengthUnits", "MILLIMETERS"): "G21",
    ("DistanceMode", "ABSOLUTE"): "G90", ("DistanceMode", "RELATIVE"): "G91",
    ("ExtrusionMode", "ABSOLUTE"): "M82", ("ExtrusionMode", "RELATIVE"): "M83",
    ("FeedMode", "INVERSE_TIME"): "G93", ("FeedMode", "UNITS_PER_MINUTE"): "G94", ("FeedMode", "UNITS_PER_REVOLUTION"): "G95",
    ("SpinMode", "CLOCKWISE"): "M3", ("SpinMode", "COUNTER"): "M4", ("SpinMode", "OFF"): "M5",
    ("PowerMode", "CONSTANT"): "M3", ("PowerMode", "DYNAMIC"): "M4", ("PowerMode", "OFF"): "M5",
    ("ToolSwapMode", "AUTOMATIC"): "M6", ("ToolSwapMode", "MANUAL"): "M6",
    ("CoolantMode", "MIST"): "M7", ("CoolantMode", "FLOOD"): "M8", ("CoolantMode", "OFF"): "M9",
    ("FanMode", "COOLING"): "M106", ("FanMode", "OFF"): "M106",
    ("BedTemperature", "CELSIUS"): "M140", ("BedTemperature", "KELVIN"): "M140",
    ("HotendTemperature", "CELSIUS"): "M104", ("HotendTemperature", "KELVIN"): "M104",
    ("ChamberTemperature", "CELSIUS"): "M141", ("ChamberTemperature", "KELVIN"): "M141",
    ("Plane", "XY"): "G17", ("Plane", "ZX"): "G18", ("Plane", "YZ"): "G19",
    ("TimeUnits", "SECONDS"): "G4", ("TimeUnits", "MILLISECONDS"): "G4",
    ("QueryMode", "TEMPERATURE"): "M105", ("QueryMode", "POSITION"): "M114",
    ("HaltMode", "PAUSE"): "M0", ("HaltMode", "OPTIONAL_PAUSE"): "M1", ("HaltMode", "END_WITHOUT_RESET"): "M2",
    ("HaltMode", "END_WITH_RESET"): "M30", ("HaltMode", "PALLET_EXCHANGE"): "M60",
    ("HaltMode", "WAIT_FOR_BED"): "M190", ("HaltMode", "WAIT_FOR_HOTEND"): "M109",
    ("HaltMode", "WAIT_FOR_CHAMBER"): "M191", ("HaltMode", "WAIT_FOR_MOTION"): "M400",
}

MOTION = {"G0", "G1", "G38.2", "G38.3", "G38.4", "G38.5"}
MOTION_OR_OFFSET = MOTION | {"G28", "G92"}
TEMPERATURE = {"M140": "bed-temperature", "M190": "bed-temperature",
               "M104": "hotend-temperature", "M109": "hotend-temperature",
               "M141": "chamber-temperature", "M191": "chamber-temperature"}
STATE_SLOT = {"feed-rate": "_current_feed_rate", "tool-power": "_current_tool_power", "tool-number": "_current_tool_number",
              "bed-temperature": "_target_bed_temperature", "hotend-temperature": "_target_hotend_temperature",
              "chamber-temperature": "_target_chamber_temperature"}


def quantity_of(codes, letter):
    """Bounded quantity that word `letter` denotes on a statement with these codes
    (None: the letter means something else there, nothing is demanded)."""
    codes = list(codes)
    if letter == "F":
        # RS274: an F word on any block of the motion group (and G28/G92) sets the modal feed;
        # a bare F statement sets it as well
        if not codes or any(c in MOTION_OR_OFFSET for c in codes):
            return "feed-rate"
        return None
    if letter == "S":
        # RS274: an S word is the modal spindle speed / tool power wherever it stands in the
        # motion group, on G28/G92 blocks, next to M3/M4 and on a bare statement
        if not codes or any(c in MOTION_OR_OFFSET for c in codes) or any(c in ("M3", "M4") for c in codes):
            return "tool-power"
        for c in codes:
            if c in TEMPERATURE:
                return TEMPERATURE[c]
        return None
    if letter == "R":
        for c in codes:
            if c in TEMPERATURE:
                return TEMPERATURE[c]
        return None
    if letter == "T":
        if any(c == "M6" for c in codes):
            return "tool-number"
        return None
    return None
