"""Entry contexts for the abstract interpreter.

The object graph of a builder is obtained by abstractly executing its
constructor (from the source); every primitive field is then *havocked* to
an unknown of its type (bool -> finite unknown, enum -> finite unknown,
number -> symbol, Point -> optional coordinates, dict/list -> open/opaque), so
that one abstract run stands for every reachable (indeed every type-correct)
state of the object.
"""
from __future__ import annotations

import ast
import itertools

from .model import Program, AnalysisError
from .interp import Interp, Frame, AbsRaise
from .poly import Poly
from .values import *


SHORT = {"_state": "state", "_formatter": "fmt", "_transformer": "xf", "_tracer": "tracer",
         "_user_bounds": "bounds", "_current_transform": "xform"}


UNABSTRACTED = set()        # state the worlds of this process could not abstract (see World._havoc_value)


class World:
    """A havocked instance of `cls_name` in the static heap of an interpreter."""

    def __init__(self, program: Program, cls_name="GCodeBuilder", *, loop_unroll=1, root_label="g",
                 universal_lists=("g._writers",), keep_fields=(), ctor_args=(), ctor_kwargs=None, module_hint=None):
        self.P = program
        self.ctor_args = list(ctor_args)
        self.ctor_kwargs = dict(ctor_kwargs or {})
        self.cls = program.cls(cls_name, module_hint)
        self.I = Interp(program, loop_unroll=loop_unroll)
        self.root_label = root_label
        self.universal = set(universal_lists)
        self.keep = set(keep_fields)
        self.unabstracted = []
        self.labels = {}      # addr -> label
        self.I.open_value_hook = self.open_value
        self.I.ext_result = self.ext_result
        self._build()

    # ------------------------------------------------------------ values
    def open_value(self, name: str):
        if name.endswith("[COMMENT]"):
            return Unk(name, "str")
        if name.startswith("bounds._bounds["):
            # a configured (min, max) pair: points for the axes box, numbers otherwise
            if name == "bounds._bounds[AXES]":
                mk = lambda w: NT("Point", ("x", "y", "z"), tuple(Num(Poly.sym(f"{name}.{w}.{a}")) for a in "xyz"))
                return Tup((mk("min"), mk("max")))
            return Tup((Num(Poly.sym(f"{name}.min")), Num(Poly.sym(f"{name}.max"))))
        return Num(Poly.sym(name))

    def ext_result(self, I, callee, args, kwargs, node):
        # a registered move hook returns the parameters to use: any record
        tag = I.tag(callee)
        if tag.startswith("elem(g._hooks)") or getattr(callee, "typ", "") == "hook":
            n = I.fresh("hookret")
            return I.alloc(ADict(open=True, bases=(n,), upper=True, cls=self.P.cls("ParamsDict"), label=n))
        return None

    # ------------------------------------------------------------ build
    def _build(self):
        I = self.I
        node = ast.parse("0").body[0]
        found = []

        def entry(I, ctx):
            fr = Frame(None, self.cls.module, {}, qualname="<setup>")
            I.frames = [fr]
            try:
                root = I.instantiate(self.cls, list(self.ctor_args), dict(self.ctor_kwargs), node)
                # touch module-level tables the commands use, so that they are static
                for mod, name in (("gscrib.codes.gcode_mappings", "gcode_table"),):
                    if mod in self.P.modules:
                        I.lookup_global(mod, name)
                return root
            finally:
                I.frames = []

        def on_path(res):
            if res.outcome == "return":
                found.append(res)
                return True
            return None

        # first abstract path of the constructor (default configuration) that completes
        I.explore(lambda I: None, entry, on_path=on_path, max_paths=2000)
        if not found:
            raise AnalysisError(f"no abstract path of {self.cls.name}() completes normally")
        res = found[0]
        self.root = res.value
        I.static_heap = {a: o.clone() for a, o in res.heap.items()}
        I.heap = I.static_heap
        self._havoc(self.root, self.root_label, set())
        self._relate()
        I.heap = {}
        # reported by the run as a floor failure (exit 2) unless it found violations anyway (gsverif.__main__)
        UNABSTRACTED.update(self.unabstracted)

    # (object label, field) pairs that hold the same value in every reachable
    # state: both copies are written together by the only functions that write
    # either (checked by the who-may-write rules of C01/C07)
    MIRRORED = ((("state", "_current_distance_mode"), ("g", "_distance_mode")),
                (("state", "_current_axes"), ("g", "_current_axes")))

    def _relate(self):
        for (l1, f1), (l2, f2) in self.MIRRORED:
            try:
                a = self.I.static_heap[self.ref(l1).addr]
                b = self.I.static_heap[self.ref(l2).addr]
            except AnalysisError:
                continue
            if f1 in a.fields and f2 in b.fields:
                a.fields[f1] = b.fields[f2]

    def _havoc(self, ref: Ref, label: str, seen: set):
        I = self.I
        if ref.addr in seen:
            return
        seen.add(ref.addr)
        o = I.static_heap[ref.addr]
        self.labels[ref.addr] = label
        if isinstance(o, AObj):
            o.label = label
            for k, v in list(o.fields.items()):
                name = f"{label}.{k}"
                if name in self.keep:
                    continue
                o.fields[k] = self._havoc_value(v, name, SHORT.get(k, name), seen)
        elif isinstance(o, ADict):
            o.label = label
            o.entries = {}
            o.open = True
            o.bases = (label,)
            o.removed = set()
        elif isinstance(o, AList):
            o.items = None
            o.base = label
            o.universal = label in self.universal

    def _havoc_value(self, v, name, sublabel, seen):
        I = self.I
        if isinstance(v, Const):
            if isinstance(v.v, bool):
                return Choice(name, "bool")
            if isinstance(v.v, (int, float)):
                return Num(Poly.sym(name), isinstance(v.v, int))
            if isinstance(v.v, str):
                return Unk(name, "str")
            if v.v is None and self._assigned_non_none(name):
                # None in the default configuration, something else in others (fmt._comment_ending)
                return Choice(name, "optional")
            return v
        if isinstance(v, Num):
            return Num(Poly.sym(name), v.is_int)
        if isinstance(v, Member):
            return Choice(name, f"enum:{v.cls}")
        if isinstance(v, NT):
            return NT(v.cls, v.names, tuple(Opt(f"{name}.{n}") for n in v.names))
        if isinstance(v, Ref) and isinstance(I.static_heap.get(v.addr), AMat):
            return Unk(name, "array")
        if isinstance(v, Unk) and v.typ == "array":
            return Unk(name, "array")
        if isinstance(v, Unk) and v.typ == "ext":
            return Unk(name, "object")      # an external object created by the constructor (Event, logger, ...)
        if isinstance(v, Ref):
            self._havoc(v, sublabel, seen)
            return v
        if isinstance(v, ExtV):
            return Unk(name, "str")
        if isinstance(v, Tup) and self._assigned_outside_init(name):
            # a structured value the analysis has no abstraction for, re-assigned by the methods: leaving it at its
            # constructor value would silently ignore every state it can take
            self.unabstracted.append(f"{name} (a tuple, {v!r} after construction, assigned again outside __init__)")
        return v

    def _assigned_outside_init(self, name) -> bool:
        label, _, field = name.rpartition(".")
        try:
            o = self.I.static_heap[self.ref(label).addr]
        except AnalysisError:
            return False
        for ci in o.cls.mro():
            for fn in ci.methods.values():
                if fn.node.name == "__init__":
                    continue
                for n in ast.walk(fn.node):
                    targets = n.targets if isinstance(n, ast.Assign) else ([n.target] if isinstance(n, (ast.AnnAssign, ast.AugAssign)) else [])
                    for t in targets:
                        for tt in (t.elts if isinstance(t, ast.Tuple) else [t]):
                            if isinstance(tt, ast.Attribute) and tt.attr == field and isinstance(tt.value, ast.Name) and tt.value.id == "self":
                                return True
        return False

    def _assigned_non_none(self, name) -> bool:
        """Does some method of the owning class assign `self.<field>` a value other than None?"""
        label, _, field = name.rpartition(".")
        try:
            o = self.I.static_heap[self.ref(label).addr]
        except AnalysisError:
            return False
        for ci in o.cls.mro():
            for fn in ci.methods.values():
                for n in ast.walk(fn.node):
                    if isinstance(n, (ast.Assign, ast.AnnAssign)):
                        targets = n.targets if isinstance(n, ast.Assign) else [n.target]
                        val = n.value
                        for t in targets:
                            if isinstance(t, ast.Attribute) and t.attr == field and isinstance(t.value, ast.Name) and t.value.id == "self":
                                if val is not None and not (isinstance(val, ast.Constant) and val.value is None):
                                    return True
        return False

    # ------------------------------------------------------------ lookups
    def obj(self, I, label) -> AObj:
        for a, l in self.labels.items():
            if l == label:
                return I.heap[a]
        raise AnalysisError(f"no object labelled {label}")

    def ref(self, label) -> Ref:
        for a, l in self.labels.items():
            if l == label:
                return Ref(a)
        raise AnalysisError(f"no object labelled {label}")

    # ------------------------------------------------------------ entry arguments
    def enum_of_annotation(self, ann):
        """Enum class named in an annotation such as ``SpinMode | str``."""
        if ann is None:
            return None
        for n in ast.walk(ann):
            if isinstance(n, ast.Name) and n.id in self.P.classes and self.P.cls(n.id).is_enum:
                return self.P.cls(n.id)
        return None

    def _missing_hook_strings(self, ecls):
        """String constants a lenient `_missing_` hook can react to: those in its body and those in the module-level
        tables (and class attributes) its body names."""
        out = set()
        seen = set()
        for ci in ecls.mro():
            mf = ci.methods.get("_missing_") if hasattr(ci, "methods") else None
            if mf is None:
                continue
            work = [mf.node]
            mod = self.P.modules.get(mf.module)
            while work:
                node = work.pop()
                for n in ast.walk(node):
                    if isinstance(n, ast.Constant) and isinstance(n.value, str) and 0 < len(n.value) <= 40:
                        out.add(n.value)
                    elif isinstance(n, ast.Name) and isinstance(n.ctx, ast.Load) and mod is not None and n.id not in seen:
                        seen.add(n.id)
                        b = mod.ns.get(n.id)
                        if b is not None and b[0] == "var" and isinstance(b[1], ast.AST):
                            work.append(b[1])
                    elif isinstance(n, ast.Attribute) and isinstance(n.value, ast.Name) and n.value.id in ("cls", "self") and n.attr in getattr(ci, "attrs", {}) \
                            and ("attr", n.attr) not in seen:
                        seen.add(("attr", n.attr))
                        if isinstance(ci.attrs[n.attr], ast.AST):
                            work.append(ci.attrs[n.attr])
        return out

    def arg_choices(self, f, *, with_invalid=True, point_variants=("none", "point")):
        """For every parameter of `f` (after self) the list of abstract values to try."""
        a = f.node.args
        out = []
        params = list(a.posonlyargs) + list(a.args)
        if f.cls is not None and not f.is_staticmethod:
            params = params[1:]
        for p in params:
            ann = p.annotation
            txt = ast.unparse(ann) if ann is not None else ""
            ecls = self.enum_of_annotation(ann)
            if ecls is not None:
                vals = [Member(ecls.name, n) for n in ecls.enum_members()]
                if with_invalid and "str" in txt:
                    vals.append(Const("<not-a-member>"))
                if "str" in txt:
                    # (valid inputs, so they are tried whether or not invalid arguments are)
                    # a lenient lookup hook (_missing_) makes other spellings valid: try a differently cased and a
                    # padded spelling of every member (a guard that compares the raw argument no longer sees them)
                    if ecls.lookup("_missing_") is not None:
                        for n, val in ecls.enum_members().items():
                            if isinstance(val, str) and val:
                                for alt in (val.upper() if val.upper() != val else val.lower(), f" {val}"):
                                    if alt != val:
                                        vals.append(Const(alt))
                        # ... and the spellings its tables name (synonym dictionaries read by the hook)
                        member_values = {v for v in ecls.enum_members().values() if isinstance(v, str)}
                        for alt in sorted(self._missing_hook_strings(ecls) - member_values):
                            if Const(alt) not in vals:
                                vals.append(Const(alt))
                out.append((p.arg, vals))
            elif txt == "bool":
                out.append((p.arg, [FALSE, TRUE]))
            elif txt in ("float", "int", "float | int", "int | float"):
                out.append((p.arg, [Num(Poly.sym(f"arg.{p.arg}"), txt == "int")]))
            elif txt == "str":
                out.append((p.arg, [Unk(f"arg.{p.arg}", "str")]))
            elif txt in ("str | None",):
                out.append((p.arg, [NONE, Unk(f"arg.{p.arg}", "str")]))
            elif txt == "PointLike":
                vals = []
                if "none" in point_variants:
                    vals.append(NONE)
                if "point" in point_variants:
                    vals.append(NT("Point", ("x", "y", "z"), (Opt(f"arg.{p.arg}.x"), Opt(f"arg.{p.arg}.y"), Opt(f"arg.{p.arg}.z"))))
                out.append((p.arg, vals))
            elif txt == "Callable":
                out.append((p.arg, [Unk(f"arg.{p.arg}", "hook")]))
            elif txt in ("Bound",):
                out.append((p.arg, [Unk(f"arg.{p.arg}", "bound")]))
            else:
                out.append((p.arg, [Unk(f"arg.{p.arg}")]))
        if a.vararg is not None:
            out.append(("*", [(), (Unk(f"arg.{a.vararg.arg}0"),)]))
        return out

    def call_entry(self, I, f, argmap: dict, *, open_kwargs=True, varargs=()):
        """Call method `f` of the root object with the given argument values."""
        kwargs = dict(argmap)
        if "*" in kwargs:
            varargs = tuple(varargs) + tuple(kwargs.pop("*"))
        if f.node.args.kwarg is not None and open_kwargs:
            kwargs["**"] = ADict(open=True, bases=("kw",), label="kw")
        fr = Frame(None, f.module, {}, qualname="<entry>")
        saved_frames = list(I.frames)        # an entry call can be made from inside a callback (nested contexts)
        I.frames = saved_frames + [fr]
        node = ast.parse("0").body[0]
        node.lineno = 0
        pos = []
        if varargs:
            params = [p.arg for p in list(f.node.args.posonlyargs) + list(f.node.args.args)][1:]
            for pn in params:
                if pn in kwargs:
                    pos.append(kwargs.pop(pn))
        try:
            return I.call_function(f, [self.root] + pos + list(varargs), kwargs, node, dyncls=self.cls)
        finally:
            I.frames = saved_frames

    def call_method(self, I, label, name, args=(), kwargs=None):
        """Call method `name` of the object labelled `label` (dynamic dispatch on its class)."""
        ref = self.ref(label)
        o = I.heap[ref.addr]
        f = o.cls.lookup(name)
        if f is None:
            raise AnalysisError(f"{o.cls.name} has no method {name}")
        node = ast.parse("0").body[0]
        node.lineno = 0
        pushed = False
        if not I.frames:
            I.frames = [Frame(None, f.module, {}, qualname="<entry>")]
            pushed = True
        try:
            if f.is_property:
                return I.call_function(f, [ref], {}, node, dyncls=o.cls)
            return I.call_function(f, [ref] + list(args), dict(kwargs or {}), node, dyncls=o.cls)
        finally:
            if pushed:
                I.frames = []

    def public_methods(self):
        """name -> FuncInfo of the public non-property methods (MRO resolved)."""
        out = {}
        for k in reversed(self.cls.mro()):
            for n, f in k.methods.items():
                if n.startswith("_"):
                    continue
                out[n] = f
        return {n: f for n, f in out.items() if not f.is_property}


def product_contexts(choices):
    names = [n for n, _ in choices]
    for combo in itertools.product(*[v for _, v in choices]) if choices else [()]:
        yield dict(zip(names, combo))
