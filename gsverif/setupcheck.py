"""setup_cmd helper: the framework imports and its built-in positives hold."""
import sys
from . import model, poly, values, interp, intrinsics, driver, commands, report, traceutil  # noqa: F401
from .poly import Poly

a, b = Poly.sym("a"), Poly.sym("b")
assert ((a + b) * (a - b) - (a * a - b * b)).is_zero()
assert ((a / b) * b - a).is_zero()
print("gsverif setup ok")
sys.exit(0)
