"""Laurent polynomials over named symbols with rational coefficients.

The numeric abstract domain of the analyser: a number is *what expression of
the inputs it is*, never how big it is.  Uninterpreted function applications
(``hypot(..)``, ``cos(..)``, ``X.x(..)``) are symbols whose name is the
canonical text of the application, so two syntactically different programs
that compute the same expression get equal values.
"""
from __future__ import annotations

from fractions import Fraction
import math


def _frac(v) -> Fraction:
    if isinstance(v, Fraction):
        return v
    if isinstance(v, bool):
        return Fraction(int(v))
    if isinstance(v, int):
        return Fraction(v)
    if isinstance(v, float):
        if math.isnan(v) or math.isinf(v):
            raise ValueError("non-finite constant")
        return Fraction(v)
    raise TypeError(type(v))


class Poly:
    __slots__ = ("terms", "_key")

    def __init__(self, terms=None):
        # terms: dict monomial -> Fraction ; monomial: tuple of (sym, exp) sorted, exp != 0
        self.terms = {m: c for m, c in (terms or {}).items() if c != 0}
        self._key = None

    # -------------------------------------------------------------- builders
    @staticmethod
    def const(v) -> "Poly":
        return Poly({(): _frac(v)})

    @staticmethod
    def sym(name: str) -> "Poly":
        return Poly({((name, 1),): Fraction(1)})

    # -------------------------------------------------------------- queries
    def is_const(self) -> bool:
        return all(m == () for m in self.terms)

    def const_value(self) -> Fraction:
        return self.terms.get((), Fraction(0))

    def is_zero(self) -> bool:
        return not self.terms

    def symbols(self) -> set:
        return {s for m in self.terms for s, _ in m}

    def coeff_of(self, sym: str) -> "Poly":
        """Coefficient polynomial of `sym`^1 (terms where sym appears with exponent 1)."""
        out = {}
        for m, c in self.terms.items():
            d = dict(m)
            if d.get(sym) == 1:
                del d[sym]
                mm = tuple(sorted(d.items()))
                out[mm] = out.get(mm, 0) + c
        return Poly(out)

    def without(self, sym: str) -> "Poly":
        return Poly({m: c for m, c in self.terms.items() if sym not in dict(m)})

    def subs(self, sym: str, value: "Poly") -> "Poly":
        out = Poly()
        for m, c in self.terms.items():
            t = Poly.const(c)
            for s, e in m:
                base = value if s == sym else Poly.sym(s)
                t = t * base.pow(e)
            out = out + t
        return out

    def single_monomial(self):
        if len(self.terms) == 1:
            (m, c), = self.terms.items()
            return m, c
        return None

    # -------------------------------------------------------------- algebra
    def __add__(self, o: "Poly") -> "Poly":
        out = dict(self.terms)
        for m, c in o.terms.items():
            out[m] = out.get(m, 0) + c
        return Poly(out)

    def __neg__(self) -> "Poly":
        return Poly({m: -c for m, c in self.terms.items()})

    def __sub__(self, o: "Poly") -> "Poly":
        return self + (-o)

    def __mul__(self, o: "Poly") -> "Poly":
        out = {}
        for m1, c1 in self.terms.items():
            for m2, c2 in o.terms.items():
                d = dict(m1)
                for s, e in m2:
                    d[s] = d.get(s, 0) + e
                m = tuple(sorted((s, e) for s, e in d.items() if e != 0))
                out[m] = out.get(m, 0) + c1 * c2
        return Poly(out)

    def pow(self, e: int) -> "Poly":
        if e >= 0:
            out = Poly.const(1)
            for _ in range(e):
                out = out * self
            return out
        return self.inverse().pow(-e)

    def inverse(self) -> "Poly":
        sm = self.single_monomial()
        if sm is not None:
            m, c = sm
            return Poly({tuple((s, -e) for s, e in m): 1 / c})
        if self.is_zero():
            raise ZeroDivisionError
        # normalise sign so that inv(a-b) and inv(b-a) relate
        lead = self.terms[min(self.terms)]
        base = self if lead > 0 else -self
        inv = Poly.sym(f"inv({base.key()})")
        return inv if lead > 0 else -inv

    def __truediv__(self, o: "Poly") -> "Poly":
        return self * o.inverse()

    # -------------------------------------------------------------- identity
    def key(self) -> str:
        if self._key is None:
            if not self.terms:
                self._key = "0"
            else:
                parts = []
                for m in sorted(self.terms):
                    c = self.terms[m]
                    mon = "*".join(s if e == 1 else f"{s}^{e}" for s, e in m)
                    if not mon:
                        parts.append(str(c))
                    elif c == 1:
                        parts.append(mon)
                    elif c == -1:
                        parts.append("-" + mon)
                    else:
                        parts.append(f"{c}*{mon}")
                self._key = " + ".join(parts).replace("+ -", "- ")
        return self._key

    def __eq__(self, o):
        return isinstance(o, Poly) and self.terms == o.terms

    def __hash__(self):
        return hash(self.key())

    def __repr__(self):
        return self.key()


def app(name: str, *args: Poly) -> Poly:
    """Uninterpreted application as a fresh-but-canonical symbol."""
    return Poly.sym(f"{name}({', '.join(a.key() for a in args)})")


def even_app(name: str, *args: Poly) -> Poly:
    """Application of a function that is even in every argument (hypot, abs):
    canonicalise the sign of each argument."""
    canon = []
    for a in args:
        if a.terms:
            lead = a.terms[min(a.terms)]
            canon.append(a if lead > 0 else -a)
        else:
            canon.append(a)
    return app(name, *canon)
