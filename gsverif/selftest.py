"""Self-test: every rule must fire on a scratch copy with one instance broken
and stay silent on passing twins (behaviour-preserving rewrites).

Variants are text edits of the package source materialised under a temporary
directory outside /repo and /verif, checked with ``--repo <scratch>`` and
removed immediately.  A variant whose anchor text is gone (the repository was
edited) is skipped and listed.
"""
from __future__ import annotations

import concurrent.futures as cf
import json
import os
import pathlib
import shutil
import subprocess
import sys
import tempfile
import time

VERIF = pathlib.Path(__file__).resolve().parent.parent


def load_corpus():
    corpus = []
    d = VERIF / "selftest"
    for p in sorted(d.glob("*.json")):
        for v in json.loads(p.read_text()):
            v.setdefault("source", p.name)
            corpus.append(v)
    return corpus


def run_variant(v, repo, tier="quick"):
    tmp = pathlib.Path(tempfile.mkdtemp(prefix="gsv-self-", dir="/var/tmp"))
    try:
        shutil.copytree(pathlib.Path(repo) / "gscrib", tmp / "gscrib")
        for e in v["edits"]:
            f = tmp / e["file"]
            s = f.read_text()
            if s.count(e["old"]) != e.get("count", 1):
                return {"name": v["name"], "status": "skipped", "why": f"anchor text not found exactly {e.get('count', 1)}x in {e['file']}"}
            s = s.replace(e["old"], e["new"])
            try:
                compile(s, str(f), "exec")
            except SyntaxError as ex:
                return {"name": v["name"], "status": "broken-variant", "why": str(ex)}
            f.write_text(s)
        ev = tmp / "evidence"
        env = dict(os.environ, GSVERIF_EVIDENCE_DIR=str(ev), PYTHONPATH=str(VERIF), GSVERIF_JOBS=os.environ.get("GSVERIF_JOBS", "2"))
        t0 = time.time()
        if v["property"] == "*":
            # a behaviour-preserving rewrite: every registered check must stay silent
            props = [c["property_id"] for c in json.loads((VERIF / "MANIFEST.json").read_text())["checks"]]
            bad = []
            for pid in props:
                p = subprocess.run([sys.executable, "-m", "gsverif", "check", pid, "--tier", v.get("tier", tier), "--repo", str(tmp)],
                                   capture_output=True, text=True, env=env, cwd=str(VERIF), timeout=1800)
                if p.returncode != 0:
                    out = p.stdout + p.stderr
                    bad.append(f"{pid} rc={p.returncode}: " + "; ".join(l[:160] for l in out.splitlines() if l.startswith(("FINDING", "ANALYSIS-ERROR")))[:400])
            return {"name": v["name"], "property": "*", "rc": 1 if bad else 0, "wall": round(time.time() - t0, 1),
                    "findings": bad[:6], "status": "ok" if not bad else "FALSE-ALARM"}
        p = subprocess.run([sys.executable, "-m", "gsverif", "check", v["property"], "--tier", v.get("tier", tier), "--repo", str(tmp)],
                           capture_output=True, text=True, env=env, cwd=str(VERIF), timeout=1800)
        out = p.stdout + p.stderr
        findings = [l for l in out.splitlines() if l.startswith("FINDING")]
        res = {"name": v["name"], "property": v["property"], "rc": p.returncode, "wall": round(time.time() - t0, 1),
               "findings": findings[:6]}
        if v.get("expect") == "silent":
            res["status"] = "ok" if p.returncode == 0 else "FALSE-ALARM"
        elif v.get("expect") == "undecided":
            # a construct the analysis does not model: it must say so (exit 2), neither pass nor claim a violation
            res["status"] = "ok" if p.returncode == 2 else ("SILENT-PASS" if p.returncode == 0 else "CLAIMED-VIOLATION")
        else:
            want = v.get("expect_rule", "")
            hit = [l for l in findings if want in l]
            if p.returncode == 1 and hit:
                res["status"] = "ok"
            elif p.returncode == 1:
                res["status"] = "fired-other-rule"
            elif p.returncode == 2:
                res["status"] = "ANALYSIS-ERROR"
                res["why"] = [l for l in out.splitlines() if "ANALYSIS-ERROR" in l][:2]
            else:
                res["status"] = "SURVIVED"
        return res
    finally:
        shutil.rmtree(tmp, ignore_errors=True)


def main(props, repo, jobs=16):
    corpus = load_corpus()
    if props:
        props = {p.upper() for p in props}
        corpus = [v for v in corpus if v["property"] in props or (v["property"] == "*" and "TWINS" in props)]
    t0 = time.time()
    results = []
    with cf.ThreadPoolExecutor(max_workers=max(1, jobs // 2)) as ex:
        for r in ex.map(lambda v: run_variant(v, repo), corpus):
            results.append(r)
            print(f"{r['status']:18} {r.get('property', ''):4} {r['name']}  {r.get('wall', '')}s  {r.get('why', '') or ''}")
            if r["status"] not in ("ok", "skipped"):
                for l in r.get("findings", [])[:3]:
                    print("      ", l[:200])
    bad = [r for r in results if r["status"] not in ("ok", "skipped")]
    print(f"selftest: {len(results)} variants, {len(results) - len(bad)} as expected, {len(bad)} not, {round(time.time() - t0, 1)}s")
    return 1 if bad else 0
