"""Abstract execution of the public commands of a builder class.

One *task* is (command, argument context); every abstract path of a task is
handed to the rule's ``analyse`` function inside the worker process, which
returns small picklable records.  Tasks are spread over the cores.
"""
from __future__ import annotations

import multiprocessing as mp
import os
import time
import traceback

from .model import Program, AnalysisError
from .driver import World, product_contexts
from .interp import AbsRaise, _Return
from .values import *
from .traceutil import is_writer_delivery

TIERS = {
    # max_dev: bound on decisions per path that deviate from the default option
    "quick": {"max_dev": 3, "loop_unroll": 1},
    "thorough": {"max_dev": None, "loop_unroll": 2},
}


def ctx_desc(ctx: dict) -> str:
    def d(v):
        if isinstance(v, Member):
            return f"{v.cls}.{v.name}"
        if isinstance(v, Const):
            return repr(v.v)
        if isinstance(v, NT):
            return v.cls
        if isinstance(v, Num):
            return "<number>"
        if isinstance(v, Unk):
            return f"<{v.typ or 'value'}>"
        if isinstance(v, tuple):
            return f"<{len(v)} extra>"
        return type(v).__name__
    return ", ".join(f"{k}={d(v)}" for k, v in ctx.items())


class CommandRun:
    def __init__(self, repo, *, cls_name="GCodeBuilder", tier="quick", pins=None, transform="identity",
                 max_dev="tier", sign_mode="bool", methods=None, exclude=(), event_funcs=(), with_invalid=True,
                 point_variants=("none", "point"), per_path_setup=None, cm_body=("pass",), max_paths=400000,
                 nanable=None, jobs=None, loop_unroll=None, pin_halt=True, io_failures=False, opaque_payload_ok=False):
        self.repo = str(repo)
        self.cls_name = cls_name
        self.tier = tier
        self.pins = pins
        self.transform = transform
        self.max_dev = TIERS[tier]["max_dev"] if max_dev == "tier" else max_dev
        self.loop_unroll = loop_unroll or TIERS[tier]["loop_unroll"]
        self.sign_mode = sign_mode
        self.methods = methods
        self.exclude = set(exclude)
        self.event_funcs = set(event_funcs)
        self.with_invalid = with_invalid
        self.point_variants = point_variants
        self.per_path_setup = per_path_setup
        self.cm_body = cm_body
        self.max_paths = max_paths
        self.nanable = nanable
        self.jobs = jobs or int(os.environ.get("GSVERIF_JOBS") or 0) or min(16, os.cpu_count() or 1)
        self.opaque_payload_ok = opaque_payload_ok     # the rule judges payload objects itself (C14)
        self.stats = {}
        # World invariant, discharged by this very run (see run()): between two
        # commands the halt mode is OFF.  While it is inductive the worlds
        # start from OFF; as soon as one path breaks it, everything is redone
        # from an arbitrary halt mode.
        self.io_failures = io_failures
        self.pin_halt = pin_halt and cls_name == "GCodeBuilder"
        self.halt_note = None

    # ------------------------------------------------------------ world (per process)
    def make_world(self):
        P = Program(self.repo)
        W = World(P, self.cls_name, loop_unroll=self.loop_unroll,
                  keep_fields=({HALT_FIELD} if self.pin_halt else ()))
        I = W.I
        I.transform_mode = self.transform
        I.sign_mode = self.sign_mode
        I.event_funcs = set(self.event_funcs)
        I.io_failures = self.io_failures
        if self.pins is not None:
            I.default_fact = self.pins
        if self.nanable is not None:
            I.nanable = self.nanable
        return W

    def tasks(self, W):
        out = []
        pub = W.public_methods()
        names = sorted(pub) if self.methods is None else [m for m in self.methods]
        induction = self.pin_halt and self._induction_needed(W)
        if induction:
            names = names + [n for n in sorted(pub) if n not in names]      # the induction needs every command
        for n in names:
            if not self.analysed_command(n) and not induction:
                continue
            if n not in pub:
                raise AnalysisError(f"{self.cls_name} has no public method {n}")
            f = pub[n]
            choices = W.arg_choices(f, with_invalid=self.with_invalid, point_variants=self.point_variants)
            for i, ctx in enumerate(product_contexts(choices)):
                bodies = self.cm_body if is_cm_command(W, f) else (None,)
                for b in bodies:
                    out.append((n, i, b))
        return out

    def _halt_key(self):
        return (self.repo, self.cls_name, self.tier, self.with_invalid, self.io_failures, self.transform, id(self.pins) if self.pins is not None else None,
                self.per_path_setup is None, tuple(self.cm_body))

    def _induction_needed(self, W):
        """The commands a rule does not list are explored only to discharge the halt-mode invariant: not needed when the
        class has no state object (GCodeCore: nothing to assume), nor when an earlier run of this process discharged it
        for the same tree, class, tier and exploration settings."""
        try:
            W.ref("state")
        except AnalysisError:
            return False
        return not _HALT_PROVED.get(self._halt_key())

    def analysed_command(self, n):
        return n not in self.exclude and (self.methods is None or n in self.methods)

    def run_task(self, W, task, analyse):
        name, idx, body = task
        I = W.I
        f = W.public_methods()[name]
        choices = W.arg_choices(f, with_invalid=self.with_invalid, point_variants=self.point_variants)
        ctx = list(product_contexts(choices))[idx]
        desc = ctx_desc(ctx) + (f" [with-body: {body}]" if body else "")
        items = []
        count = [0]

        def setup(I):
            if self.per_path_setup is not None:
                self.per_path_setup(I, W)
            return None

        def entry(I, _):
            v = W.call_entry(I, f, ctx)
            if is_cm_command(W, f):
                return run_cm(I, v, body)
            return v

        broken = []
        only_invariant = not self.analysed_command(name)

        def on_path(res):
            count[0] += 1
            if self.pin_halt and not broken:
                w = halt_invariant_witness(W, name, desc, res)
                if w:
                    broken.append(w)
            if only_invariant:
                return
            for e in res.trace:
                if is_writer_delivery(e):
                    v = e.data["args"][0] if e.data["args"] else None
                    v = v.s if isinstance(v, Bytes) else v
                    if isinstance(v, Unk) and v.typ in ("ext", "object") and not self.opaque_payload_ok:
                        raise AnalysisError(f"{name}({desc}): the line handed to the writers is the result of a call the analysis does not model "
                                            f"({v.tag}); its content cannot be followed, so nothing is decided")
            r = analyse(W, name, f, ctx, desc, res)
            if r:
                items.extend(r)

        # commands that only take part in the induction use the tier's own bound
        md = TIERS[self.tier]["max_dev"] if only_invariant else self.max_dev
        I.explore(setup, entry, on_path=on_path, max_dev=md, max_paths=self.max_paths)
        return {"command": name, "ctx": desc, "paths": count[0], "truncated": I.last_truncated, "items": items,
                "resolved_calls": I.resolved_calls, "halt_invariant_broken": broken, "only_invariant": only_invariant}

    # ------------------------------------------------------------ run all
    def run(self, analyse):
        results = self._run(analyse)
        if self.pin_halt:
            broken = [w for r in results for w in r["halt_invariant_broken"]]
            if broken:
                self.halt_note = ("not inductive (" + broken[0] + "): commands are analysed from an arbitrary halt mode")
                self.pin_halt = False
                results = self._run(analyse)
            else:
                if _HALT_PROVED.get(self._halt_key()):
                    self.halt_note_prefix = "discharged by an earlier run of this process with the same settings; "
                _HALT_PROVED[self._halt_key()] = True
                self.halt_note = ("inductive: the constructor leaves the halt mode OFF and every path of every public command that returns or "
                                  "raises an exception a caller can catch ends with it OFF, so commands are analysed from halt mode OFF")
        self.stats["halt_mode_invariant"] = self.halt_note or "not used"
        return [r for r in results if not r.get("only_invariant")]

    def _run(self, analyse):
        t0 = time.time()
        W0 = self.make_world()
        tasks = self.tasks(W0)
        results = []
        if self.jobs <= 1 or len(tasks) <= 2:
            for t in tasks:
                results.append(self.run_task(W0, t, analyse))
        else:
            global _RUN, _ANALYSE
            _RUN, _ANALYSE = self, analyse
            ctxm = mp.get_context("fork")
            with ctxm.Pool(min(self.jobs, len(tasks))) as pool:
                for r in pool.imap_unordered(_worker, tasks, chunksize=1):
                    if isinstance(r, tuple) and r and r[0] == "ERR":
                        raise AnalysisError(r[1])
                    results.append(r)
        results.sort(key=lambda r: (r["command"], r["ctx"]))
        counted = [r for r in results if not r.get("only_invariant")]
        self.stats = {
            "class": self.cls_name,
            "commands": len({r["command"] for r in counted}),
            "contexts": len(counted),
            "abstract_paths": sum(r["paths"] for r in results),
            "alternatives_beyond_deviation_bound": sum(r["truncated"] for r in results),
            "deviation_bound": self.max_dev,
            "exhaustive": self.max_dev is None,
            "wall_s": round(time.time() - t0, 2),
            "program": W0.P.stats(),
            "unsupported_nodes": dict(W0.I.unsupported),
        }
        self.program = W0.P
        self.world = W0
        return results


def is_cm_command(W, f, depth=0) -> bool:
    """A command used in a with statement: decorated with @contextmanager, or one that only
    returns what such a method of its own class returns (`return self._scope(...)`)."""
    import ast as _ast
    if f.is_contextmanager:
        return True
    if depth > 3:
        return False
    rets = [n for n in _ast.walk(f.node) if isinstance(n, _ast.Return)]
    if not rets:
        return False
    for r in rets:
        c = r.value
        if not (isinstance(c, _ast.Call) and isinstance(c.func, _ast.Attribute) and isinstance(c.func.value, _ast.Name) and c.func.value.id == "self"):
            return False
        g = W.cls.lookup(c.func.attr)
        if g is None or not is_cm_command(W, g, depth + 1):
            return False
    return True


HALT_FIELD = "state._current_halt_mode"


def halt_invariant_witness(W, name, desc, res):
    """None while the path keeps the halt mode OFF, else a description."""
    from .traceutil import out_of_scope_path, resolve
    if res.outcome == "raise" and out_of_scope_path(W.P, res):
        return None
    try:
        st = res.heap[W.ref("state").addr]
    except (AnalysisError, KeyError):
        return None
    v = resolve(st.fields.get("_current_halt_mode"), res.facts)
    if isinstance(v, Member) and v.cls == "HaltMode" and v.name == "OFF":
        return None
    how = "returns" if res.outcome == "return" else f"raises {res.value.cls} in {res.raise_site[0]}"
    return f"{name}({desc}) {how} with the halt mode {v!r}"


_HALT_PROVED = {}
_RUN = None
_ANALYSE = None
_WORLD = None


def _worker(task):
    global _WORLD
    try:
        if _WORLD is None:
            _WORLD = _RUN.make_world()
        return _RUN.run_task(_WORLD, task, _ANALYSE)
    except AnalysisError as e:
        return ("ERR", f"{task}: {e}")
    except Exception as e:  # noqa: BLE001
        return ("ERR", f"{task}: internal error {type(e).__name__}: {e}\n{traceback.format_exc()[-1500:]}")


def run_cm(I, cm, body):
    """Enter and leave a @contextmanager command; `body`: 'pass' | 'raise'."""
    import ast
    from .interp import GenCM
    if not isinstance(cm, GenCM):
        return cm
    gfr = cm.frame
    node = ast.parse("0").body[0]

    def cb(val):
        if body == "raise":
            I.emit("NOTE", node, what="with-body raises")
            I.raise_("BodyError", node, note="exception raised by the with-body (caller code)")
        I.emit("NOTE", node, what="with-body")

    gfr.yield_cb = cb
    I.frames.append(gfr)
    try:
        try:
            I.exec_block(cm.func.node.body, gfr)
        except _Return:
            pass
    finally:
        I.frames.pop()
        gfr.yield_cb = None
    return NONE
