"""Abstract execution of the PathTracer shapes.

Every shape reduces to one call of ``parametric(function, length, **kwargs)``;
that call is intercepted and the closed-form ``function`` is evaluated at a
symbolic parameter theta and at the constants 0 and 1, giving the curve as
polynomials over the inputs and uninterpreted cos/sin/hypot/arctan2
applications (with the identities of gsverif.intrinsics._trig).

To compare distance modes, the same *absolute* waypoints are fed in both modes:
in absolute mode the target argument is T, in relative mode it is T - O.
"""
from __future__ import annotations

import ast

from .driver import World
from .interp import Frame, AbsRaise
from .model import Program, AnalysisError
from .poly import Poly
from .values import *

AX = ("x", "y", "z")
O = [Poly.sym(f"o.{a}") for a in AX]
T = [Poly.sym(f"t.{a}") for a in AX]
T2 = [Poly.sym(f"u.{a}") for a in AX]
C = [Poly.sym("c.x"), Poly.sym("c.y")]
THETA = Poly.sym("theta")


def pt(ps):
    return NT("Point", AX, tuple(Num(p) for p in ps))


class Lab:
    def __init__(self, P: Program):
        self.P = P
        self.W = World(P, "GCodeBuilder")
        I = self.I = self.W.I
        I.transform_mode = "identity"
        I.int_symbols.add("arg.turns")
        I.positive_syms.update({"g.resolution"})
        I.intrinsics["PathTracer.parametric"] = self._parametric
        I.intrinsics["PathTracer.estimate_length"] = lambda I_, fv, a, k, node: Num(Poly.sym("estimated-length"))
        I.event_funcs = {"PathTracer.arc", "PathTracer.helix", "PathTracer.parametric"}
        self.node = ast.parse("0").body[0]

    def _parametric(self, I, fv, args, kwargs, node):
        fn = args[1] if len(args) > 1 else kwargs.get("function")
        length = args[2] if len(args) > 2 else kwargs.get("length")
        kw = {k: v for k, v in kwargs.items() if k not in ("function", "length")}
        rec = {"length": length, "kwargs": kw, "function": fn}
        for name, val in (("theta", Num(THETA)), ("f0", Const(0)), ("f1", Const(1))):
            try:
                r = I.call(fn, [val], {}, node)
            except AbsRaise as e:
                r = e.exc
            rec[name] = r
        I.emit("NOTE", node, what="parametric", **rec)
        return NONE

    def setup(self, mode, direction, position_known=True):
        def f(I):
            g = I.heap[self.W.ref("g").addr]
            st = I.heap[self.W.ref("state").addr]
            pos = pt(O)
            g.fields["_current_axes"] = pos
            st.fields["_current_axes"] = pos
            g.fields["_distance_mode"] = Member("DistanceMode", mode)
            st.fields["_current_distance_mode"] = Member("DistanceMode", mode)
            st.fields["_current_direction"] = Member("Direction", direction)
            st.fields["_current_resolution"] = Num(Poly.sym("g.resolution"))
        return f

    def target(self, mode, which=T, dims=3, prev=None):
        base = prev if prev is not None else O
        ps = [w - b if mode == "RELATIVE" else w for w, b in zip(which, base)]
        if dims == 2:
            return Tup((Num(ps[0]), Num(ps[1])))
        return pt(ps)

    def run(self, shape, mode, direction, make_args, max_paths=3000):
        """-> list of dicts, one per abstract path."""
        I, W = self.I, self.W
        out = []

        def entry(I_, _):
            args, kwargs = make_args(I_, mode)
            return W.call_method(I_, "tracer", shape, args, kwargs)
        for path in I.explore(self.setup(mode, direction), entry, max_dev=None, max_paths=max_paths):
            notes = [e.data for e in path.trace if e.kind == "NOTE" and e.data.get("what") == "parametric"]
            calls = [(e.data["func"], e.data["args"], e.data["kwargs"]) for e in path.trace if e.kind == "CALL"]
            exts = [e for e in path.trace if e.kind == "EXT"]
            out.append({"outcome": path.outcome, "value": path.value, "site": path.raise_site, "decisions": list(path.decisions), "facts": dict(path.facts),
                        "parametric": notes, "calls": calls, "ext": exts, "heap": path.heap, "trace": path.trace})
        return out


def row(v):
    """(x, y, z) polys of a sample returned by a curve function, or None."""
    if isinstance(v, (Tup, NT)) and len(v.items) == 3:
        out = []
        for x in v.items:
            if isinstance(x, Num):
                out.append(x.p)
            elif isinstance(x, Const) and isinstance(x.v, (int, float)) and not isinstance(x.v, bool):
                out.append(Poly.const(x.v))
            else:
                return None
        return out
    return None


def keys(ps):
    return [p.key() for p in ps] if ps is not None else None
