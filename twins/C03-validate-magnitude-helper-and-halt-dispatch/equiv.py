#!/usr/bin/env python
"""Differential check: /repo (original) vs /tmp/wtU-C03 (refactored).

Refactored code under test:
  - GCodeBuilder.halt                      (gscrib/gcode_builder.py)
  - GState._validate_feed_rate / _validate_tool_power, through the new
    private helper GState._validate_magnitude  (gscrib/gcode_state.py)

The parent process starts one worker subprocess per tree (selected with
PYTHONPATH), each of which replays the same seeded random sessions and
prints a JSON transcript of everything observable. The two transcripts
must be identical.
"""

import json
import math
import os
import random
import subprocess
import sys

TREES = {"orig": "/repo", "refactored": "/tmp/wtU-C03"}
SESSIONS = 260
OPS_PER_SESSION = 28
SEED = 30303


# --------------------------------------------------------------------------
# Worker
# --------------------------------------------------------------------------

def worker():
    import logging
    import numpy as np
    import gscrib
    from gscrib import GCodeBuilder
    from gscrib.geometry import Point
    from gscrib.writers import BaseWriter

    logging.disable(logging.CRITICAL)
    expected_root = os.environ["EQUIV_TREE"]
    assert os.path.realpath(gscrib.__file__).startswith(
        os.path.realpath(expected_root) + os.sep), gscrib.__file__

    class Recorder(BaseWriter):
        def __init__(self):
            self.lines = []
        def connect(self):
            return self
        def disconnect(self, wait=True):
            pass
        def write(self, statement):
            self.lines.append(statement.decode("utf-8"))
        def flush(self):
            pass

    HALT_MODES = [
        "off", "pause", "optional-pause", "end-without-reset",
        "end-with-reset", "pallet-exchange", "wait-for-bed",
        "wait-for-hotend", "wait-for-chamber", "wait-for-motion",
        "bogus",
    ]
    TEMP_MODES = ["wait-for-bed", "wait-for-hotend", "wait-for-chamber"]
    SCALAR_PROPS = [
        "bed-temperature", "chamber-temperature", "hotend-temperature",
        "feed-rate", "tool-number", "tool-power",
    ]

    def snapshot(g):
        s = g.state
        return [
            repr(s.feed_rate), repr(s.tool_power), repr(s.tool_number),
            repr(s.halt_mode), repr(s.spin_mode), repr(s.power_mode),
            repr(s.coolant_mode), repr(s.tool_swap_mode),
            repr(s.is_tool_active), repr(s.is_coolant_active),
            repr(s.target_bed_temperature),
            repr(s.target_hotend_temperature),
            repr(s.target_chamber_temperature),
            repr(s.position), repr(g.position),
            repr(s.get_parameter("F")), repr(s.get_parameter("S")),
            repr(g.get_parameter("F")), repr(g.get_parameter("S")),
            repr([s.get_bounds(n) for n in ["axes"] + SCALAR_PROPS]),
        ]

    def session(rng, transcript):
        g = GCodeBuilder()
        rec = Recorder()
        g.add_writer(rec)
        bounds = {}

        def ulp_up(v):
            return math.nextafter(float(v), math.inf)

        def ulp_down(v):
            return math.nextafter(float(v), -math.inf)

        def scalar(prop=None):
            """A value, biased towards the boundaries of `prop`."""
            pool = [
                0, 0.0, -0.0, 1, -1, 0.5, -0.5, 5, 10, 50, 100, 200.5, 1e9,
                -1e-300, 5e-324, float("nan"), float("inf"), float("-inf"),
                True, False, rng.uniform(-50, 400), rng.randint(-5, 400),
                np.float64(rng.uniform(-50, 400)), np.float64("nan"),
                np.int64(rng.randint(-5, 300)), np.float32(12.5),
            ]
            if prop in bounds and rng.random() < 0.65:
                lo, hi = bounds[prop]
                pool = [lo, hi, ulp_down(lo), ulp_up(hi), ulp_up(lo),
                        ulp_down(hi), (lo + hi) / 2, float("nan"),
                        np.float64(lo), np.float64(ulp_up(hi))]
            if rng.random() < 0.07:
                pool = [None, "abc", "12", [1], (1, 2), Point(1, 2, 3), 2j]
            return rng.choice(pool)

        def coord():
            if "axes" in bounds and rng.random() < 0.6:
                lo, hi = bounds["axes"]
                axis = rng.randrange(3)
                lo_v, hi_v = lo[axis], hi[axis]
                return rng.choice([lo_v, hi_v, ulp_down(lo_v), ulp_up(hi_v),
                                   (lo_v + hi_v) / 2, float("nan")])
            return rng.choice([0, 1.5, -3, 10, 25, 1e6, float("nan"),
                               rng.uniform(-30, 30)])

        def op_set_bounds():
            name = rng.choice(["axes"] + SCALAR_PROPS + ["bogus"])
            if name == "axes":
                lo = [rng.uniform(-20, 0) for _ in range(3)]
                hi = [v + rng.uniform(1, 40) for v in lo]
                if rng.random() < 0.1:
                    lo, hi = hi, lo
                args = (name, tuple(lo), tuple(hi))
            else:
                lo = rng.choice([0, 1, 10, rng.uniform(-10, 100),
                                 rng.randint(0, 50)])
                hi = lo + rng.choice([1, 5, rng.uniform(0.5, 300)])
                if rng.random() < 0.1:
                    lo, hi = hi, lo
                args = (name, lo, hi)
            def call():
                r = g.set_bounds(*args)
                if name == "axes":
                    bounds[name] = (Point(*args[1]), Point(*args[2]))
                else:
                    bounds[name] = (args[1], args[2])
                return r
            return ("set_bounds", args), call

        def halt_prop(mode):
            return {"wait-for-bed": "bed-temperature",
                    "wait-for-hotend": "hotend-temperature",
                    "wait-for-chamber": "chamber-temperature"}.get(mode)

        def op_halt():
            mode = rng.choice(TEMP_MODES if rng.random() < 0.7 else HALT_MODES)
            prop = halt_prop(mode)
            kwargs = {}
            for key in rng.sample(["R", "S", "r", "s", "P", "p", "T"],
                                  rng.randint(0, 4)):
                kwargs[key] = scalar(prop)
            if rng.random() < 0.3:
                from gscrib.enums import HaltMode
                try:
                    mode = HaltMode(mode)
                except ValueError:
                    pass
            return ("halt", repr(mode), list(kwargs.items())), \
                lambda: g.halt(mode, **kwargs)

        def op_validate_direct():
            which = rng.choice(["_validate_feed_rate", "_validate_tool_power",
                                "_set_feed_rate", "_set_tool_power"])
            prop = "feed-rate" if "feed" in which else "tool-power"
            value = scalar(prop)
            return (which, value), lambda: getattr(g.state, which)(value)

        def op_set_feed_rate():
            v = scalar("feed-rate")
            return ("set_feed_rate", v), lambda: g.set_feed_rate(v)

        def op_set_tool_power():
            v = scalar("tool-power")
            return ("set_tool_power", v), lambda: g.set_tool_power(v)

        def op_tool_on():
            mode = rng.choice(["clockwise", "counter", "off", "bogus"])
            v = scalar("tool-power")
            return ("tool_on", mode, v), lambda: g.tool_on(mode, v)

        def op_power_on():
            mode = rng.choice(["constant", "dynamic", "off", "bogus"])
            v = scalar("tool-power")
            return ("power_on", mode, v), lambda: g.power_on(mode, v)

        def op_tool_off():
            return ("tool_off",), g.tool_off

        def op_power_off():
            return ("power_off",), g.power_off

        def op_coolant():
            mode = rng.choice(["mist", "flood", "off"])
            if mode == "off":
                return ("coolant_off",), g.coolant_off
            return ("coolant_on", mode), lambda: g.coolant_on(mode)

        def op_tool_change():
            mode = rng.choice(["manual", "automatic", "off"])
            v = rng.choice([0, 1, 2, 7, 12, 100, -1, True])
            if "tool-number" in bounds and rng.random() < 0.6:
                lo, hi = bounds["tool-number"]
                v = rng.choice([int(lo), int(hi), int(lo) - 1, int(hi) + 1])
            return ("tool_change", mode, v), lambda: g.tool_change(mode, v)

        def op_temperature():
            which = rng.choice(["bed", "hotend", "chamber"])
            v = scalar(f"{which}-temperature")
            fn = getattr(g, f"set_{which}_temperature")
            return (f"set_{which}_temperature", v), lambda: fn(v)

        def op_motion():
            which = rng.choice(["move", "rapid", "move_absolute",
                                "rapid_absolute", "probe"])
            kwargs = {}
            for axis in rng.sample(["x", "y", "z"], rng.randint(0, 3)):
                kwargs[axis] = coord()
            if rng.random() < 0.5:
                kwargs[rng.choice(["F", "f"])] = scalar("feed-rate")
            if rng.random() < 0.4:
                kwargs[rng.choice(["S", "s"])] = scalar("tool-power")
            if which == "probe":
                mode = rng.choice(["towards", "towards-no-error", "away",
                                   "away-no-error"])
                return (which, mode, list(kwargs.items())), \
                    lambda: g.probe(mode, **kwargs)
            fn = getattr(g, which)
            return (which, list(kwargs.items())), lambda: fn(**kwargs)

        def op_distance_mode():
            mode = rng.choice(["absolute", "relative"])
            return ("set_distance_mode", mode), \
                lambda: g.set_distance_mode(mode)

        ops = (
            [op_halt] * 9 + [op_validate_direct] * 5 + [op_set_bounds] * 4 +
            [op_set_feed_rate] * 2 + [op_set_tool_power] * 2 +
            [op_tool_on, op_power_on, op_tool_off, op_power_off] +
            [op_coolant] * 2 + [op_tool_change] + [op_temperature] * 2 +
            [op_motion] * 5 + [op_distance_mode]
        )

        for _ in range(rng.randint(0, 4)):
            ops_now = op_set_bounds
            run(ops_now, g, rec, transcript, snapshot)

        for _ in range(OPS_PER_SESSION):
            run(rng.choice(ops), g, rec, transcript, snapshot)

    def run(make_op, g, rec, transcript, snapshot):
        label, call = make_op()
        rec.lines.clear()
        try:
            outcome = ["ok", repr(call())]
        except BaseException as e:  # noqa: every exception type matters
            if isinstance(e, (KeyboardInterrupt, SystemExit)):
                raise
            outcome = ["raise", type(e).__name__, str(e),
                       type(e.__cause__).__name__]
        transcript.append({
            "op": repr(label),
            "outcome": outcome,
            "lines": list(rec.lines),
            "state": snapshot(g),
        })

    rng = random.Random(SEED)
    transcript = []
    for _ in range(SESSIONS):
        session(rng, transcript)

    json.dump(transcript, sys.stdout)


# --------------------------------------------------------------------------
# Parent
# --------------------------------------------------------------------------

def run_tree(root):
    env = dict(os.environ)
    env["PYTHONPATH"] = root
    env["EQUIV_TREE"] = root
    env["PYTHONHASHSEED"] = "0"
    env["PYTHONDONTWRITEBYTECODE"] = "1"
    proc = subprocess.run(
        [sys.executable, os.path.abspath(__file__), "--worker"],
        env=env, cwd="/tmp", stdin=subprocess.DEVNULL,
        capture_output=True, text=True, timeout=600)
    if proc.returncode != 0:
        sys.stderr.write(proc.stderr[-4000:])
        raise SystemExit(f"worker for {root} failed")
    return json.loads(proc.stdout)


def main():
    a = run_tree(TREES["orig"])
    b = run_tree(TREES["refactored"])
    assert len(a) == len(b), (len(a), len(b))

    for i, (x, y) in enumerate(zip(a, b)):
        assert x == y, f"transcripts differ at step {i}:\n{x}\n{y}"

    # Coverage statistics, to show that the interesting paths were driven
    stats = {}
    for step in a:
        name = step["op"].split("'")[1]
        kind = step["outcome"][0]
        if kind == "raise":
            kind = step["outcome"][1]
        stats.setdefault(name, {}).setdefault(kind, 0)
        stats[name][kind] += 1

    for name in sorted(stats):
        print(f"{name:28s} {stats[name]}")

    emitted = sum(len(step["lines"]) for step in a)
    print(f"steps compared: {len(a)}; emitted lines compared: {emitted}")
    print("EQUIVALENT")


if __name__ == "__main__":
    if "--worker" in sys.argv:
        worker()
    else:
        main()
