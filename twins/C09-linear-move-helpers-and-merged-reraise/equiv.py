#!/usr/bin/env python
"""Differential check for the C09 refactoring (twin3).

Runs the same seeded scenario in two subprocesses, one importing the
pristine tree (/repo) and one importing the refactored tree
(/tmp/wtV-C09), and asserts that the transcripts are identical.

Refactored code driven here:
  - GCodeCore.move / rapid / move_absolute / rapid_absolute
  - GCodeCore._prepare_move / _prepare_rapid (also via GCodeBuilder)
  - GCodeCore.annotate, GCodeCore.write
  - DefaultFormatter.set_comment_symbols, DefaultFormatter.line
"""

import json
import os
import subprocess
import sys

TREES = {"orig": "/repo", "twin": "/tmp/wtV-C09"}
SEED = 90903


# ----------------------------------------------------------------------
# Worker: runs inside a subprocess with PYTHONPATH set to one tree
# ----------------------------------------------------------------------

def worker():
    import logging
    import math
    import random
    import re

    import numpy as np

    logging.disable(logging.CRITICAL)

    import gscrib
    from gscrib import GCodeCore, GCodeBuilder
    from gscrib.excepts import DeviceError, GCodeError
    from gscrib.formatters import DefaultFormatter
    from gscrib.geometry import Point
    from gscrib.writers import BaseWriter

    assert os.path.dirname(os.path.dirname(gscrib.__file__)) == \
        os.environ["EXPECTED_TREE"], gscrib.__file__

    rng = random.Random(SEED)
    log = []

    def rec(*items):
        log.append(enc(items))

    ADDRESS = re.compile(r"0x[0-9a-fA-F]+")

    def enc(value):
        if isinstance(value, bytes):
            return "b:" + value.decode("utf-8", "backslashreplace")
        if isinstance(value, (list, tuple)):
            return [enc(v) for v in value]
        if isinstance(value, dict):
            return {str(k): enc(v) for k, v in value.items()}
        if isinstance(value, (str, int, bool)) or value is None:
            return value
        return ADDRESS.sub("0x?", f"{type(value).__name__}:{value!r}")

    class Recorder(BaseWriter):
        """In-process fake device recording every chunk of bytes."""

        def __init__(self, fail_with=None, fail_at=None):
            self.chunks = []
            self.fail_with = fail_with
            self.fail_at = fail_at
            self.calls = 0

        def connect(self):
            return self

        def disconnect(self, wait=True):
            pass

        def write(self, statement):
            self.calls += 1
            if self.fail_with is not None and (
                self.fail_at is None or self.calls == self.fail_at):
                raise self.fail_with("boom %d" % self.calls)
            self.chunks.append(statement)

    class BrokenLineFormatter(DefaultFormatter):
        """Formatter whose line() fails or misbehaves on demand."""

        __slots__ = ("mode",)

        def line(self, statement):
            if self.mode == "raise":
                raise RuntimeError("line failed")
            if self.mode == "gcode":
                raise GCodeError("line gcode")
            if self.mode == "device":
                raise DeviceError("line device")
            if self.mode == "nonstr":
                return 42
            return super().line(statement)

    def snapshot(g, writers):
        state = {
            "pos": g.position,
            "axes": g._current_axes,
            "params": dict(g._current_params),
            "mode": g.distance_mode,
            "out": [list(w.chunks) for w in writers],
        }
        if isinstance(g, GCodeBuilder):
            s = g.state
            state["st"] = [
                s.position, s.feed_rate, s.tool_power, s.halt_mode,
                s.distance_mode, s.is_tool_active, s.is_coolant_active,
            ]
        return state

    def attempt(tag, g, writers, func, *args, **kwargs):
        try:
            result = func(*args, **kwargs)
            outcome = ["ok", result]
        except BaseException as e:  # pylint: disable=broad-except
            cause = type(e.__cause__).__name__ if e.__cause__ else None
            outcome = ["err", type(e).__name__,
                       ADDRESS.sub("0x?", str(e))[:200], cause]
        rec(tag, enc(args), enc(kwargs), outcome,
            snapshot(g, writers) if g is not None else None)

    # ------------------------------------------------------------------
    # Input pools
    # ------------------------------------------------------------------

    TEXTS = [
        "", " ", "plain", "  padded  ", "G1 X10 Y10", "a\nG1 X99",
        "a\r\nM3 S1000", "a\rM112", "x G0 Z-5", "x y", "x\x0by",
        "x\x0cy", "x\x1cy\x1dz\x1e", "x\x85y", "end ) G1 X1", "end ] M3",
        "end } M5", "end > M8", 'say "hi" M2', "it's 'q' M30",
        "c */ G28 /* d", "; semi ; colon", "( nested ( paren ) )",
        "{} {0} {x} %s %d", "{", "}", "\\n \\r", "café üñ",
        "日本語", "\U0001f600 emoji", "\ud800 lone", "\x00nul",
        "\t tab \t", "trailing\n", "\nleading", "\n", "\r\n\r\n", "*/", ")",
        "a" * 300,
    ]
    STYLES = [";", "(", "[", "{", "<", '"', "'", "/*", "#", "//", "%",
              " ; ", "\t(\t", ";;", "( ", "--"]
    BAD_STYLES = ["", " ", "\t\n", None, 5, b";", ["("], "{}", "{0}",
                  ";{", "}", "{x}"]
    LINE_ENDINGS = ["os", "\\n", "\\r\\n", "\n", "\r\n", "", ";", "\\t|"]
    NUMS = [0, 1, -1, 0.0, -0.0, 1.5, -2.25, 1e-7, 1e9, 123.456789012,
            10, 3, float("nan"), float("inf"), float("-inf"),
            np.float64(2.5), np.int64(7), np.float32(0.1), True, None]
    BAD_VALUES = ["1", "abc", [1], (1, 2), {}, object, 1 + 2j, b"1"]

    def num():
        if rng.random() < 0.55:
            return round(rng.uniform(-200, 200), rng.choice([0, 1, 3, 7]))
        return rng.choice(NUMS)

    def text():
        if rng.random() < 0.25:
            return rng.choice(TEXTS) + rng.choice(TEXTS)
        return rng.choice(TEXTS)

    def comment_value():
        r = rng.random()
        if r < 0.7:
            return text()
        if r < 0.8:
            return None
        return rng.choice([5, 1.5, b"x", ["a"], True, object])

    def point_value():
        r = rng.random()
        if r < 0.25:
            return None
        if r < 0.45:
            return Point(num(), num(), num())
        if r < 0.6:
            return [num(), num(), num()]
        if r < 0.7:
            return (num(), num())
        if r < 0.8:
            return np.array([rng.uniform(-5, 5) for _ in range(3)])
        return rng.choice([
            "abc", "", 5, (1,), (1, 2, 3, 4), [None, None, None],
            ("1", "2", "3"), {"x": 1}, Point.unknown(), Point.zero(), b"123",
        ])

    def move_kwargs():
        kw = {}
        for key in ("x", "y", "z", "X", "Y", "Z"):
            if rng.random() < 0.3:
                kw[key] = num() if rng.random() < 0.9 else rng.choice(BAD_VALUES)
        for key in ("F", "f", "S", "s", "E", "e", "A", "i", "P", "is_rapid",
                    "kwargs", "point_", "instruction", "params", "prepare"):
            if rng.random() < 0.15:
                kw[key] = num() if rng.random() < 0.85 else rng.choice(
                    BAD_VALUES + ["text", "a b", "1\nG1"])
        if rng.random() < 0.75:
            kw["comment"] = comment_value()
        return kw

    # ------------------------------------------------------------------
    # 1. Formatter alone: set_comment_symbols, line, comment
    # ------------------------------------------------------------------

    fmt = DefaultFormatter()

    for style in STYLES + BAD_STYLES:
        attempt("fmt.symbols", None, [], fmt.set_comment_symbols, style)
        rec("fmt.template", fmt._comment_template, fmt._comment_ending)
        for t in rng.sample(TEXTS, 6):
            attempt("fmt.comment", None, [], fmt.comment, t)
            attempt("fmt.command", None, [], fmt.command, "G1", {"X": 1}, t)

    for ending in LINE_ENDINGS + [None, 5, b"\n", "\\x", "\\u12"]:
        attempt("fmt.endings", None, [], fmt.set_line_endings, ending)
        rec("fmt.endings.value", fmt._line_endings)
        for t in TEXTS + ["G1 X1  \t", "G1 X1\n", "  lead", None, 5, b"G1",
                          ["G1"], 1.5]:
            attempt("fmt.line", None, [], fmt.line, t)

    class StrSub(str):
        def __str__(self):
            return "STR"

        def __format__(self, spec):
            return "FMT"

        def rstrip(self, *a):
            return "RSTRIP "

    attempt("fmt.line.sub", None, [], fmt.line, StrSub("G1 X1  "))
    attempt("fmt.symbols.sub", None, [], fmt.set_comment_symbols, StrSub("("))
    rec("fmt.template.sub", fmt._comment_template, fmt._comment_ending)

    # ------------------------------------------------------------------
    # 2. Builders: moves, annotate, comment, write, emergency_halt
    # ------------------------------------------------------------------

    def extrude_hook(origin, target, params, state):
        params.update(E=round((target - origin).resolve().x, 3))
        return params

    def failing_hook(origin, target, params, state):
        raise KeyError("hook failed")

    def replacing_hook(origin, target, params, state):
        return {"F": 100, "q": "text"}

    def make(kind, style, ending):
        options = {"comment_symbols": style, "line_endings": ending,
                   "decimal_places": rng.choice([0, 2, 5])}
        if rng.random() < 0.2:
            options["x_axis"] = "A"
        g = GCodeBuilder(options) if kind == "builder" else GCodeCore(options)
        writers = [Recorder() for _ in range(rng.choice([0, 1, 1, 2]))]
        for w in writers:
            g.add_writer(w)
        return g, writers

    MOVES = ["move", "rapid", "move_absolute", "rapid_absolute"]

    for round_number in range(60):
        kind = rng.choice(["core", "builder"])
        style = rng.choice(STYLES[:12])
        ending = rng.choice(LINE_ENDINGS[:4])
        try:
            g, writers = make(kind, style, ending)
        except Exception as e:  # pylint: disable=broad-except
            rec("make.err", kind, style, ending, type(e).__name__, str(e))
            continue

        rec("make", kind, style, ending)

        for step in range(rng.randint(8, 16)):
            r = rng.random()

            if r < 0.45:
                name = rng.choice(MOVES)
                attempt(name, g, writers, getattr(g, name),
                        point_value(), **move_kwargs())
            elif r < 0.50:
                name = rng.choice(MOVES)  # keyword point, positional extras
                if rng.random() < 0.5:
                    attempt(name + ".kw", g, writers, getattr(g, name),
                            point=point_value(), **move_kwargs())
                else:
                    attempt(name + ".extra", g, writers, getattr(g, name),
                            point_value(), 5, **move_kwargs())
            elif r < 0.58:
                key = rng.choice(["tool", "a_b1", "1bad", "", "with space",
                                  "café", "k\n", "class", "_", "a-b"])
                value = rng.choice([text(), text(), None, 5, b"v"])
                attempt("annotate", g, writers, g.annotate, key, value)
            elif r < 0.64:
                extras = [rng.choice([1, 2.5, None, "x\ny", Point.zero()])
                          for _ in range(rng.choice([0, 0, 1, 3]))]
                attempt("comment", g, writers, g.comment,
                        comment_value(), *extras)
            elif r < 0.70:
                attempt("write", g, writers, g.write,
                        rng.choice(TEXTS + [None, 5, b"G1", "G1 X1 ; c  "]))
            elif r < 0.74:
                attempt("set_axis", g, writers, g.set_axis,
                        point_value(), **move_kwargs())
            elif r < 0.79:
                attempt("distance", g, writers, g.set_distance_mode,
                        rng.choice(["absolute", "relative", "bogus"]))
            elif r < 0.84:
                op = rng.choice(["translate", "rotate", "scale", "mirror",
                                 "reset"])
                if op == "translate":
                    attempt("tf", g, writers, g.transform.translate,
                            rng.randint(-9, 9), rng.randint(-9, 9))
                elif op == "rotate":
                    attempt("tf", g, writers, g.transform.rotate,
                            rng.choice([90, 45, 30, -180]))
                elif op == "scale":
                    attempt("tf", g, writers, g.transform.scale,
                            rng.choice([2, 0.5, -1]))
                elif op == "mirror":
                    attempt("tf", g, writers, g.transform.mirror)
                else:
                    g._transformer = type(g.transform)()
            elif r < 0.88:
                attempt("symbols", g, writers, g.format.set_comment_symbols,
                        rng.choice(STYLES + BAD_STYLES))
            elif r < 0.91:
                attempt("endings", g, writers, g.format.set_line_endings,
                        rng.choice(LINE_ENDINGS))
            elif kind == "builder" and r < 0.94:
                attempt("emergency", g, writers, g.emergency_halt,
                        comment_value(), rng.choice([True, False]))
            elif kind == "builder" and r < 0.97:
                hook = rng.choice([extrude_hook, failing_hook,
                                   replacing_hook])
                if rng.random() < 0.6:
                    attempt("add_hook", g, writers, g.add_hook, hook)
                else:
                    attempt("remove_hook", g, writers, g.remove_hook, hook)
            elif kind == "builder":
                choice = rng.random()
                if choice < 0.4:
                    attempt("bounds", g, writers, g.set_bounds, "axes",
                            Point(-50, -50, -50), Point(50, 50, 50))
                elif choice < 0.7:
                    attempt("bounds", g, writers, g.set_bounds, "feed-rate",
                            1, 150)
                else:
                    attempt("tool_on", g, writers, g.tool_on, "cw", 1000)
            else:
                name = rng.choice(MOVES)
                attempt(name, g, writers, getattr(g, name),
                        x=num(), y=num(), comment=text())

        # _prepare_move / _prepare_rapid called directly

        for name in ("_prepare_move", "_prepare_rapid"):
            params = gscrib.params.ParamsDict(F=num(), s=num())
            target = rng.choice([
                Point(num(), num(), num()), Point.unknown(), (1, 2, 3), None])
            if rng.random() < 0.5:
                attempt(name, g, writers, getattr(g, name),
                        target, params, comment_value())
            else:
                attempt(name + ".nocomment", g, writers, getattr(g, name),
                        target, params)
            rec(name + ".params", dict(params))

    # ------------------------------------------------------------------
    # 3. write(): failing writers and formatters
    # ------------------------------------------------------------------

    ERRORS = [DeviceError, GCodeError, ValueError, KeyError, OSError,
              RuntimeError, TypeError, UnicodeError]

    for kind in ("core", "builder"):
        for error in ERRORS:
            for fail_at in (None, 1, 2):
                cls = GCodeBuilder if kind == "builder" else GCodeCore
                g = cls(comment_symbols=rng.choice(STYLES[:8]))
                writers = [Recorder(), Recorder(error, fail_at), Recorder()]
                for w in writers:
                    g.add_writer(w)
                for call in range(3):
                    t = text()
                    attempt("fail.write", g, writers, g.write, "G1 X1 " + t)
                    attempt("fail.comment", g, writers, g.comment, t)
                    attempt("fail.annotate", g, writers, g.annotate, "k", t)
                    name = rng.choice(MOVES)
                    attempt("fail." + name, g, writers, getattr(g, name),
                            x=call, y=num(), comment=t)

        for mode in ("raise", "gcode", "device", "nonstr", "fine"):
            cls = GCodeBuilder if kind == "builder" else GCodeCore
            g = cls()
            formatter = BrokenLineFormatter()
            formatter.mode = mode
            g.set_formatter(formatter)
            writers = [Recorder()]
            g.add_writer(writers[0])
            attempt("fmtfail.write", g, writers, g.write, "G1 X1")
            attempt("fmtfail.annotate", g, writers, g.annotate, "k", "v\nG1")
            attempt("fmtfail.move", g, writers, g.move, x=1, comment="c\nG0")
            attempt("fmtfail.rapid_abs", g, writers, g.rapid_absolute,
                    x=2, comment="c")

    # lone surrogates cannot be encoded: internal error path of write

    g = GCodeCore()
    writers = [Recorder()]
    g.add_writer(writers[0])
    attempt("surrogate.write", g, writers, g.write, "G1 \ud800")
    attempt("surrogate.move", g, writers, g.move, x=1, comment="\udfff")
    attempt("surrogate.annotate", g, writers, g.annotate, "k", "\ud800")

    # relative mode + absolute moves restore the distance mode

    for kind in (GCodeCore, GCodeBuilder):
        g = kind()
        writers = [Recorder(ValueError, 3)]
        g.add_writer(writers[0])
        attempt("rel.mode", g, writers, g.set_distance_mode, "relative")
        attempt("rel.move_abs", g, writers, g.move_absolute, x=1, comment="a\nb")
        attempt("rel.rapid_abs", g, writers, g.rapid_absolute, x=2, F="bad")
        attempt("rel.rapid_abs", g, writers, g.rapid_absolute, x=3, comment=")")
        attempt("rel.move", g, writers, g.move, x=3, y=float("nan"))
        attempt("rel.rapid", g, writers, g.rapid, Point(1, 2, 3), x=9)

    json.dump(log, sys.stdout)


# ----------------------------------------------------------------------
# Driver
# ----------------------------------------------------------------------

def run_tree(path):
    env = dict(os.environ)
    env["PYTHONPATH"] = path
    env["EXPECTED_TREE"] = path
    env["PYTHONHASHSEED"] = "0"
    env["PYTHONDONTWRITEBYTECODE"] = "1"

    proc = subprocess.run(
        [sys.executable, os.path.abspath(__file__), "--worker"],
        env=env, cwd="/tmp", stdin=subprocess.DEVNULL,
        stdout=subprocess.PIPE, stderr=subprocess.PIPE, timeout=600,
    )

    if proc.returncode != 0:
        sys.stderr.write(proc.stderr.decode("utf-8", "replace"))
        raise SystemExit(f"worker for {path} failed ({proc.returncode})")

    return json.loads(proc.stdout.decode("utf-8"))


def main():
    transcripts = {name: run_tree(path) for name, path in TREES.items()}
    orig, twin = transcripts["orig"], transcripts["twin"]

    for index, (a, b) in enumerate(zip(orig, twin)):
        if a != b:
            print("MISMATCH at record", index)
            print(" orig:", json.dumps(a)[:1500])
            print(" twin:", json.dumps(b)[:1500])
            raise SystemExit(1)

    assert len(orig) == len(twin), (len(orig), len(twin))

    errors = sum(1 for r in orig if len(r) > 3
                 and isinstance(r[3], list) and r[3][:1] == ["err"])
    tags = {}
    for r in orig:
        tags[r[0]] = tags.get(r[0], 0) + 1

    print(f"records: {len(orig)}  (with exceptions: {errors})")
    print("by tag:", json.dumps(tags, sort_keys=True))
    print("EQUIVALENT")


if __name__ == "__main__":
    if "--worker" in sys.argv:
        worker()
    else:
        main()
