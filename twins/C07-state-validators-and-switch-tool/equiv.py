#!/usr/bin/env python
"""Differential check for the C07 twin refactoring (GState tool switching
and magnitude validators).

Runs the same seeded call histories against /repo (reference) and
/tmp/wtU-C07 (refactored) in separate subprocesses and asserts that the
two transcripts (emitted lines, state snapshots, return values, exception
type names and messages) are identical.  Exit status 0 means identical.
"""

import json
import os
import re
import subprocess
import sys

TREES = {"reference": "/repo", "refactored": "/tmp/wtU-C07"}
N_HISTORIES = 40
N_STEPS = 45
SEED = 70707


# ----------------------------------------------------------------------
# Child: drives one tree and prints a JSON transcript
# ----------------------------------------------------------------------

def child(expected_root: str) -> None:
    import math
    import random

    import numpy as np
    import gscrib
    from gscrib import GCodeBuilder
    from gscrib.gcode_state import GState
    from gscrib.writers.base_writer import BaseWriter
    from gscrib.enums import (
        SpinMode, PowerMode, CoolantMode, ToolSwapMode, HaltMode,
        DistanceMode, FeedMode, LengthUnits,
    )

    root = os.path.realpath(os.path.dirname(os.path.dirname(gscrib.__file__)))
    assert root == os.path.realpath(expected_root), (root, expected_root)

    class FakeWriter(BaseWriter):
        def __init__(self):
            self.lines = []

        def connect(self):
            return self

        def disconnect(self, wait=True):
            pass

        def write(self, statement):
            self.lines.append(statement.decode("utf-8"))

    rng = random.Random(SEED)
    scrub = re.compile(r"0x[0-9a-fA-F]+")

    numbers = [
        0, 0.0, -0.0, 1, 1.0, 0.5, 100, 1000.0, 12000, 255, 1e-9, 1e12,
        -1, -0.5, -1e-9, -1000, float("nan"), float("inf"), float("-inf"),
        True, False, np.float64(3.5), np.float64(-2.0), np.float64("nan"),
        np.int64(7), np.float32(1.25),
    ]
    junk = [None, "x", "10", [1], (1, 2), {}, 1j, b"1", object]

    def number():
        roll = rng.random()
        if roll < 0.55:
            return rng.choice(numbers)
        if roll < 0.85:
            return round(rng.uniform(-50, 5000), rng.choice([0, 1, 3, 6]))
        if roll < 0.93:
            return rng.randint(-5, 20000)
        return rng.choice(junk)

    def enum_arg(enum, extra=()):
        members = list(enum)
        roll = rng.random()
        if roll < 0.6:
            return rng.choice(members)
        if roll < 0.8:
            return rng.choice(members).value
        return rng.choice(["bogus", "", "OFF", "off", None, 3, *extra])

    state_props = [
        "position", "is_coolant_active", "is_tool_active", "tool_number",
        "tool_power", "feed_rate", "spin_mode", "power_mode", "coolant_mode",
        "distance_mode", "extrusion_mode", "feed_mode", "tool_swap_mode",
        "halt_mode", "length_units", "time_units", "temperature_units",
        "plane", "direction", "resolution", "target_hotend_temperature",
        "target_bed_temperature", "target_chamber_temperature",
    ]

    def snapshot(state):
        snap = {}
        for name in state_props:
            value = getattr(state, name)
            snap[name] = f"{type(value).__name__}:{value!r}"
        for param in ("F", "S", "E", "X"):
            value = state.get_parameter(param)
            snap["param-" + param] = f"{type(value).__name__}:{value!r}"
        for bound in ("feed-rate", "tool-power", "tool-number"):
            snap["bounds-" + bound] = repr(state.get_bounds(bound))
        return snap

    def bounds_args():
        name = rng.choice(["feed-rate", "tool-power", "tool-number",
                           "feed-rate", "tool-power", "nothing"])
        low = rng.choice([0, 1, 10, -5, 0.5, 100, float("nan"), "a"])
        high = rng.choice([5, 50, 1000, 20000, 0, float("inf"), None])
        return name, low, high

    # Each operation returns (label, callable)

    def make_ops(g):
        s = g.state
        return [
            lambda: ("tool_on", g.tool_on, (enum_arg(SpinMode), number())),
            lambda: ("tool_on", g.tool_on, (enum_arg(SpinMode), number())),
            lambda: ("tool_off", g.tool_off, ()),
            lambda: ("power_on", g.power_on, (enum_arg(PowerMode), number())),
            lambda: ("power_on", g.power_on, (enum_arg(PowerMode), number())),
            lambda: ("power_off", g.power_off, ()),
            lambda: ("set_tool_power", g.set_tool_power, (number(),)),
            lambda: ("set_feed_rate", g.set_feed_rate, (number(),)),
            lambda: ("coolant_on", g.coolant_on, (enum_arg(CoolantMode),)),
            lambda: ("coolant_off", g.coolant_off, ()),
            lambda: ("tool_change", g.tool_change,
                     (enum_arg(ToolSwapMode), rng.choice([1, 2, 0, -1, 12, 1.5, True, "3"]))),
            lambda: ("halt", g.halt, (enum_arg(HaltMode),)),
            lambda: ("set_bounds", g.set_bounds, bounds_args()),
            lambda: ("set_distance_mode", g.set_distance_mode, (enum_arg(DistanceMode),)),
            lambda: ("set_feed_mode", g.set_feed_mode, (enum_arg(FeedMode),)),
            lambda: ("set_length_units", g.set_length_units, (enum_arg(LengthUnits),)),
            lambda: ("move-F", lambda x, f: g.move(x=x, F=f), (number(), number())),
            lambda: ("move-S", lambda y, v: g.move(y=y, S=v), (number(), number())),
            lambda: ("move-FS", lambda x, f, v: g.move(x=x, f=f, s=v),
                     (rng.randint(-20, 20), number(), number())),
            lambda: ("rapid-FS", lambda z, f, v: g.rapid(z=z, F=f, S=v),
                     (rng.randint(-20, 20), number(), number())),
            lambda: ("set_axis-F", lambda x, f: g.set_axis(x=x, F=f), (number(), number())),
            # The state object driven directly
            lambda: ("_set_spin_mode", s._set_spin_mode, (enum_arg(SpinMode), number())),
            lambda: ("_set_spin_mode/1", s._set_spin_mode, (enum_arg(SpinMode),)),
            lambda: ("_set_power_mode", s._set_power_mode, (enum_arg(PowerMode), number())),
            lambda: ("_set_power_mode/1", s._set_power_mode, (enum_arg(PowerMode),)),
            lambda: ("_set_spin_mode-kw", lambda m, v: s._set_spin_mode(mode=m, speed=v),
                     (enum_arg(SpinMode), number())),
            lambda: ("_set_power_mode-kw", lambda m, v: s._set_power_mode(mode=m, power=v),
                     (enum_arg(PowerMode), number())),
            lambda: ("_set_tool_power", s._set_tool_power, (number(),)),
            lambda: ("_set_feed_rate", s._set_feed_rate, (number(),)),
            lambda: ("_validate_feed_rate", s._validate_feed_rate, (number(),)),
            lambda: ("_validate_tool_power", s._validate_tool_power, (number(),)),
            lambda: ("_validate_feed_rate-pt", s._validate_feed_rate, (g.position,)),
            lambda: ("_validate_tool_power-pt", s._validate_tool_power, (s.position,)),
            lambda: ("_validate_tool_number", s._validate_tool_number,
                     (rng.choice([1, 0, 5, -3, 2.0, True]),)),
        ]

    transcript = []

    for history in range(N_HISTORIES):
        writer = FakeWriter()
        g = GCodeBuilder()
        g.add_writer(writer)
        ops = make_ops(g)
        transcript.append(["new-builder", history, snapshot(g.state)])

        for step in range(N_STEPS):
            label, func, args = rng.choice(ops)()
            before = len(writer.lines)
            entry = {"op": label, "args": scrub.sub("0x", repr(args))}

            try:
                result = func(*args)
                entry["ret"] = f"{type(result).__name__}:{result!r}"
            except Exception as error:  # pylint: disable=broad-except
                entry["exc"] = type(error).__name__
                entry["msg"] = scrub.sub("0x", str(error))

            entry["lines"] = writer.lines[before:]
            entry["state"] = snapshot(g.state)
            transcript.append(entry)

    # A bare state object, including its freshly constructed values

    for trial in range(60):
        s = GState()
        entry = {"op": "bare-state", "init": snapshot(s), "steps": []}

        for step in range(6):
            which = rng.choice(["spin", "power", "off-spin", "off-power",
                                "vf", "vp", "bounds"])
            try:
                if which == "spin":
                    s._set_spin_mode(enum_arg(SpinMode), number())
                elif which == "power":
                    s._set_power_mode(enum_arg(PowerMode), number())
                elif which == "off-spin":
                    s._set_spin_mode(SpinMode.OFF, number())
                elif which == "off-power":
                    s._set_power_mode(PowerMode.OFF, number())
                elif which == "vf":
                    s._validate_feed_rate(number())
                elif which == "vp":
                    s._validate_tool_power(number())
                else:
                    s._set_bounds(*bounds_args())
                outcome = "ok"
            except Exception as error:  # pylint: disable=broad-except
                outcome = type(error).__name__ + ":" + scrub.sub("0x", str(error))

            entry["steps"].append([which, outcome, snapshot(s)])

        transcript.append(entry)

    # Public surface of the state class is unchanged apart from the two
    # new private helpers (recorded by the parent, not compared here)

    public = sorted(n for n in dir(GState) if not n.startswith("_"))
    transcript.append(["public-api", public])

    json.dump(transcript, sys.stdout)


# ----------------------------------------------------------------------
# Parent
# ----------------------------------------------------------------------

def run_tree(root: str) -> list:
    env = dict(os.environ)
    env["PYTHONPATH"] = root
    env["PYTHONHASHSEED"] = "0"
    env["PYTHONDONTWRITEBYTECODE"] = "1"

    proc = subprocess.run(
        [sys.executable, os.path.abspath(__file__), "--child", root],
        env=env, cwd="/tmp", stdin=subprocess.DEVNULL,
        stdout=subprocess.PIPE, stderr=subprocess.PIPE,
        timeout=600, check=False,
    )

    if proc.returncode != 0:
        sys.stderr.write(proc.stderr.decode("utf-8", "replace"))
        raise SystemExit(f"child for {root} failed ({proc.returncode})")

    return json.loads(proc.stdout.decode("utf-8"))


def main() -> int:
    if len(sys.argv) >= 3 and sys.argv[1] == "--child":
        child(sys.argv[2])
        return 0

    reference = run_tree(TREES["reference"])
    refactored = run_tree(TREES["refactored"])

    assert len(reference) == len(refactored), (len(reference), len(refactored))

    for index, (old, new) in enumerate(zip(reference, refactored)):
        assert old == new, (
            f"transcripts differ at entry {index}:\n"
            f"  reference:  {json.dumps(old)[:2000]}\n"
            f"  refactored: {json.dumps(new)[:2000]}"
        )

    calls = [e for e in reference if isinstance(e, dict) and "op" in e]
    raised = [e for e in calls if "exc" in e]
    kinds = sorted({e["exc"] for e in raised})
    emitted = sum(len(e.get("lines", [])) for e in calls)
    tool_on = sum(1 for e in calls
                  if e.get("state", {}).get("is_tool_active") == "bool:True")

    print(f"entries compared: {len(reference)}")
    print(f"calls: {len(calls)}, raising: {len(raised)} ({', '.join(kinds)})")
    print(f"lines emitted: {emitted}; snapshots with tool active: {tool_on}")
    print("IDENTICAL")
    return 0


if __name__ == "__main__":
    sys.exit(main())
