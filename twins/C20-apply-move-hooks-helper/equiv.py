#!/usr/bin/env python
"""Differential check for the C20 refactoring (move hooks / extrusion hook).

Runs the same seeded scenario set against two source trees, each in its
own subprocess (PYTHONPATH=/repo and PYTHONPATH=/tmp/wtT-C20), and checks
that the two transcripts are byte-for-byte identical.

    /venv/bin/python /tmp/twin-C20/equiv.py

The transcript holds, for every operation: the lines received by a
registered in-process writer, the tracked position, the remembered "E"
word (builder and state), modes, number of hooks, what every recording
hook saw (origin, target, params, state modes), return values and the
type name of any exception raised. No real device is ever opened.
"""

import json
import os
import subprocess
import sys

TREES = (("orig", "/repo"), ("twin", "/tmp/wtT-C20"))
SEED = 20200
N_BUILDER_SCENARIOS = 260
N_DIRECT_CALLS = 400
N_PREPARE_CALLS = 120


# ---------------------------------------------------------------------
# Worker (runs inside each tree)
# ---------------------------------------------------------------------

def worker() -> None:
    import math
    import random
    import logging

    logging.disable(logging.CRITICAL)

    import numpy as np
    import gscrib
    from gscrib import GCodeBuilder, ParamsDict
    from gscrib.geometry import Point
    from gscrib.enums import ExtrusionMode
    from gscrib.hooks import extrusion_hook
    from gscrib.writers.base_writer import BaseWriter

    assert os.path.dirname(os.path.dirname(gscrib.__file__)) == \
        os.environ["EXPECTED_TREE"], gscrib.__file__

    rng = random.Random(SEED)
    out = []

    def emit(*items):
        out.append(json.dumps(items, default=describe, sort_keys=True))

    def describe(value):
        if isinstance(value, Point):
            return ["Point", describe(value.x), describe(value.y), describe(value.z)]
        if isinstance(value, dict):
            return [type(value).__name__,
                    {str(k): describe(v) for k, v in value.items()}]
        if isinstance(value, (list, tuple)):
            return [type(value).__name__, [describe(v) for v in value]]
        if value is None or isinstance(value, (bool, str)):
            return value
        return [type(value).__name__, repr(value)]

    class MemoryWriter(BaseWriter):
        def __init__(self):
            self.lines = []
            self.fail_next = False

        def connect(self):
            return self

        def disconnect(self, wait=True):
            pass

        def write(self, statement):
            if self.fail_next:
                self.fail_next = False
                raise OSError("fake device failure")
            self.lines.append(statement.decode("utf-8"))

        def drain(self):
            lines, self.lines = self.lines, []
            return lines

    # -- hooks used in the scenarios ---------------------------------

    def make_recorder(log, tag):
        def recorder(origin, target, params, state):
            log.append([
                tag, describe(origin), describe(target), describe(params),
                str(state.distance_mode), str(state.extrusion_mode),
                describe(state.get_parameter("E")),
                describe(state.position),
            ])
            return params
        return recorder

    def make_replacer(log):
        def replacer(origin, target, params, state):
            fresh = ParamsDict(params)
            fresh.update(Q=round(target.x - origin.x, 6))
            log.append(["replacer", describe(fresh)])
            return fresh
        return replacer

    def make_none_hook():
        def none_hook(origin, target, params, state):
            return None
        return none_hook

    def make_raiser(log):
        def raiser(origin, target, params, state):
            log.append(["raiser", describe(params)])
            raise KeyError("hook failure")
        return raiser

    def make_self_remover(builder, log):
        def self_remover(origin, target, params, state):
            log.append(["self_remover", describe(origin), describe(target)])
            builder.remove_hook(self_remover)
            return params
        return self_remover

    def make_feed_limiter():
        def feed_limiter(origin, target, params, state):
            if params.get("F") is not None:
                params.update(F=min(params.get("F"), 1000))
            return params
        return feed_limiter

    SPECIALS = [0.0, -0.0, 1e-12, 1e12, float("inf"), float("-inf"),
                float("nan"), -1.0, 1, 0, None, "1.0", True,
                np.float64(0.4), np.float32(0.2), np.int64(2)]

    def geometry_value(typical_lo, typical_hi):
        if rng.random() < 0.12:
            return rng.choice(SPECIALS)
        return round(rng.uniform(typical_lo, typical_hi), rng.choice([2, 3, 6, 12]))

    def coordinate():
        r = rng.random()
        if r < 0.08:
            return None
        if r < 0.14:
            return rng.choice([0.0, -0.0, 0, 1e-9, -1e-9, 1e6,
                               np.float64(2.5), np.int64(3)])
        if r < 0.17:
            return rng.choice([float("nan"), float("inf"), "3", [1]])
        return round(rng.uniform(-120, 120), rng.choice([0, 1, 3, 6]))

    def snapshot(builder):
        return [
            describe(builder.position),
            describe(builder.state.position),
            describe(builder.get_parameter("E")),
            describe(builder.state.get_parameter("E")),
            describe(builder.get_parameter("F")),
            describe(builder.state.feed_rate),
            str(builder.distance_mode),
            str(builder.state.distance_mode),
            str(builder.state.extrusion_mode),
            len(builder._hooks),
        ]

    def attempt(label, function, builder=None, writer=None, log=None):
        try:
            result = ["ok", describe(function())]
        except BaseException as error:  # noqa: every type matters here
            result = ["raised", type(error).__name__]
        record = [label, result]
        if log is not None:
            record.append(list(log))
            del log[:]
        if writer is not None:
            record.append(writer.drain())
        if builder is not None:
            record.append(snapshot(builder))
        emit(*record)

    # -- part A: whole-builder scenarios -------------------------------

    def builder_scenario(index):
        decimals = rng.choice([3, 5, 9, 14])
        builder = GCodeBuilder(decimal_places=decimals, line_endings="\n")
        writer = MemoryWriter()
        builder.add_writer(writer)
        log = []
        hooks = []
        emit("scenario", index, decimals)

        def add_extrusion():
            args = (geometry_value(0.05, 0.6), geometry_value(0.1, 1.2),
                    geometry_value(1.0, 3.0))
            emit("extrusion_hook args", describe(args))
            hook = extrusion_hook(*args) if rng.random() < 0.5 else \
                extrusion_hook(layer_height=args[0], nozzle_diameter=args[1],
                               filament_diameter=args[2])
            hooks.append(hook)
            builder.add_hook(hook)

        def add_other():
            kind = rng.choice(["recorder", "recorder", "recorder", "replacer",
                               "none", "raiser", "self_remover", "limiter"])
            hook = {
                "recorder": lambda: make_recorder(log, "rec%d" % len(hooks)),
                "replacer": lambda: make_replacer(log),
                "none": make_none_hook,
                "raiser": lambda: make_raiser(log),
                "self_remover": lambda: make_self_remover(builder, log),
                "limiter": make_feed_limiter,
            }[kind]()
            emit("add hook", kind)
            hooks.append(hook)
            builder.add_hook(hook)

        def remove_some():
            if hooks:
                builder.remove_hook(hooks.pop(rng.randrange(len(hooks))))

        def move_kwargs():
            kwargs = {}
            for name in ("x", "y", "z"):
                if rng.random() < 0.75:
                    kwargs[name] = coordinate()
            if rng.random() < 0.3:
                kwargs[rng.choice(["F", "f"])] = rng.choice(
                    [600, 1500.0, 3000, -5, 0, None, "fast"])
            if rng.random() < 0.12:
                kwargs[rng.choice(["E", "e"])] = rng.choice(
                    [0.0, 2.5, -1.0, None, "x"])
            if rng.random() < 0.1:
                kwargs["comment"] = "c%d" % rng.randrange(9)
            return kwargs

        def point_arg():
            size = rng.choice([2, 3, 3, 4])
            return tuple(coordinate() for _ in range(size))

        def do_move():
            name = rng.choice(["move", "move", "move", "rapid",
                               "move_absolute", "rapid_absolute"])
            method = getattr(builder, name)
            if rng.random() < 0.25:
                point = point_arg()
                return name, lambda: method(point)
            kwargs = move_kwargs()
            return name, lambda: method(**kwargs)

        def do_trace():
            kind = rng.choice(["polyline", "arc", "circle", "spline",
                               "arc_radius", "helix", "parametric"])
            builder.set_resolution(rng.choice([0.5, 1.0, 2.5, 7.0]))
            writer.drain()
            extra = {"F": 1200} if rng.random() < 0.2 else {}
            r = round(rng.uniform(1, 15), 2)
            if kind == "polyline":
                points = [tuple(round(rng.uniform(-30, 30), 2)
                          for _ in range(rng.choice([2, 3])))
                          for _ in range(rng.randrange(0, 5))]
                return kind, lambda: builder.trace.polyline(points, **extra)
            if kind == "arc":
                if builder.distance_mode.is_relative:
                    target = (2 * r, 0.0) if rng.random() < 0.8 else (r, 1.0)
                else:
                    o = builder.position.resolve()
                    target = (o.x + 2 * r, o.y)
                return kind, lambda: builder.trace.arc(target, (r, 0.0), **extra)
            if kind == "circle":
                return kind, lambda: builder.trace.circle((r, -r), **extra)
            if kind == "spline":
                points = [(round(rng.uniform(-20, 20), 2),
                           round(rng.uniform(-20, 20), 2))
                          for _ in range(rng.randrange(0, 4))]
                return kind, lambda: builder.trace.spline(points, **extra)
            if kind == "arc_radius":
                target = (round(rng.uniform(-9, 9), 2), round(rng.uniform(1, 9), 2))
                return kind, lambda: builder.trace.arc_radius(target, 12.0, **extra)
            if kind == "helix":
                target = (0.0, 0.0, round(rng.uniform(-4, 4), 2))
                return kind, lambda: builder.trace.helix(
                    target, (r, 0.0), rng.choice([1, 2]), **extra)

            def wave(thetas):
                return np.column_stack((10 * thetas, np.sin(6 * thetas),
                                        np.zeros(thetas.shape)))
            length = rng.choice([12.0, 30.0, 0.0, -1.0])
            return kind, lambda: builder.trace.parametric(wave, length, **extra)

        for step in range(rng.randrange(6, 16)):
            r = rng.random()
            if r < 0.10:
                attempt("add_extrusion", add_extrusion, builder, writer, log)
            elif r < 0.18:
                attempt("add_other", add_other, builder, writer, log)
            elif r < 0.22:
                attempt("remove_hook", remove_some, builder, writer, log)
            elif r < 0.30:
                mode = rng.choice(["absolute", "relative"])
                attempt("distance " + mode,
                        lambda: builder.set_distance_mode(mode),
                        builder, writer, log)
            elif r < 0.38:
                mode = rng.choice(["absolute", "relative"])
                attempt("extrusion " + mode,
                        lambda: builder.set_extrusion_mode(mode),
                        builder, writer, log)
            elif r < 0.44:
                value = rng.choice([0, 0.0, 5.5, None, -0.0])
                attempt("reset E %r" % (value,),
                        lambda: builder.set_axis(E=value),
                        builder, writer, log)
            elif r < 0.47:
                attempt("set_axis xy",
                        lambda: builder.set_axis(x=coordinate(), y=0),
                        builder, writer, log)
            elif r < 0.51:
                kind = rng.choice(["translate", "rotate", "scale"])
                if kind == "translate":
                    fn = lambda: builder.transform.translate(
                        round(rng.uniform(-9, 9), 1), round(rng.uniform(-9, 9), 1))
                elif kind == "rotate":
                    fn = lambda: builder.transform.rotate(rng.choice([30, 90, -45]))
                else:
                    fn = lambda: builder.transform.scale(rng.choice([2.0, 0.5]))
                attempt(kind, fn, builder, writer, log)
            elif r < 0.54:
                lo, hi = sorted([round(rng.uniform(-60, 0)), round(rng.uniform(0, 60))])
                attempt("set_bounds",
                        lambda: builder.set_bounds(
                            "axes", Point(lo, lo, lo), Point(hi, hi, hi)),
                        builder, writer, log)
            elif r < 0.57:
                attempt("set_bounds feed",
                        lambda: builder.set_bounds("feed-rate", 100, 2000),
                        builder, writer, log)
            elif r < 0.59:
                writer.fail_next = True
                name, fn = do_move()
                attempt(name + " (writer fails)", fn, builder, writer, log)
                writer.fail_next = False
            elif r < 0.63:
                temp = make_recorder(log, "ctx")

                def with_context():
                    with builder.move_hook(temp):
                        builder.move(x=coordinate(), y=coordinate())
                attempt("move_hook ctx", with_context, builder, writer, log)
            elif r < 0.78:
                name, fn = do_trace()
                attempt("trace." + name, fn, builder, writer, log)
            else:
                name, fn = do_move()
                attempt(name, fn, builder, writer, log)

        attempt("teardown", builder.teardown, builder, writer, log)

    for index in range(N_BUILDER_SCENARIOS):
        builder_scenario(index)

    # -- part B: GCodeBuilder._prepare_move called directly ---------------

    for index in range(N_PREPARE_CALLS):
        builder = GCodeBuilder(decimal_places=rng.choice([5, 12]))
        writer = MemoryWriter()
        builder.add_writer(writer)
        log = []
        if rng.random() < 0.5:
            builder.move(x=round(rng.uniform(-9, 9), 2), y=1.5)
        if rng.random() < 0.5:
            builder.set_distance_mode("relative")
        if rng.random() < 0.5:
            builder.set_extrusion_mode("absolute")
        count = rng.randrange(0, 4)
        for n in range(count):
            builder.add_hook(rng.choice([
                lambda: make_recorder(log, "p%d" % n),
                lambda: make_replacer(log),
                make_none_hook,
                lambda: make_raiser(log),
                lambda: make_self_remover(builder, log),
                lambda: extrusion_hook(0.2, 0.4, 1.75),
            ])())
        point = rng.choice([
            Point(coordinate_num(rng), coordinate_num(rng), None),
            Point(None, None, None),
            Point(1.0, 2.0, 3.0),
            (1.0, 2.0, 3.0),
            None,
        ])
        params = rng.choice([
            lambda: ParamsDict(),
            lambda: ParamsDict(F=900, X=1.0),
            lambda: ParamsDict(e=3.0),
            lambda: {"F": 100},
            lambda: None,
        ])()
        comment = rng.choice([None, "hello"])
        kept = params

        def call():
            if rng.random() < 0.5:
                statement, result = builder._prepare_move(point, params, comment)
            else:
                statement, result = builder._prepare_move(point, params)
            return [statement, describe(result), result is kept]

        emit("prepare", index, count)
        attempt("_prepare_move", call, builder, writer, log)
        emit("params after", describe(kept))

    # -- part C: the hook function on its own ------------------------------

    class FakeState:
        def __init__(self, mode, last):
            self.extrusion_mode = mode
            self._last = last
            self.calls = []

        def get_parameter(self, name):
            self.calls.append(name)
            return self._last

    class LoudState:
        """Records the order in which the hook touches the state."""

        def __init__(self, mode, last, journal):
            self._mode, self._last, self._journal = mode, last, journal

        @property
        def extrusion_mode(self):
            self._journal.append("extrusion_mode")
            return self._mode

        def get_parameter(self, name):
            self._journal.append("get_parameter " + name)
            return self._last

    class LoudParams(dict):
        def __init__(self, journal):
            super().__init__()
            self._journal = journal

        def update(self, *args, **kwargs):
            self._journal.append(["update", describe(args), describe(kwargs)])
            super().update(*args, **kwargs)

    MODES = [ExtrusionMode.ABSOLUTE, ExtrusionMode.RELATIVE, "absolute",
             "relative", None, 3]
    LASTS = [None, 0, 0.0, -0.0, 2.5, -7.25, 1e300, float("nan"),
             float("inf"), "7", np.float64(1.25), np.float32(0.1),
             np.int64(4), True, False, [], [1.0]]

    def number():
        r = rng.random()
        if r < 0.15:
            return rng.choice([0.0, -0.0, 1e-300, 1e300, float("inf"),
                               float("-inf"), float("nan"), -3.0])
        return rng.uniform(-50, 50)

    def hook_point():
        r = rng.random()
        if r < 0.06:
            return Point(None, rng.uniform(-5, 5), None)
        if r < 0.09:
            return Point(None, None, None)
        if r < 0.12:
            return (1.0, 2.0, 3.0)
        if r < 0.14:
            return None
        if r < 0.2:
            return Point(np.float64(number()), np.float32(1.5), 0)
        return Point(number(), number(),
                     None if rng.random() < 0.05 else rng.choice([0.0, number()]))

    for index in range(N_DIRECT_CALLS):
        args = [number() if rng.random() < 0.3 else rng.uniform(0.05, 3.0)
                for _ in range(3)]
        emit("direct", index, describe(args))
        try:
            hook = extrusion_hook(*args)
        except BaseException as error:
            emit("factory raised", type(error).__name__)
            continue

        journal = []
        mode, last = rng.choice(MODES), rng.choice(LASTS)
        loud = rng.random() < 0.4
        state = LoudState(mode, last, journal) if loud else FakeState(mode, last)
        params = rng.choice([
            lambda: ParamsDict(),
            lambda: ParamsDict(E=1.0, F=200),
            lambda: {},
            lambda: {"e": 9},
            lambda: LoudParams(journal),
            lambda: None,
        ])()
        origin, target = hook_point(), hook_point()
        if rng.random() < 0.25:
            target = origin  # zero-length segment, signed zeros matter

        def call():
            result = hook(origin, target, params, state)
            return [describe(result), result is params]

        attempt("hook_function", call)
        emit("after", describe(params), journal,
             None if loud else state.calls)

    sys.stdout.write("\n".join(out) + "\n")


def coordinate_num(rng):
    return round(rng.uniform(-40, 40), 3)


# ---------------------------------------------------------------------
# Driver
# ---------------------------------------------------------------------

def run_tree(name: str, path: str) -> str:
    env = {
        "PATH": os.environ.get("PATH", ""),
        "PYTHONPATH": path,
        "EXPECTED_TREE": path,
        "PYTHONHASHSEED": "0",
        "PYTHONDONTWRITEBYTECODE": "1",
    }
    process = subprocess.run(
        [sys.executable, os.path.abspath(__file__), "--worker"],
        env=env, cwd="/tmp", stdin=subprocess.DEVNULL,
        stdout=subprocess.PIPE, stderr=subprocess.PIPE,
        timeout=600, text=True,
    )
    if process.returncode != 0:
        sys.stderr.write(process.stderr[-4000:])
        raise SystemExit("worker for %s failed (%d)" % (name, process.returncode))
    return process.stdout


def main() -> int:
    transcripts = {name: run_tree(name, path) for name, path in TREES}
    a = transcripts["orig"].splitlines()
    b = transcripts["twin"].splitlines()

    for number, (x, y) in enumerate(zip(a, b)):
        if x != y:
            print("MISMATCH at record", number)
            print("  orig:", x[:600])
            print("  twin:", y[:600])
            return 1

    if len(a) != len(b):
        print("MISMATCH: transcript lengths differ", len(a), len(b))
        return 1

    assert transcripts["orig"] == transcripts["twin"]

    raised = sum('"raised"' in line for line in a)
    hooked = sum('"rec' in line or '"ctx"' in line for line in a)
    gcode = sum(line.count("G1 ") for line in a)
    print("identical transcripts: %d records, %d with exceptions, "
          "%d with recorded hook calls, %d G1 lines"
          % (len(a), raised, hooked, gcode))
    return 0


if __name__ == "__main__":
    if "--worker" in sys.argv:
        worker()
    else:
        sys.exit(main())
