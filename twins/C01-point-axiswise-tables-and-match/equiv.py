#!/usr/bin/env python
"""Differential check: /repo (reference) vs /tmp/wtV-C01 (refactored).

Run without arguments: spawns this same file twice with ``--drive`` under
two different PYTHONPATHs, collects a JSON transcript from each and asserts
that they are identical. Exit status 0 means identical.
"""

import json
import os
import subprocess
import sys

TREES = {"reference": "/repo", "refactored": "/tmp/wtV-C01"}
SEED = 20261004


# ---------------------------------------------------------------------------
# Driver (runs inside each subprocess)
# ---------------------------------------------------------------------------

def drive():
    import math
    import random

    import numpy as np

    import gscrib
    from gscrib import GCodeBuilder, GCodeCore
    from gscrib.geometry import Point
    from gscrib.params import ParamsDict
    from gscrib.writers import BaseWriter

    assert os.path.dirname(os.path.dirname(gscrib.__file__)) == os.environ["EXPECT_TREE"], gscrib.__file__

    rng = random.Random(SEED)
    log = []

    def enc(v):
        """Encode any value in a type-preserving, JSON-friendly way."""
        if v is None or isinstance(v, (bool, str)):
            return v
        if isinstance(v, float):
            return ["float", repr(v)]
        if isinstance(v, int):
            return ["int", repr(v)]
        if isinstance(v, np.generic):
            return [type(v).__name__, repr(v)]
        if isinstance(v, np.ndarray):
            return ["ndarray", repr(v.tolist())]
        if isinstance(v, Point):
            return ["Point", type(v).__name__, [enc(c) for c in v]]
        if isinstance(v, dict):
            return [type(v).__name__, [[enc(k), enc(x)] for k, x in v.items()]]
        if isinstance(v, (list, tuple)):
            return [type(v).__name__, [enc(c) for c in v]]
        return ["obj", type(v).__name__, str(v)]

    def attempt(label, fn):
        try:
            out = fn()
            log.append([label, "ok", enc(out)])
            return out
        except BaseException as exc:  # noqa: record the type only
            log.append([label, "raise", type(exc).__name__])
            return None

    class Recorder(BaseWriter):
        def __init__(self):
            self.lines = []
            self.fail_next = False

        def connect(self):
            return self

        def disconnect(self, wait=True):
            pass

        def write(self, statement):
            if self.fail_next:
                self.fail_next = False
                raise OSError("fake device failure")
            self.lines.append(statement.decode("utf-8"))

    # ---- value generators ------------------------------------------------

    SPECIAL = [0, 0.0, -0.0, 1, -1, 1e-7, -1e-7, 0.000004, 123456.789,
               1e12, -1e12, 0.5, 2.5, -2.5, 1 / 3]

    def coord(allow_bad=True):
        r = rng.random()
        if r < 0.25:
            return None
        if r < 0.45:
            return rng.choice(SPECIAL)
        if r < 0.55:
            return rng.randint(-50, 50)
        if r < 0.62:
            return np.float64(rng.uniform(-100, 100))
        if r < 0.66:
            return np.int64(rng.randint(-20, 20))
        if r < 0.69:
            return np.float32(rng.uniform(-10, 10))
        if allow_bad and r < 0.72:
            return rng.choice([float("nan"), float("inf"), float("-inf")])
        if allow_bad and r < 0.74:
            return rng.choice(["7", True, complex(1, 2), [1]])
        return round(rng.uniform(-200, 200), rng.choice([0, 1, 3, 6, 9]))

    def rpoint(allow_bad=True):
        return Point(coord(allow_bad), coord(allow_bad), coord(allow_bad))

    def pointlike():
        """A PointLike value (or something invalid) for the ``point`` arg."""
        r = rng.random()
        if r < 0.30:
            return rpoint()
        if r < 0.45:
            return [coord() for _ in range(rng.choice([0, 1, 2, 3, 4]))]
        if r < 0.60:
            return tuple(coord() for _ in range(rng.choice([2, 3])))
        if r < 0.70:
            n = rng.choice([2, 3, 4])
            return np.array([rng.uniform(-50, 50) for _ in range(n)])
        if r < 0.74:
            return rng.choice(["abc", 5, 2.5, {"x": 1}])
        return None

    def axis_kwargs():
        kw = {}
        for names in (("x", "X"), ("y", "Y"), ("z", "Z")):
            if rng.random() < 0.55:
                kw[rng.choice(names) if rng.random() < 0.2 else names[0]] = coord()
        if rng.random() < 0.3:
            kw[rng.choice(["F", "f"])] = rng.choice([100, 1500.5, 0, -5, None, "fast", np.float64(300)])
        if rng.random() < 0.15:
            kw["S"] = rng.choice([0, 50, 255.5, -1])
        if rng.random() < 0.15:
            kw[rng.choice(["E", "e", "A"])] = rng.choice([0.25, 3, "v", None])
        if rng.random() < 0.2:
            kw["comment"] = rng.choice(["hello", "", "  ", "a\nb", "(x)"])
        return kw

    # ---- part 1: Point unit level ---------------------------------------

    def point_unit():
        for i in range(400):
            p, q, r, s = rpoint(), rpoint(), rpoint(), rpoint()
            tag = f"P{i}"
            attempt(tag + ".resolve", p.resolve)
            attempt(tag + ".replace", lambda: p.replace(*q))
            attempt(tag + ".replace.kw", lambda: p.replace(y=q.y))
            attempt(tag + ".replace.partial", lambda: p.replace(q.x))
            attempt(tag + ".mask", lambda: p.mask(*q))
            attempt(tag + ".mask.kw", lambda: p.mask(z=q.z, x=q.x))
            attempt(tag + ".combine", lambda: p.combine(q, r, s))
            attempt(tag + ".combine.same", lambda: p.combine(q, q, s))
            attempt(tag + ".add", lambda: p + q)
            attempt(tag + ".sub", lambda: p - q)
            attempt(tag + ".add.resolved", lambda: p.resolve() + q.resolve())
            attempt(tag + ".sub.resolved", lambda: p.resolve() - q.resolve())
            attempt(tag + ".from_params", lambda: Point.from_params(
                ParamsDict({k: v for k, v in zip("xYz", q) if rng.random() < 0.7})))
        # Non-Point operands and odd receivers
        base = Point(1.0, None, 3)
        for j, other in enumerate([(1, 2, 3), [1, 2, 3], 5, None, "xyz",
                                   np.array([1.0, 2.0, 3.0]), Point(), Point.zero(),
                                   Point(np.array([1, 2]), 1, 1)]):
            attempt(f"odd{j}.add", lambda: base + other)
            attempt(f"odd{j}.sub", lambda: base - other)
            attempt(f"odd{j}.radd", lambda: other + base)
            attempt(f"odd{j}.combine1", lambda: base.combine(other, base, base))
            attempt(f"odd{j}.combine2", lambda: Point(1, 2, 3).combine(other, other, other))
            attempt(f"odd{j}.combine3", lambda: Point().combine(base, base, other))
            attempt(f"odd{j}.replace", lambda: base.replace(other))
            attempt(f"odd{j}.mask", lambda: base.mask(other, other))
            attempt(f"odd{j}.from_params", lambda: Point.from_params(other))
        attempt("from_params.dict", lambda: Point.from_params({"X": 1, "y": 2, "Z": None}))
        attempt("replace.toomany", lambda: base.replace(1, 2, 3, 4))
        attempt("mask.badkw", lambda: base.mask(w=1))
        attempt("resolve.subclass", lambda: type("P2", (Point,), {})(None, 2, None).resolve())
        attempt("from_params.subclass", lambda: type("P3", (Point,), {}).from_params(ParamsDict(x=1)))

    # ---- part 2: builder / core level -------------------------------------

    def snapshot(g, rec, tag):
        entry = {
            "lines": rec.lines[:],
            "position": enc(g.position),
            "mode": str(g.distance_mode),
            "params": enc(dict(g._current_params)),
        }
        if isinstance(g, GCodeBuilder):
            entry["state.position"] = enc(g.state.position)
            entry["state.mode"] = str(g.state.distance_mode)
            entry["state.feed"] = enc(g.state.feed_rate)
            entry["state.power"] = enc(g.state.tool_power)
            entry["state.F"] = enc(g.state.get_parameter("F"))
        rec.lines.clear()
        log.append([tag, "snapshot", entry])

    def hook_add_e(origin, target, params, state):
        d = target - origin
        params.update(E=round(math.hypot(d.x, d.y, d.z), 6))
        return params

    def hook_plain_dict(origin, target, params, state):
        return dict(params)

    def session(index, cls):
        kwargs = {"output": None}
        if rng.random() < 0.4:
            kwargs["decimal_places"] = rng.choice([0, 1, 3, 8])
        if rng.random() < 0.2:
            kwargs["x_axis"] = "A"
        g = cls(**kwargs)
        rec = Recorder()
        g.add_writer(rec)
        is_builder = cls is GCodeBuilder
        if is_builder and rng.random() < 0.3:
            attempt("bounds", lambda: g.set_bounds("axes", (-150, -150, -150), (150, 150, 150)))
        if is_builder and rng.random() < 0.2:
            attempt("bounds.F", lambda: g.set_bounds("feed-rate", 1, 1000))
        depth = []

        for step in range(rng.randint(8, 22)):
            tag = f"{cls.__name__}{index}.{step}"
            ops = ["move", "move", "rapid", "move_absolute", "rapid_absolute",
                   "set_axis", "mode", "to_absolute", "to_absolute_list",
                   "to_distance_mode", "enter_ctx", "exit_ctx", "process",
                   "transform_move", "failwrite"]
            if is_builder:
                ops += ["auto_home", "probe", "probe", "trace", "trace",
                        "hook", "resolution"]
            op = rng.choice(ops)
            pt, kw = pointlike(), axis_kwargs()
            if pt is not None and rng.random() < 0.7:
                kw = {k: v for k, v in kw.items() if k.lower() not in "xyz"}

            if op in ("move", "rapid", "move_absolute", "rapid_absolute",
                      "set_axis", "auto_home"):
                attempt(f"{tag}.{op}", lambda: getattr(g, op)(pt, **kw))
            elif op == "probe":
                mode = rng.choice(["towards", "towards-no-error", "away",
                                   "away-no-error", "bogus"])
                attempt(f"{tag}.probe", lambda: g.probe(mode, pt, **kw))
            elif op == "mode":
                mode = rng.choice(["absolute", "relative", "relative", "bogus"])
                attempt(f"{tag}.mode", lambda: g.set_distance_mode(mode))
            elif op == "to_absolute":
                attempt(f"{tag}.to_absolute", lambda: g.to_absolute(pt))
            elif op == "to_absolute_list":
                pts = [pointlike() for _ in range(rng.randint(0, 4))]
                attempt(f"{tag}.to_absolute_list", lambda: g.to_absolute_list(pts))
            elif op == "to_distance_mode":
                attempt(f"{tag}.to_distance_mode", lambda: g.to_distance_mode(pt))
            elif op == "process":
                attempt(f"{tag}.process", lambda: g._process_move_params(pt, **kw))
            elif op == "transform_move":
                q = rpoint(allow_bad=False)
                attempt(f"{tag}.transform_move", lambda: g._transform_move(q))
            elif op == "enter_ctx":
                which = rng.choice(["absolute_mode", "relative_mode"])
                cm = getattr(g, which)()
                attempt(f"{tag}.enter.{which}", cm.__enter__)
                depth.append(cm)
            elif op == "exit_ctx" and depth:
                cm = depth.pop()
                attempt(f"{tag}.exit", lambda: cm.__exit__(None, None, None))
            elif op == "failwrite":
                rec.fail_next = True
                attempt(f"{tag}.failwrite", lambda: g.move(pt, **kw))
                rec.fail_next = False
            elif op == "hook":
                hook = rng.choice([hook_add_e, hook_plain_dict])
                if rng.random() < 0.6:
                    attempt(f"{tag}.add_hook", lambda: g.add_hook(hook))
                else:
                    attempt(f"{tag}.remove_hook", lambda: g.remove_hook(hook))
            elif op == "resolution":
                attempt(f"{tag}.resolution", lambda: g.set_resolution(rng.choice([0.5, 1.0, 2.0])))
            elif op == "trace":
                attempt(f"{tag}.res", lambda: g.set_resolution(rng.choice([1.0, 2.0, 5.0])))
                shape = rng.choice(["arc", "circle", "polyline", "spline",
                                    "arc_radius", "helix", "spiral", "thread"])
                a = rng.randint(1, 12)
                if shape == "arc":
                    args = ((a, a), (a, 0)) if rng.random() < 0.7 else ((a, a, 2.0), (0, a))
                    if rng.random() < 0.15:
                        args = ((a, 2 * a), (a, 0))
                elif shape == "circle":
                    args = ((a, 0),)
                elif shape == "polyline":
                    args = ([pointlike() for _ in range(rng.randint(0, 4))],)
                elif shape == "spline":
                    args = ([(a, a), (2 * a, -a, 1), (3 * a, 0)][:rng.randint(0, 3)],)
                elif shape == "arc_radius":
                    args = ((a, a), rng.choice([a, -a, 2.0 * a, 0, 0.1]))
                elif shape == "helix":
                    args = ((a, 0, rng.choice([0, 3])), (-a, 0), rng.choice([1, 2, 0]))
                elif shape == "spiral":
                    args = ((a, a), rng.choice([1, 2]))
                else:
                    args = ((a, a, 4), rng.choice([1, 2.5, 0]))
                tkw = {"F": 600} if rng.random() < 0.3 else {}
                attempt(f"{tag}.trace.{shape}", lambda: getattr(g.trace, shape)(*args, **tkw))
            snapshot(g, rec, tag)

        while depth:
            cm = depth.pop()
            attempt(f"{cls.__name__}{index}.unwind", lambda: cm.__exit__(None, None, None))
        snapshot(g, rec, f"{cls.__name__}{index}.end")
        attempt("teardown", g.teardown)

    point_unit()
    for i in range(60):
        session(i, GCodeBuilder)
    for i in range(30):
        session(i, GCodeCore)

    json.dump(log, sys.stdout)


# ---------------------------------------------------------------------------
# Orchestrator
# ---------------------------------------------------------------------------

def main():
    transcripts = {}
    for name, tree in TREES.items():
        env = dict(os.environ, PYTHONPATH=tree, EXPECT_TREE=tree,
                   PYTHONHASHSEED="0", PYTHONDONTWRITEBYTECODE="1")
        proc = subprocess.run(
            [sys.executable, os.path.abspath(__file__), "--drive"],
            env=env, cwd="/tmp", stdin=subprocess.DEVNULL,
            capture_output=True, text=True, timeout=600)
        if proc.returncode != 0:
            sys.stderr.write(proc.stderr[-4000:])
            raise SystemExit(f"driver failed for {name}")
        transcripts[name] = json.loads(proc.stdout)

    ref, new = transcripts["reference"], transcripts["refactored"]
    for k, (a, b) in enumerate(zip(ref, new)):
        if a != b:
            print("MISMATCH at record", k)
            print("  reference :", json.dumps(a)[:1500])
            print("  refactored:", json.dumps(b)[:1500])
            raise SystemExit(1)
    assert len(ref) == len(new), (len(ref), len(new))

    kinds = {}
    lines = 0
    for rec in ref:
        kinds[rec[1]] = kinds.get(rec[1], 0) + 1
        if rec[1] == "snapshot":
            lines += len(rec[2]["lines"])
    print(f"records compared: {len(ref)}  {kinds}  emitted lines: {lines}")
    print("EQUIVALENT")


if __name__ == "__main__":
    if "--drive" in sys.argv[1:]:
        drive()
    else:
        main()
