#!/usr/bin/env python
"""Differential check for the C03 refactoring (gscrib/geometry/bounds.py).

Runs the same seeded scenario generator against two trees in separate
subprocesses (PYTHONPATH=/repo and PYTHONPATH=/tmp/wtT-C03), records
every observable (emitted bytes through a registered writer, state
snapshots, return values, exception type names and messages) and
asserts the transcripts are identical.

Usage:  python equiv.py            (driver, exits 0 when identical)
        python equiv.py --worker   (internal: prints one transcript)
"""

import json
import os
import subprocess
import sys

TREES = ["/repo", "/tmp/wtT-C03"]
SEED = 20261004


# --------------------------------------------------------------------------
# Worker: executed once per tree
# --------------------------------------------------------------------------

def worker():
    import math
    import random
    import numpy as np

    import gscrib
    from gscrib import GCodeBuilder
    from gscrib.geometry import Point
    from gscrib.geometry.bounds import BoundManager, VALID_PROPERTIES
    from gscrib.writers.base_writer import BaseWriter

    root = os.path.dirname(os.path.dirname(os.path.abspath(gscrib.__file__)))
    rng = random.Random(SEED)
    log = []

    def show(value):
        """Stable textual rendering including the concrete type."""
        if isinstance(value, tuple) and not isinstance(value, Point):
            return "(" + ", ".join(show(v) for v in value) + ")"
        return f"{type(value).__name__}:{value!r}"

    def call(label, fn, *args, **kwargs):
        try:
            result = fn(*args, **kwargs)
            log.append([label, "ok", show(result)])
        except BaseException as exc:  # pylint: disable=broad-except
            log.append([label, "exc", type(exc).__name__, str(exc)])

    # ------------------------------------------------------------------
    # Part 1: BoundManager driven directly
    # ------------------------------------------------------------------

    nan, inf = float("nan"), float("inf")

    def ulp_up(x):
        return math.nextafter(x, inf)

    def ulp_down(x):
        return math.nextafter(x, -inf)

    class Weird:
        def __repr__(self):
            return "Weird()"

    scalar_pool = [
        0, 1, -1, 5, 100, 1000, 0.0, -0.0, 0.5, 1e-9, 1e300, -1e300,
        nan, inf, -inf, True, False,
        np.float64(3.5), np.float64(nan), np.float64(-0.0),
        np.int64(7), np.float32(2.5), np.int32(4),
    ]

    junk_pool = [
        None, "10", "axes", [1, 2, 3], (1, 2, 3), [1.0], (), [],
        np.array([1.0, 2.0, 3.0]), np.array([1.0]), b"1", 1 + 2j,
        Weird(), {"x": 1}, (None, None, None), [None, 2, None],
    ]

    def rand_coord(allow_none=True):
        r = rng.random()
        if allow_none and r < 0.2:
            return None
        if r < 0.3:
            return rng.choice([nan, inf, -inf, -0.0, 0.0])
        if r < 0.4:
            return np.float64(rng.uniform(-50, 50))
        if r < 0.5:
            return rng.randint(-50, 50)
        return round(rng.uniform(-50, 50), rng.choice([0, 1, 3, 9]))

    def rand_point(allow_none=True):
        return Point(rand_coord(allow_none), rand_coord(allow_none),
                     rand_coord(allow_none))

    def rand_bound_value(name):
        r = rng.random()
        if r < 0.12:
            return rng.choice(junk_pool)
        if name == "axes":
            if r < 0.25:
                return rng.choice(scalar_pool)
            return rand_point()
        if r < 0.2:
            return rand_point()
        if r < 0.5:
            return rng.choice(scalar_pool)
        return round(rng.uniform(-300, 300), rng.choice([0, 2, 6]))

    def rand_name():
        if rng.random() < 0.1:
            return rng.choice(["", "Axes", "feed_rate", "tool", None, 3,
                               "temperature", ("axes",)])
        return rng.choice(VALID_PROPERTIES)

    def snapshot_manager(manager):
        items = sorted(manager._bounds.items(), key=lambda kv: str(kv[0]))
        log.append(["bm-state", [[str(k), show(v)] for k, v in items]])

    for round_no in range(40):
        manager = BoundManager()

        for step in range(14):
            name = rand_name()
            action = rng.random()
            tag = f"bm{round_no}.{step}"

            if action < 0.35:
                lo, hi = rand_bound_value(name), rand_bound_value(name)
                if rng.random() < 0.5:
                    try:
                        if lo > hi:
                            lo, hi = hi, lo
                    except BaseException:  # pylint: disable=broad-except
                        pass
                if rng.random() < 0.08:
                    hi = lo  # degenerate min == max
                call(f"{tag} set_bounds({name!r},{show(lo)},{show(hi)})",
                     manager.set_bounds, name, lo, hi)
            elif action < 0.45:
                call(f"{tag} get_bounds({name!r})", manager.get_bounds, name)
            else:
                lo_hi = manager._bounds.get(name) if isinstance(name, str) else None
                value = rand_bound_value(name)
                if lo_hi is not None and rng.random() < 0.5:
                    lo, hi = lo_hi
                    if isinstance(lo, Point):
                        def edge(a, b):
                            if a is None or b is None:
                                return rand_coord()
                            return rng.choice([
                                a, b, ulp_down(float(a)), ulp_up(float(b)),
                                ulp_up(float(a)), ulp_down(float(b)),
                                nan, None, (a + b) / 2])
                        value = Point(edge(lo.x, hi.x), edge(lo.y, hi.y),
                                      edge(lo.z, hi.z))
                    else:
                        value = rng.choice([
                            lo, hi, ulp_down(float(lo)), ulp_up(float(hi)),
                            ulp_up(float(lo)), ulp_down(float(hi)), nan,
                            (lo + hi) / 2, np.float64(lo), np.float64(hi),
                            np.float64(nan), int(lo) if math.isfinite(lo) else 0])
                call(f"{tag} validate({name!r},{show(value)})",
                     manager.validate, name, value)

        snapshot_manager(manager)

    # keyword-argument form and typeguard corner cases
    manager = BoundManager()
    call("kw set", manager.set_bounds, name="feed-rate", min=1, max=2)
    call("kw validate", manager.validate, name="feed-rate", value=1.5)
    call("kw validate out", manager.validate, name="feed-rate", value=2.5)
    call("scalar on axes", manager.validate, "axes", 3.0)
    manager._bounds["axes"] = (Point(0, 0, 0), Point(1, 1, 1))
    call("scalar on axes bounded", manager.validate, "axes", 3.0)
    call("point on feed", manager.validate, "feed-rate", Point(1, 1, 1))
    call("point on unbounded", manager.validate, "tool-power", Point(1, 1, 1))
    call("missing args", manager.set_bounds, "axes")
    call("missing args 2", manager.validate, "axes")
    snapshot_manager(manager)

    # ------------------------------------------------------------------
    # Part 2: the builder, with a fake writer
    # ------------------------------------------------------------------

    class RecordingWriter(BaseWriter):
        def __init__(self):
            self.lines = []

        def connect(self):
            return self

        def disconnect(self, wait=True):
            pass

        def write(self, statement):
            self.lines.append(statement.decode("latin-1"))

        def flush(self):
            pass

    def snapshot(g, writer, tag):
        state = g.state
        names = [
            "position", "is_coolant_active", "is_tool_active", "tool_number",
            "tool_power", "feed_rate", "spin_mode", "power_mode",
            "coolant_mode", "distance_mode", "halt_mode",
            "target_hotend_temperature", "target_bed_temperature",
            "target_chamber_temperature",
        ]
        values = {n: show(getattr(state, n)) for n in names}
        values["core_position"] = show(g.position)
        values["F"] = show(g.get_parameter("F"))
        values["S"] = show(g.get_parameter("S"))
        values["bounds"] = {
            n: show(state.get_bounds(n)) for n in VALID_PROPERTIES}
        log.append([tag, "state", values, list(writer.lines)])
        writer.lines.clear()

    def num(lo=-30.0, hi=30.0):
        r = rng.random()
        if r < 0.05:
            return nan
        if r < 0.08:
            return rng.choice([inf, -inf])
        if r < 0.12:
            return rng.choice([0, -0.0, 0.0])
        if r < 0.2:
            return rng.randint(int(lo), int(hi))
        if r < 0.25:
            return np.float64(rng.uniform(lo, hi))
        return round(rng.uniform(lo, hi), rng.choice([0, 2, 5]))

    def around(name, g):
        """A value near (or on) the configured bound of a property."""
        try:
            lo, hi = g.state.get_bounds(name)
        except BaseException:  # pylint: disable=broad-except
            lo = hi = None
        if lo is None or isinstance(lo, Point) or rng.random() < 0.3:
            return num(-10, 400)
        return rng.choice([
            lo, hi, ulp_down(float(lo)), ulp_up(float(hi)), (lo + hi) / 2,
            lo - 1, hi + 1, nan])

    def axis_value(g, axis):
        lo, hi = g.state.get_bounds("axes")
        if lo is None or rng.random() < 0.4:
            return num()
        a, b = getattr(lo, axis), getattr(hi, axis)
        if a is None or b is None:
            return num()
        return rng.choice([
            a, b, ulp_down(float(a)), ulp_up(float(b)), (a + b) / 2,
            a - 0.5, b + 0.5, num(float(a), float(b))])

    def move_kwargs(g):
        kwargs = {}
        for axis in "xyz":
            if rng.random() < 0.6:
                kwargs[axis] = axis_value(g, axis)
        if rng.random() < 0.3:
            kwargs["F"] = around("feed-rate", g)
        if rng.random() < 0.2:
            kwargs["S"] = around("tool-power", g)
        if rng.random() < 0.1:
            kwargs["E"] = num()
        return kwargs

    def random_op(g):
        r = rng.random()
        if r < 0.14:
            name = rand_name()
            if name == "axes":
                if rng.random() < 0.8:
                    a = [rng.uniform(-40, 0) for _ in range(3)]
                    b = [rng.uniform(0, 40) for _ in range(3)]
                    if rng.random() < 0.3:
                        i = rng.randrange(3)
                        a[i] = None if rng.random() < 0.5 else a[i]
                        b[i] = None
                    lo, hi = tuple(a), tuple(b)
                    if rng.random() < 0.3:
                        lo, hi = Point(*a), list(b)
                    if rng.random() < 0.1:
                        lo, hi = hi, lo
                else:
                    lo, hi = rand_bound_value(name), rand_bound_value(name)
            else:
                if rng.random() < 0.8:
                    lo = rng.choice([0, 1, 10, 50.0, 100, 180.5])
                    hi = lo + rng.choice([1, 5, 40.5, 200, 1000])
                    if name == "tool-number":
                        lo, hi = int(lo), int(hi)
                    if rng.random() < 0.1:
                        lo, hi = hi, lo
                else:
                    lo, hi = rand_bound_value(name), rand_bound_value(name)
            return (f"set_bounds({name!r},{show(lo)},{show(hi)})",
                    lambda: g.set_bounds(name, lo, hi))
        if r < 0.34:
            kwargs = move_kwargs(g)
            return f"move({kwargs})", lambda: g.move(**kwargs)
        if r < 0.42:
            kwargs = move_kwargs(g)
            return f"rapid({kwargs})", lambda: g.rapid(**kwargs)
        if r < 0.47:
            kwargs = move_kwargs(g)
            return (f"move_absolute({kwargs})",
                    lambda: g.move_absolute(**kwargs))
        if r < 0.50:
            kwargs = move_kwargs(g)
            return (f"rapid_absolute({kwargs})",
                    lambda: g.rapid_absolute(**kwargs))
        if r < 0.54:
            mode = rng.choice(["absolute", "relative"])
            return (f"set_distance_mode({mode})",
                    lambda: g.set_distance_mode(mode))
        if r < 0.60:
            v = around("feed-rate", g)
            return f"set_feed_rate({show(v)})", lambda: g.set_feed_rate(v)
        if r < 0.64:
            v = around("tool-power", g)
            return f"set_tool_power({show(v)})", lambda: g.set_tool_power(v)
        if r < 0.68:
            v = around("tool-power", g)
            mode = rng.choice(["cw", "ccw"])
            return f"tool_on({mode},{show(v)})", lambda: g.tool_on(mode, v)
        if r < 0.71:
            v = around("tool-power", g)
            mode = rng.choice(["constant", "dynamic"])
            return f"power_on({mode},{show(v)})", lambda: g.power_on(mode, v)
        if r < 0.74:
            return "tool_off()", g.tool_off
        if r < 0.79:
            v = around("tool-number", g)
            if rng.random() < 0.7 and v == v and abs(v) < 1e9:
                v = int(v)
            mode = rng.choice(["manual", "automatic"])
            return (f"tool_change({mode},{show(v)})",
                    lambda: g.tool_change(mode, v))
        if r < 0.83:
            v = around("bed-temperature", g)
            return (f"set_bed_temperature({show(v)})",
                    lambda: g.set_bed_temperature(v))
        if r < 0.87:
            v = around("hotend-temperature", g)
            return (f"set_hotend_temperature({show(v)})",
                    lambda: g.set_hotend_temperature(v))
        if r < 0.90:
            v = around("chamber-temperature", g)
            return (f"set_chamber_temperature({show(v)})",
                    lambda: g.set_chamber_temperature(v))
        if r < 0.94:
            mode, prop = rng.choice([
                ("wait-for-bed", "bed-temperature"),
                ("wait-for-hotend", "hotend-temperature"),
                ("wait-for-chamber", "chamber-temperature"),
                ("pause", "bed-temperature")])
            kwargs = {}
            if rng.random() < 0.7:
                kwargs["S"] = around(prop, g)
            if rng.random() < 0.4:
                kwargs["R"] = around(prop, g)
            return f"halt({mode},{kwargs})", lambda: g.halt(mode, **kwargs)
        if r < 0.96:
            kwargs = move_kwargs(g)
            mode = rng.choice(["towards", "away", "towards-no-error"])
            return f"probe({mode},{kwargs})", lambda: g.probe(mode, **kwargs)
        if r < 0.98:
            kwargs = {a: axis_value(g, a) for a in "xyz" if rng.random() < 0.6}
            return f"set_axis({kwargs})", lambda: g.set_axis(**kwargs)
        target = (axis_value(g, "x"), axis_value(g, "y"))
        center = (num(-5, 5), num(-5, 5))
        which = rng.choice(["arc", "polyline", "circle"])
        if which == "arc":
            return (f"trace.arc({target},{center})",
                    lambda: g.trace.arc(target, center))
        if which == "circle":
            return f"trace.circle({center})", lambda: g.trace.circle(center)
        pts = [(axis_value(g, "x"), axis_value(g, "y"), axis_value(g, "z"))
               for _ in range(rng.randint(1, 4))]
        return f"trace.polyline({pts})", lambda: g.trace.polyline(pts)

    for scenario in range(60):
        g = GCodeBuilder()
        writer = RecordingWriter()
        g.add_writer(writer)
        g.set_resolution(rng.choice([0.5, 1.0, 2.0]))
        writer.lines.clear()

        for step in range(22):
            label, thunk = random_op(g)
            call(f"s{scenario}.{step} {label}", thunk)
            snapshot(g, writer, f"s{scenario}.{step}")

    # A deterministic, hand-written scenario touching every bound kind
    g = GCodeBuilder()
    writer = RecordingWriter()
    g.add_writer(writer)
    steps = [
        lambda: g.set_bounds("axes", (0, 0, -10), (20, 20, 10)),
        lambda: g.set_bounds("feed-rate", 100, 1000),
        lambda: g.set_bounds("tool-power", 0, 255),
        lambda: g.set_bounds("tool-number", 1, 4),
        lambda: g.set_bounds("bed-temperature", 0, 110),
        lambda: g.set_bounds("hotend-temperature", 0, 260.5),
        lambda: g.set_bounds("chamber-temperature", 10, 60),
        lambda: g.move(x=20, y=20, z=10, F=1000),
        lambda: g.move(x=math.nextafter(20, inf)),
        lambda: g.move(x=nan),
        lambda: g.move(y=5, F=math.nextafter(100, 0)),
        lambda: g.move(y=5, F=nan),
        lambda: g.move(y=6, S=255),
        lambda: g.move(y=7, S=255.0000001),
        lambda: g.set_distance_mode("relative"),
        lambda: g.move(x=-20, y=-14),
        lambda: g.move(x=-1e-12),
        lambda: g.rapid(z=-20),
        lambda: g.rapid(z=-0.0000001),
        lambda: g.set_distance_mode("absolute"),
        lambda: g.trace.arc((10, 0), (5, 0)),
        lambda: g.trace.arc((0, 0), (-5, 0)),
        lambda: g.trace.circle((30, 0)),
        lambda: g.tool_change("manual", 4),
        lambda: g.tool_change("manual", 5),
        lambda: g.tool_change("manual", 0),
        lambda: g.tool_on("cw", 255),
        lambda: g.tool_off(),
        lambda: g.tool_on("cw", 256),
        lambda: g.power_on("constant", nan),
        lambda: g.set_bed_temperature(110),
        lambda: g.set_bed_temperature(110.5),
        lambda: g.set_hotend_temperature(260.5),
        lambda: g.set_hotend_temperature(nan),
        lambda: g.set_chamber_temperature(9),
        lambda: g.halt("wait-for-bed", S=60),
        lambda: g.halt("wait-for-bed", S=60, R=111),
        lambda: g.halt("wait-for-hotend", R=-1),
        lambda: g.halt("wait-for-chamber", S=nan),
        lambda: g.probe("towards", z=-10),
        lambda: g.probe("towards", z=-11),
        lambda: g.set_bounds("axes", (5, 5, 5), (1, 1, 1)),
        lambda: g.set_bounds("axes", 1, 2),
        lambda: g.set_bounds("axes", None, None),
        lambda: g.set_bounds("feed-rate", (1, 2, 3), 5),
        lambda: g.set_bounds("feed-rate", 5, None),
        lambda: g.set_bounds("feed-rate", "1", "2"),
        lambda: g.set_bounds("nope", 1, 2),
        lambda: g.set_bounds("feed-rate", nan, 5),
        lambda: g.set_bounds("feed-rate", 5, nan),
        lambda: g.set_bounds("feed-rate", 5, 5),
    ]
    for index, thunk in enumerate(steps):
        call(f"fixed.{index}", thunk)
        snapshot(g, writer, f"fixed.{index}")

    text = json.dumps(log, sort_keys=True, default=repr)
    text = text.replace(root, "<ROOT>")
    sys.stdout.write(text)


# --------------------------------------------------------------------------
# Driver
# --------------------------------------------------------------------------

def run_tree(tree):
    env = dict(os.environ)
    env["PYTHONPATH"] = tree
    env["PYTHONHASHSEED"] = "0"
    env["PYTHONDONTWRITEBYTECODE"] = "1"
    proc = subprocess.run(
        [sys.executable, os.path.abspath(__file__), "--worker"],
        env=env, cwd="/tmp", stdin=subprocess.DEVNULL,
        stdout=subprocess.PIPE, stderr=subprocess.PIPE, timeout=600,
        check=False)
    if proc.returncode != 0:
        sys.stderr.write(proc.stderr.decode(errors="replace"))
        raise SystemExit(f"worker failed for {tree}")
    return json.loads(proc.stdout.decode())


def main():
    transcripts = [run_tree(tree) for tree in TREES]
    base, twin = transcripts
    assert len(base) == len(twin), (len(base), len(twin))

    for index, (a, b) in enumerate(zip(base, twin)):
        if a != b:
            print(f"MISMATCH at record {index}:\n  base: {a}\n  twin: {b}")
            raise SystemExit(1)

    assert base == twin

    calls = [r for r in base if len(r) > 1 and r[1] in ("ok", "exc")]
    excs = [r for r in calls if r[1] == "exc"]
    kinds = {}
    for r in excs:
        kinds[r[2]] = kinds.get(r[2], 0) + 1
    lines = sum(len(r[3]) for r in base if len(r) > 1 and r[1] == "state")
    print(f"records={len(base)} calls={len(calls)} ok={len(calls) - len(excs)} "
          f"exceptions={len(excs)} {kinds} emitted_lines={lines}")
    print("IDENTICAL")


if __name__ == "__main__":
    if "--worker" in sys.argv:
        worker()
    else:
        main()
