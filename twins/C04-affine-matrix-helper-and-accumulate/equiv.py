#!/usr/bin/env python
"""Differential check for the C04 refactoring (twin 3).

Parent mode (no arguments): runs this very file as a child in two
subprocesses, one with PYTHONPATH=/repo (reference tree) and one with
PYTHONPATH=/tmp/wtV-C04 (refactored tree), and asserts that the two
transcripts are byte-for-byte identical. Exits 0 on success.

Child mode (argument "child"): drives the code with seeded random
inputs and prints a transcript of everything observable.
"""

import os
import subprocess
import sys

TREES = {"reference": "/repo", "refactored": "/tmp/wtV-C04"}


# ---------------------------------------------------------------------------
# Child
# ---------------------------------------------------------------------------

def child() -> None:
    import math
    import random
    import warnings

    import numpy as np

    warnings.simplefilter("ignore")

    import gscrib
    from gscrib import GCodeCore, GCodeBuilder
    from gscrib.geometry import Point, CoordinateTransformer
    from gscrib.geometry.transform import Transform
    from gscrib.writers import BaseWriter

    out = []

    def emit(*parts) -> None:
        out.append(" | ".join(str(p) for p in parts))

    # -- canonical dumps ----------------------------------------------------

    def dump(value) -> str:
        if value is None or isinstance(value, (bool, str, bytes)):
            return repr(value)
        if isinstance(value, np.ndarray):
            return "nd%s%s:%s" % (value.dtype, value.shape, value.tobytes().hex())
        if isinstance(value, np.generic):
            return "%s(%s)" % (type(value).__name__, dump(value.item()))
        if isinstance(value, float):
            return "f:" + (value.hex() if math.isfinite(value) else repr(value))
        if isinstance(value, int):
            return "i:%d" % value
        if isinstance(value, dict):
            return "%s{%s}" % (type(value).__name__, ", ".join(
                "%s: %s" % (dump(k), dump(v)) for k, v in value.items()))
        if isinstance(value, (tuple, list)):
            return "%s(%s)" % (type(value).__name__,
                               ", ".join(dump(v) for v in value))
        if isinstance(value, Transform):
            return "T[%s]" % ", ".join(
                "%s=%s" % (slot, dump(getattr(value, slot, "<unset>")))
                for slot in Transform.__slots__)
        return "<%s %s>" % (type(value).__name__, value)

    def dump_transformer(t) -> str:
        return "cur=%s stack=%s named=%s" % (
            dump(t._current_transform),
            dump(t._transforms_stack),
            dump(t._named_transforms),
        )

    def attempt(label, fn, *args, **kwargs):
        try:
            result = fn(*args, **kwargs)
        except BaseException as e:  # pylint: disable=broad-except
            emit(label, "EXC", type(e).__name__, str(e).splitlines()[:1])
            return None
        emit(label, "OK", dump(result))
        return result

    # -- random inputs ------------------------------------------------------

    rng = random.Random(int(os.environ.get("EQUIV_SEED", "20261004")))

    SPECIAL = [0.0, -0.0, 1.0, -1.0, 1e-12, 1e12, 0.5, 90.0, 180.0, 360.0,
               float("nan"), float("inf"), float("-inf")]

    def num(special=0.1):
        r = rng.random()
        if r < special:
            return rng.choice(SPECIAL)
        if r < special + 0.15:
            return rng.randint(-20, 20)
        if r < special + 0.2:
            return np.float64(rng.uniform(-50, 50))
        return round(rng.uniform(-100, 100), rng.choice([0, 1, 3, 9]))

    def coord(none=0.3, special=0.05):
        return None if rng.random() < none else num(special)

    def pointlike(none=0.3, special=0.05, bad=0.1):
        r = rng.random()
        if r < bad:
            return rng.choice([
                None, [], [1.0], (1.0, 2.0), [1, 2, 3, 4], "abc", "xy", 5,
                [None, None, None], ["a", 1, 2], np.array([1.0, 2.0]),
                np.zeros((2, 3)), {"x": 1}, Point(1, 2, 3) * 2,
            ])
        xyz = [coord(none, special) for _ in range(3)]
        kind = rng.randrange(4)
        if kind == 0:
            return Point(*xyz)
        if kind == 1:
            return xyz
        if kind == 2:
            return tuple(xyz)
        if all(v is not None for v in xyz):
            return np.array(xyz, dtype=float)
        return xyz

    def random_matrix():
        r = rng.random()
        if r < 0.1:
            return rng.choice([
                np.eye(3), np.zeros((4, 4)), np.eye(4)[:3], np.ones((4, 4)),
                [[1, 0, 0, 0]] * 4, None, np.eye(4, dtype=int),
                np.full((4, 4), np.nan), np.eye(5), np.arange(16.0),
            ])
        m = np.eye(4)
        m[:3, :3] = [[rng.uniform(-3, 3) for _ in range(3)] for _ in range(3)]
        m[:3, 3] = [rng.uniform(-30, 30) for _ in range(3)]
        if rng.random() < 0.1:
            m[3, :3] = [rng.uniform(-1, 1) for _ in range(3)]
        return m

    # -- 1. Transform -------------------------------------------------------

    for i in range(120):
        label = "T%03d" % i
        pivot = rng.choice([Point.zero(), Point(*[coord(0.2) for _ in range(3)])])
        tr = attempt(label + " new", Transform, random_matrix(), pivot)
        if tr is None:
            continue
        for j in range(rng.randint(1, 6)):
            op = rng.randrange(7)
            sub = "%s.%d" % (label, j)
            if op == 0:
                attempt(sub + " apply", tr.apply, pointlike())
            elif op == 1:
                attempt(sub + " reverse", tr.reverse, pointlike())
            elif op == 2:
                attempt(sub + " chain", tr._chain_matrix, random_matrix())
            elif op == 3:
                attempt(sub + " set_matrix", tr._set_matrix, random_matrix())
            elif op == 4:
                pv = rng.choice([pointlike(bad=0.3), Point(*[coord(0.2) for _ in range(3)])])
                attempt(sub + " set_pivot", tr._set_pivot, pv)
            elif op == 5:
                pv = Point(*[coord(0.2) for _ in range(3)])
                attempt(sub + " tmatrix", tr._tranlation_matrix, pv)
            else:
                p = pointlike(bad=0.0)
                q = attempt(sub + " apply", tr.apply, p)
                if q is not None:
                    attempt(sub + " roundtrip", tr.reverse, q)
            emit(sub, "state", dump(tr))

    # -- 2. CoordinateTransformer -------------------------------------------

    AXES = ["x", "y", "z", "X", "Z", gscrib.enums.Axis.X, gscrib.enums.Axis.Y,
            gscrib.enums.Axis.Z, "w", 1, None, "e"]
    PLANES = ["xy", "yz", "zx", "XY", gscrib.enums.Plane.XY,
              gscrib.enums.Plane.YZ, gscrib.enums.Plane.ZX, "xz", None, 3]
    NAMES = [None, "", " ", "a", " a ", "b", "a\t", "zz", 5, b"a"]

    def transformer_op(t, label):
        op = rng.choice([0, 1, 2, 3, 4, 5, 6, 6, 6, 7, 7, 7, 8, 9, 10, 11, 12, 13])
        if op == 0:
            args = [num() for _ in range(rng.choice([0, 1, 2, 2, 3, 3, 4]))]
            if rng.random() < 0.05:
                args = ["1", 2.0]
            attempt(label + " translate %s" % dump(args), t.translate, *args)
        elif op == 1:
            args = [num() for _ in range(rng.choice([0, 1, 1, 2, 3, 4]))]
            attempt(label + " scale %s" % dump(args), t.scale, *args)
        elif op == 2:
            angle = rng.choice([num(), num(), "90", None])
            if rng.random() < 0.3:
                attempt(label + " rotate %s" % dump(angle), t.rotate, angle)
            else:
                axis = rng.choice(AXES)
                attempt(label + " rotate %s %s" % (dump(angle), axis),
                        t.rotate, angle, axis)
        elif op == 3:
            n = rng.choice([0, 1, 2, 3, 3, 3, 3, 4, 5])
            normal = [num(0.3) for _ in range(n)]
            normal = rng.choice([normal, normal, normal, tuple(normal),
                                 [0.0, 0.0, 0.0], [0, 0, 0], None, "xyz",
                                 np.array([1.0, 0.0, 0.0])])
            attempt(label + " reflect %s" % dump(normal), t.reflect, normal)
        elif op == 4:
            if rng.random() < 0.2:
                attempt(label + " mirror", t.mirror)
            else:
                plane = rng.choice(PLANES)
                attempt(label + " mirror %s" % plane, t.mirror, plane)
        elif op == 5:
            p = pointlike(none=0.15)
            attempt(label + " set_pivot %s" % dump(p), t.set_pivot, p)
        elif op == 6:
            name = rng.choice(NAMES)
            if rng.random() < 0.3:
                attempt(label + " save", t.save_state)
            else:
                attempt(label + " save %r" % (name,), t.save_state, name)
        elif op == 7:
            name = rng.choice(NAMES)
            known = sorted(t._named_transforms)
            if known and rng.random() < 0.6:
                name = rng.choice(known) + rng.choice(["", " ", "\t"])
            if rng.random() < 0.3:
                attempt(label + " restore", t.restore_state)
            else:
                attempt(label + " restore %r" % (name,), t.restore_state, name)
        elif op == 8:
            name = rng.choice(NAMES)
            attempt(label + " delete %r" % (name,), t.delete_state, name)
        elif op == 9:
            attempt(label + " chain", t.chain_transform, random_matrix())
        elif op == 10:
            attempt(label + " apply", t.apply_transform, pointlike())
        elif op == 11:
            attempt(label + " reverse", t.reverse_transform, pointlike())
        elif op == 12:
            state = attempt(label + " copy", t._copy_state)
            if state is not None and rng.random() < 0.5:
                transformer_op(t, label + ">")
                attempt(label + " revert", t._revert_state, state)
        else:
            attempt(label + " key", lambda: sorted(map(repr, t._named_transforms)))

    for i in range(60):
        t = CoordinateTransformer()
        for j in range(rng.randint(3, 14)):
            label = "C%03d.%02d" % (i, j)
            transformer_op(t, label)
            emit(label, "state", dump_transformer(t))

    # -- 3. Builders --------------------------------------------------------

    class Capture(BaseWriter):
        def __init__(self, fail_on=None):
            self.lines = []
            self.fail_on = fail_on
            self.count = 0

        def connect(self):
            return self

        def disconnect(self, wait=True):
            self.lines.append(b"<disconnect %r>" % wait)

        def write(self, statement):
            self.count += 1
            if self.fail_on is not None and self.count == self.fail_on:
                raise OSError("fake device failure")
            self.lines.append(statement)

        def flush(self):
            self.lines.append(b"<flush>")

    def builder_state(g, writer) -> str:
        parts = [
            "pos=%s" % dump(g.position),
            "mode=%s" % g.distance_mode,
            "params=%s" % dump(g._current_params),
            "xf=%s" % dump(g.transform._current_transform._matrix),
            "nstack=%d" % len(g.transform._transforms_stack),
            "named=%s" % sorted(g.transform._named_transforms),
        ]
        state = getattr(g, "state", None)
        if state is not None:
            parts.append("st.pos=%s" % dump(state.position))
            parts.append("st.feed=%s" % dump(state.feed_rate))
            parts.append("st.power=%s" % dump(state.tool_power))
            parts.append("st.mode=%s" % state.distance_mode)
        lines = writer.lines[:]
        del writer.lines[:]
        return "%s lines=%r" % (" ".join(parts), lines)

    def move_kwargs():
        kwargs = {}
        r = rng.random()
        if r < 0.55:
            for key in rng.sample(["x", "y", "z", "X", "Y", "Z"], rng.randint(0, 3)):
                if key.upper() not in {k.upper() for k in kwargs}:
                    kwargs[key] = coord(0.1)
            point = None
        else:
            point = pointlike()
        if rng.random() < 0.3:
            kwargs[rng.choice(["F", "f"])] = rng.choice(
                [num(0.02), 1200, 0, -5, None, "fast"])
        if rng.random() < 0.15:
            kwargs[rng.choice(["S", "s", "E", "e", "A"])] = num(0.02)
        if rng.random() < 0.15:
            kwargs["comment"] = rng.choice(["hello", "", None, "a (b)", 7])
        return point, kwargs

    def points_list():
        r = rng.random()
        if r < 0.08:
            return rng.choice([[], None, "ab", 5, [None], [[1, 2, 3, 4]],
                               ((1, 2, 3),), [[1.0, 2.0], [3.0]]])
        return [pointlike(bad=0.03) for _ in range(rng.randint(0, 5))]

    def feed_hook(origin, target, params, state):
        params = type(params)(params)
        params["F"] = 100 + round(abs((target - origin).x), 3)
        return params

    def weird_hook(origin, target, params, state):
        return rng.choice([params, dict(params), None, [("X", 1)], params])

    def path_fn(thetas):
        return np.column_stack((10 * thetas, 5 * np.sin(thetas * 6), thetas))

    def builder_op(g, writer, label, depth=0):
        is_builder = isinstance(g, GCodeBuilder)
        op = rng.randrange(30)
        if op < 6:
            point, kwargs = move_kwargs()
            name = rng.choice(["move", "rapid"])
            attempt("%s %s %s %s" % (label, name, dump(point), dump(kwargs)),
                    getattr(g, name), point, **kwargs)
        elif op < 8:
            point, kwargs = move_kwargs()
            name = rng.choice(["move_absolute", "rapid_absolute"])
            attempt("%s %s %s %s" % (label, name, dump(point), dump(kwargs)),
                    getattr(g, name), point, **kwargs)
        elif op == 8:
            if is_builder:
                point, kwargs = move_kwargs()
                mode = rng.choice(["towards", "away", "towards-no-error",
                                   "away-no-error", "bogus"])
                attempt("%s probe %s %s %s" % (label, mode, dump(point), dump(kwargs)),
                        g.probe, mode, point, **kwargs)
            else:
                attempt(label + " to_abs", g.to_absolute, pointlike())
        elif op == 9:
            attempt(label + " to_abs", g.to_absolute, pointlike())
        elif op in (10, 11):
            pts = points_list()
            attempt(label + " to_abs_list %s" % dump(pts), g.to_absolute_list, pts)
        elif op == 12:
            attempt(label + " to_mode", g.to_distance_mode, pointlike(none=0.1))
        elif op == 13:
            mode = rng.choice(["absolute", "relative", "relative", "bogus"])
            attempt(label + " set_distance_mode " + mode, g.set_distance_mode, mode)
        elif op == 14:
            point, kwargs = move_kwargs()
            kwargs.pop("comment", None)
            attempt("%s set_axis %s %s" % (label, dump(point), dump(kwargs)),
                    g.set_axis, point, **kwargs)
        elif op < 21:
            transformer_op(g.transform, label + " xf")
        elif op == 21 and depth < 2:
            def scoped():
                with g.current_transform():
                    for k in range(rng.randint(1, 3)):
                        builder_op(g, writer, "%s/ct%d" % (label, k), depth + 1)
                    if rng.random() < 0.2:
                        raise RuntimeError("boom")
            attempt(label + " current_transform", scoped)
        elif op == 22 and depth < 2:
            name = rng.choice(["a", "b", " a ", "zz", "", None])
            def scoped():
                with g.named_transform(name):
                    for k in range(rng.randint(1, 3)):
                        builder_op(g, writer, "%s/nt%d" % (label, k), depth + 1)
            attempt(label + " named_transform %r" % (name,), scoped)
        elif op == 23 and depth < 2:
            ctx = rng.choice([g.absolute_mode, g.relative_mode])
            def scoped():
                with ctx():
                    for k in range(rng.randint(1, 3)):
                        builder_op(g, writer, "%s/dm%d" % (label, k), depth + 1)
            attempt(label + " " + ctx.__name__, scoped)
        elif op == 24 and is_builder:
            pts = points_list()
            attempt(label + " polyline %s" % dump(pts), g.trace.polyline, pts)
        elif op == 25 and is_builder:
            target = pointlike(none=0.0, bad=0.05)
            center = pointlike(none=0.0, bad=0.05)
            attempt("%s arc %s %s" % (label, dump(target), dump(center)),
                    g.trace.arc, target, center)
        elif op == 26 and is_builder:
            pts = [[num(0.0), num(0.0), num(0.0)] for _ in range(rng.randint(0, 5))]
            attempt(label + " spline %s" % dump(pts), g.trace.spline, pts)
        elif op == 27 and is_builder:
            attempt(label + " parametric", g.trace.parametric, path_fn,
                    rng.choice([12.0, 3.0, 0.0]), F=300)
        elif op == 28 and is_builder:
            hook = rng.choice([feed_hook, feed_hook, weird_hook])
            if rng.random() < 0.5:
                attempt(label + " add_hook " + hook.__name__, g.add_hook, hook)
            else:
                attempt(label + " remove_hook " + hook.__name__, g.remove_hook, hook)
        elif op == 29 and is_builder:
            lo = pointlike(none=0.0, bad=0.05)
            hi = pointlike(none=0.0, bad=0.05)
            attempt("%s set_bounds %s %s" % (label, dump(lo), dump(hi)),
                    g.set_bounds, "axes", lo, hi)
        else:
            # Direct calls of the private helpers involved
            p = Point(*[coord(0.3) for _ in range(3)])
            attempt(label + " _transform_move %s" % dump(p), g._transform_move, p)
            params = rng.choice([gscrib.params.ParamsDict({"F": 10, "x": 1}),
                                 {"F": 2}, {}, None, [("X", 1)]])
            which = rng.choice(["_prepare_move", "_prepare_rapid"])
            comment = rng.choice([None, "c", ""])
            attempt("%s %s %s %s" % (label, which, dump(p), dump(params)),
                    getattr(g, which), p, params, comment)

    for i in range(90):
        cls = GCodeBuilder if i % 3 else GCodeCore
        config = {"decimal_places": rng.choice([3, 5, 9]), "line_endings": "linux"}
        if rng.random() < 0.2:
            config.update(x_axis="A", y_axis="B", z_axis="C")
        g = cls(config)
        writer = Capture(fail_on=rng.choice([None, None, None, 4, 9]))
        g.add_writer(writer)
        if rng.random() < 0.3:
            g.set_distance_mode("relative")
        for j in range(rng.randint(6, 22)):
            label = "B%03d.%02d" % (i, j)
            builder_op(g, writer, label)
            emit(label, "state", builder_state(g, writer))
        attempt("B%03d teardown" % i, g.teardown)
        emit("B%03d" % i, "final", writer.lines)

    sys.stdout.write("\n".join(out) + "\n")


# ---------------------------------------------------------------------------
# Parent
# ---------------------------------------------------------------------------

def run_tree(path: str) -> str:
    env = dict(os.environ)
    env["PYTHONPATH"] = path
    env["PYTHONHASHSEED"] = "0"
    proc = subprocess.run(
        [sys.executable, os.path.abspath(__file__), "child"],
        env=env, stdin=subprocess.DEVNULL, capture_output=True,
        text=True, timeout=600, cwd="/tmp",
    )
    if proc.returncode != 0:
        sys.stderr.write(proc.stderr[-4000:])
        raise SystemExit("child failed for %s" % path)
    return proc.stdout


def main() -> None:
    transcripts = {name: run_tree(path) for name, path in TREES.items()}
    ref = transcripts["reference"].splitlines()
    new = transcripts["refactored"].splitlines()

    for n, (a, b) in enumerate(zip(ref, new)):
        if a != b:
            print("MISMATCH at line %d:\n  ref: %s\n  new: %s" % (n, a[:600], b[:600]))
            raise SystemExit(1)

    assert len(ref) == len(new), (len(ref), len(new))
    assert transcripts["reference"] == transcripts["refactored"]

    oks = sum(" | OK | " in line for line in ref)
    excs = sum(" | EXC | " in line for line in ref)
    kinds = sorted({line.split(" | ")[2] for line in ref if " | EXC | " in line})
    print("transcripts identical: %d lines, %d ok calls, %d exceptions %s"
          % (len(ref), oks, excs, kinds))


if __name__ == "__main__":
    if sys.argv[1:] == ["child"]:
        child()
    else:
        main()
