#!/usr/bin/env python
"""Differential check for the C17 twin refactoring (gscrib/printrun/device.py).

Runs the same seeded scenario script against /repo (reference) and
/tmp/wtU-C17 (refactored) in two separate subprocesses and asserts that the
two transcripts are identical.  Only in-process fakes are used for sockets,
selectors and serial ports.
"""

import json
import os
import subprocess
import sys

REF = "/repo"
NEW = "/tmp/wtU-C17"
SEED = 170217


# ---------------------------------------------------------------------------
# Worker: runs inside one tree and prints a JSON transcript
# ---------------------------------------------------------------------------

def worker():
    import random
    import logging

    logging.disable(logging.CRITICAL)

    from gscrib.printrun import device
    import gscrib.printrun.printcore  # noqa: the package re-exports the class
    pc_mod = sys.modules["gscrib.printrun.printcore"]
    assert pc_mod.device is device

    rng = random.Random(SEED)
    out = []
    calls = []  # log of calls made on the fakes

    def rec(*items):
        out.append(repr(items))

    def exc_name(e):
        cause = getattr(e, "cause", None)
        return "%s/%s" % (type(e).__name__, type(cause).__name__)

    # -- fakes --------------------------------------------------------------

    class FakeFile:
        def __init__(self, owner):
            self.owner = owner
            self.closed = False

        def read(self, n):
            calls.append(("read", n))
            script = self.owner.script
            if not script:
                return b''
            item = script.pop(0)
            if isinstance(item, BaseException):
                raise item
            return item

        def write(self, data):
            calls.append(("write", bytes(data)))
            if self.owner.write_error is not None:
                raise self.owner.write_error
            return len(data)

        def flush(self):
            calls.append(("flush",))
            if self.owner.flush_error is not None:
                raise self.owner.flush_error

        def close(self):
            calls.append(("file.close",))
            self.closed = True

    class FakeSocket:
        plan = {}

        def __init__(self, *args):
            calls.append(("socket", len(args)))
            self.script = list(FakeSocket.plan.get("script", []))
            self.connect_error = FakeSocket.plan.get("connect_error")
            self.write_error = FakeSocket.plan.get("write_error")
            self.flush_error = FakeSocket.plan.get("flush_error")
            self.close_error = FakeSocket.plan.get("close_error")

        def setsockopt(self, *args):
            calls.append(("setsockopt", len(args)))

        def settimeout(self, t):
            calls.append(("settimeout", t))

        def connect(self, addr):
            calls.append(("connect", addr))
            if self.connect_error is not None:
                raise self.connect_error

        def makefile(self, mode, buffering=None):
            calls.append(("makefile", mode, buffering))
            return FakeFile(self)

        def close(self):
            calls.append(("sock.close",))
            if self.close_error is not None:
                raise self.close_error

    class FakeSelector:
        plan = []

        def __init__(self):
            calls.append(("selector",))
            self.answers = list(FakeSelector.plan)

        def register(self, dev, ev):
            calls.append(("register", type(dev).__name__))

        def unregister(self, dev):
            calls.append(("unregister", type(dev).__name__))

        def select(self, timeout=None):
            calls.append(("select", timeout))
            if self.answers:
                return [1] if self.answers.pop(0) else []
            return []

        def close(self):
            calls.append(("selector.close",))

    class FakeSerial:
        open_error = None

        def __init__(self, **kw):
            calls.append(("Serial", sorted(kw.items(), key=repr)))
            self.is_open = False
            self.port = kw.get("port")
            self.lines = []

        def open(self):
            calls.append(("serial.open", self.port))
            if FakeSerial.open_error is not None:
                raise FakeSerial.open_error
            self.is_open = True

        def close(self):
            calls.append(("serial.close",))
            self.is_open = False

        def readline(self):
            return self.lines.pop(0) if self.lines else b''

        def write(self, data):
            calls.append(("serial.write", bytes(data)))

    device.socket.socket = FakeSocket
    device.selectors.DefaultSelector = FakeSelector
    device.serial.Serial = FakeSerial
    device.os.system = lambda cmd: calls.append(("os.system", cmd)) or 0
    device.time.sleep = lambda s: calls.append(("sleep", s))

    def snapshot(dev):
        try:
            connected = dev.is_connected
        except Exception as e:  # noqa
            connected = "!" + exc_name(e)
        try:
            flow = dev.has_flow_control
        except Exception as e:  # noqa
            flow = "!" + exc_name(e)
        return (dev.port, dev.baudrate, dev._type, dev._hostname,
                dev._port_number, connected, flow, dev._is_connected,
                type(dev._device).__name__, list(dev._read_buffer),
                dev._timeout, type(dev._selector).__name__,
                type(dev._socketfile).__name__)

    def flush_calls(tag):
        rec(tag, list(calls))
        del calls[:]

    # -- A. URL recognition ---------------------------------------------------

    labels = ["a", "A9", "printer", "my-host", "-bad", "bad-", "x_y", "",
              "localhost", "octopi", "0", "255", "256", "999", "1e3", "h" * 70]
    ports = ["0", "1", "80", "8080", "65535", "65536", "-1", "+5", " 7", "7 ",
             "7\n", "0x10", "1_0", "", "abc", "1.0", "99999999999999999999",
             "٣", "١٢"]
    candidates = [
        "/dev/ttyUSB0", "COM3", "", ":", "::", "a:", ":1", "a:1", "a:b:c",
        "127.0.0.1:80", "256.1.1.1:80", "1.2.3:80", "1.2.3.4.5:80",
        "192.168.0.10:65535", "192.168.0.10:65536", "192.168.0.10:0",
        "http://www.example.com:8080", "www.example.com:8080",
        "example.com.:80", ".example.com:80", "exa mple:80", "host:80\n",
        "host\n:80", "hé:80", "[::1]:80", "host :80", " host:80",
        "a..b:80", "a.b:80:", "localhost:023",
    ]
    for _ in range(260):
        n = rng.randint(1, 4)
        host = ".".join(rng.choice(labels) for _ in range(n))
        sep = rng.choice([":", ":", ":", ":", "::", "", ";"])
        candidates.append(host + sep + rng.choice(ports))
    for _ in range(60):
        octets = [str(rng.choice([0, 1, 9, 10, 99, 100, 199, 200, 249, 250,
                                  255, 256, 300, 1000])) for _ in range(4)]
        candidates.append(".".join(octets) + ":" + rng.choice(ports))
    odd = [None, 0, 5, 1.5, b"a:1", b"", ["a", ":"], [":"], (":", "b"),
           {":": 1}, {"a:1"}, object(), True, float("nan")]

    class Opaque:
        def __repr__(self):
            return "<opaque>"

    odd[odd.index(next(o for o in odd if type(o) is object))] = Opaque()

    for text in candidates + odd:
        dev = device.Device()
        dev._hostname = "old-host"
        dev._port_number = 4242
        try:
            r = dev._is_url(text)
            rec("is_url", repr(text), type(r).__name__, r,
                dev._hostname, dev._port_number)
        except Exception as e:  # noqa
            rec("is_url", repr(text), "raised", exc_name(e),
                repr(dev._hostname), dev._port_number)
        dev2 = device.Device()
        dev2.port = text
        dev2._type = "previous"
        try:
            r = dev2._parse_type()
            rec("parse_type", repr(text), r, dev2._type, repr(dev2._hostname),
                dev2._port_number)
        except Exception as e:  # noqa
            rec("parse_type", repr(text), "raised", exc_name(e), dev2._type,
                repr(dev2._hostname), dev2._port_number)
        try:
            dev3 = device.Device(text, rng.choice([None, 0, 9600, 115200]))
            rec("ctor", repr(text), snapshot(dev3)[:7])
        except Exception as e:  # noqa
            rec("ctor", repr(text), "raised", exc_name(e))
    flush_calls("A.calls")

    # -- B. connect / is_connected / disconnect ---------------------------------

    port_choices = [None, None, "/dev/ttyFAKE", "COM7", "10.0.0.5:23",
                    "printer.local:8080", "a:b:c", "host:70000", "host:abc",
                    "", ":", 5, b"h:1", "127.0.0.1:1", "x:65535"]
    baud_choices = [None, None, 0, 9600, 250000, "115200", -1, 0.0, False]
    errors = [None, None, None, OSError("boom"), ConnectionRefusedError("no"),
              TimeoutError("t"), ValueError("v")]
    for i in range(220):
        init_port = rng.choice(port_choices)
        init_baud = rng.choice([9600, 115200, None, 0])
        FakeSocket.plan = {"connect_error": rng.choice(errors),
                           "close_error": rng.choice([None, None, None,
                                                      OSError("c")]),
                           "script": [b"ok\n", None, b"tail"]}
        FakeSelector.plan = [rng.random() < 0.5 for _ in range(4)]
        FakeSerial.open_error = rng.choice(
            [None, None, None, IOError("io"),
             device.serial.SerialException("s"), ValueError("v")])
        try:
            dev = device.Device(init_port, init_baud,
                                force_dtr=rng.choice([None, True, False]),
                                parity_workaround=rng.random() < 0.3)
        except Exception as e:  # noqa
            rec("B.ctor", i, repr(init_port), "raised", exc_name(e))
            flush_calls("B.calls")
            continue
        rec("B.new", i, snapshot(dev))
        for step in range(rng.randint(1, 4)):
            op = rng.choice(["connect", "connect", "connect", "disconnect",
                             "readline", "write", "reset", "corrupt"])
            try:
                if op == "connect":
                    args = rng.choice([0, 1, 2, 2])
                    p = rng.choice(port_choices)
                    b = rng.choice(baud_choices)
                    if args == 0:
                        r = dev.connect()
                    elif args == 1:
                        r = dev.connect(p)
                    else:
                        r = dev.connect(p, b)
                    rec("B.connect", i, step, args, repr(p), repr(b), r)
                elif op == "disconnect":
                    rec("B.disconnect", i, step, dev.disconnect())
                elif op == "readline":
                    rec("B.readline", i, step, dev.readline())
                elif op == "write":
                    rec("B.write", i, step, dev.write(b"M105\n"))
                elif op == "reset":
                    rec("B.reset", i, step, dev.reset())
                else:
                    # inconsistent private state: handler lookup must fail
                    # in the same way in both trees
                    dev._device = rng.choice([None, object()])
                    dev._type = rng.choice([None, "bogus", 7, "socket",
                                            "serial"])
                    rec("B.corrupt", i, step, dev._type)
            except Exception as e:  # noqa
                rec("B." + op, i, step, "raised", exc_name(e), str(e))
            rec("B.state", i, step, snapshot(dev))
            flush_calls("B.calls")

    # -- C. socket reads: fragmentation independence -------------------------

    alphabet = [b"ok", b"T:200 /210", b"\n", b"\n", b"\r\n", b"echo:", b" ",
                b"\xff\xfe", b"\x00", b"Resend: 5", b"x" * 300, b"start",
                b"\xc3\xa9", b"\xc3"]

    def make_stream():
        kind = rng.random()
        if kind < 0.08:
            return b""
        if kind < 0.16:
            return b"\n" * rng.randint(1, 600)
        if kind < 0.24:
            return bytes(rng.randrange(256) for _ in range(rng.randint(1, 900)))
        parts = [rng.choice(alphabet) for _ in range(rng.randint(1, 60))]
        data = b"".join(parts)
        if rng.random() < 0.5:
            data += b"\n"
        return data

    def fragment(data):
        script = []
        pos = 0
        mode = rng.choice(["any", "tiny", "full", "mixed"])
        while pos < len(data):
            while rng.random() < 0.3:
                script.append(None)
            if mode == "tiny":
                n = rng.randint(1, 3)
            elif mode == "full":
                n = 256
            elif mode == "mixed":
                n = rng.choice([1, 2, 255, 256, rng.randint(1, 256)])
            else:
                n = rng.randint(1, 256)
            script.append(data[pos:pos + n])
            pos += n
        while rng.random() < 0.3:
            script.append(None)
        return script

    for i in range(320):
        data = make_stream()
        script = fragment(data)
        failing = rng.random() < 0.12
        if failing and script:
            at = rng.randrange(len(script) + 1)
            script.insert(at, rng.choice([OSError("lost"),
                                          ConnectionResetError("rst"),
                                          TimeoutError("to"),
                                          ValueError("closed file")]))
        script.append(b'')
        FakeSocket.plan = {"script": script}
        FakeSelector.plan = [rng.random() < 0.6 for _ in range(len(script) * 2)]
        dev = device.Device()
        try:
            dev.connect("10.1.2.3:%d" % rng.randint(1, 65535),
                        rng.choice([None, 0, 115200]))
        except Exception as e:  # noqa
            rec("C.connect", i, "raised", exc_name(e))
            continue
        got = []
        eofs = 0
        for k in range(len(data) + len(script) * 3 + 20):
            try:
                line = dev.readline()
            except Exception as e:  # noqa
                rec("C.read", i, k, "raised", exc_name(e), str(e),
                    dev.is_connected, list(dev._read_buffer))
                if isinstance(e, device.DeviceError):
                    continue
                break
            rec("C.read", i, k, line, dev.is_connected,
                list(dev._read_buffer))
            if line is device.READ_EOF:
                eofs += 1
                if eofs == 2:
                    break
            elif line:
                got.append(line)
        if not failing:
            # the property itself, as a sanity check of the harness
            assert b"".join(got) == data, (i, data, got)
            assert all(l.endswith(b"\n") for l in got[:-1]), (i, got)
            assert all(l.count(b"\n") <= 1 for l in got), (i, got)
        try:
            rec("C.disconnect", i, dev.disconnect(), snapshot(dev))
        except Exception as e:  # noqa
            rec("C.disconnect", i, "raised", exc_name(e))
        flush_calls("C.calls")

    # -- D. printcore._readline on top of a socket Device ----------------------

    for i in range(60):
        data = make_stream()
        script = fragment(data) + [b'']
        FakeSocket.plan = {"script": script}
        FakeSelector.plan = [rng.random() < 0.6 for _ in range(len(script) * 2)]
        core = pc_mod.printcore()
        received = []
        errs = []
        core.recvcb = received.append
        core.errorcb = errs.append
        core.printer = device.Device()
        core.port, core.baud = "octopi.local:%d" % rng.randint(1, 65535), 0
        core.printer.connect(core.port, core.baud)
        for k in range(len(data) + len(script) * 3 + 20):
            can = bool(core._listen_can_continue())
            line = core._readline()
            rec("D.line", i, k, can, line, core.stop_read_thread)
            if core.stop_read_thread:
                break
        rec("D.done", i, received, [e.splitlines()[-1] if e else e
                                    for e in errs],
            bool(core._listen_can_continue()), list(core.log))
        core.printer.disconnect()
        flush_calls("D.calls")

    json.dump(out, sys.stdout)


# ---------------------------------------------------------------------------
# Driver
# ---------------------------------------------------------------------------

def run(tree):
    env = dict(os.environ)
    env["PYTHONPATH"] = tree
    env["PYTHONHASHSEED"] = "0"
    env["PYTHONDONTWRITEBYTECODE"] = "1"
    proc = subprocess.run(
        [sys.executable, os.path.abspath(__file__), "--worker"],
        env=env, cwd="/tmp", stdin=subprocess.DEVNULL,
        stdout=subprocess.PIPE, stderr=subprocess.PIPE, timeout=600)
    if proc.returncode != 0:
        sys.stderr.write(proc.stderr.decode("utf-8", "replace"))
        raise SystemExit("worker failed for %s" % tree)
    return json.loads(proc.stdout.decode("utf-8"))


def main():
    ref = run(REF)
    new = run(NEW)
    for idx, (a, b) in enumerate(zip(ref, new)):
        if a != b:
            print("MISMATCH at record", idx)
            print("  ref:", a[:2000])
            print("  new:", b[:2000])
            raise SystemExit(1)
    if len(ref) != len(new):
        print("transcript lengths differ:", len(ref), len(new))
        raise SystemExit(1)
    kinds = {}
    for r in ref:
        k = r.split(",", 1)[0].strip("('")
        kinds[k] = kinds.get(k, 0) + 1
    raised = sum(1 for r in ref if "'raised'" in r)
    print("identical transcripts: %d records (%d with exceptions)"
          % (len(ref), raised))
    print(sorted(kinds.items()))


if __name__ == "__main__":
    if "--worker" in sys.argv[1:]:
        worker()
    else:
        main()
