#!/venv/bin/python
"""Differential check for the C06 refactoring (tool / coolant switching).

Driver mode (default): runs this same file as a worker in two separate
subprocesses, one with PYTHONPATH=/repo (reference tree) and one with
PYTHONPATH=/tmp/wtT-C06 (refactored tree), and asserts that the two JSON
transcripts are identical. Exits 0 on success, 1 on any difference.

Worker mode (--worker): builds a few hundred seeded random scenarios that
drive GCodeBuilder (tool_on/off, power_on/off, coolant_on/off, halt and
its wrappers, emergency_halt, set_tool_power, set_bounds, ...) and GState
private setters directly, recording for every step the emitted bytes (via
an in-process fake writer), the complete observable state, return values
and exception type names + messages.
"""

import json
import os
import subprocess
import sys

REFERENCE = "/repo"
REFACTORED = "/tmp/wtT-C06"
SEED = 60606
N_SCENARIOS = 400
STEPS = 14


# ---------------------------------------------------------------------------
# Worker
# ---------------------------------------------------------------------------

def worker() -> None:
    import logging
    import math
    import random

    logging.disable(logging.CRITICAL)

    import numpy as np
    import gscrib
    from gscrib import GCodeBuilder
    from gscrib.gcode_state import GState
    from gscrib.writers.base_writer import BaseWriter
    from gscrib.enums import (
        SpinMode, PowerMode, CoolantMode, HaltMode, ToolSwapMode,
        TemperatureUnits,
    )

    class FakeWriter(BaseWriter):
        """In-process fake device; optionally fails on chosen writes."""

        def __init__(self, fail_on=()):
            self.chunks = []
            self.count = 0
            self.fail_on = set(fail_on)

        def connect(self):
            return self

        def disconnect(self, wait=True):
            pass

        def write(self, statement):
            self.count += 1
            if self.count in self.fail_on:
                raise OSError("fake device failure")
            self.chunks.append(statement)

        def take(self):
            out = [c.decode("utf-8", "backslashreplace") for c in self.chunks]
            self.chunks = []
            return out

    def show(value):
        if isinstance(value, float) and value == 0 and math.copysign(1, value) < 0:
            return "float:-0.0"
        return f"{type(value).__name__}:{value!r}"

    STATE_PROPS = (
        "is_tool_active", "is_coolant_active", "tool_power", "tool_number",
        "feed_rate", "spin_mode", "power_mode", "coolant_mode", "halt_mode",
        "tool_swap_mode", "temperature_units", "target_bed_temperature",
        "target_hotend_temperature", "target_chamber_temperature",
    )

    STATE_SLOTS = (
        "_is_tool_active", "_is_coolant_active", "_current_tool_power",
        "_current_spin_mode", "_current_power_mode", "_current_coolant_mode",
        "_current_halt_mode",
    )

    def snapshot(state):
        snap = {}
        for name in STATE_PROPS:
            try:
                snap[name] = show(getattr(state, name))
            except Exception as e:  # unset slots raise AttributeError
                snap[name] = "!" + type(e).__name__
        for name in STATE_SLOTS:
            try:
                snap[name] = show(getattr(state, name))
            except Exception as e:
                snap[name] = "!" + type(e).__name__
        for name in ("tool-power", "bed-temperature", "hotend-temperature",
                     "chamber-temperature"):
            snap["bounds:" + name] = repr(state.get_bounds(name))
        return snap

    rng = random.Random(SEED)

    numbers = [
        0, 0.0, -0.0, 1, 1.0, 50, 99.5, 100, 100.0, 1000, 12000.0, 1e-9,
        -1, -0.5, -1e-9, 255, 256, 1e308, float("inf"), float("-inf"),
        float("nan"), True, False,
        np.float64(10.0), np.float64(-0.0), np.float32(2.5), np.int64(7),
        np.float64("nan"),
    ]
    junk = [None, "10", "", [], (1,), {}, b"x", 1 + 2j, object]

    def number():
        roll = rng.random()
        if roll < 0.55:
            return rng.choice(numbers)
        if roll < 0.85:
            return round(rng.uniform(-50, 300), rng.choice([0, 1, 3]))
        if roll < 0.92:
            return rng.randint(-5, 500)
        return rng.choice(junk)

    spin_modes = [
        SpinMode.CLOCKWISE, SpinMode.COUNTER, SpinMode.OFF, "clockwise",
        "counter", "cw", "ccw", "off", "OFF", "bogus", "", None, 3,
        PowerMode.CONSTANT, CoolantMode.OFF,
    ]
    power_modes = [
        PowerMode.CONSTANT, PowerMode.DYNAMIC, PowerMode.OFF, "constant",
        "dynamic", "off", "bogus", "", None, 1.5, SpinMode.CLOCKWISE,
        SpinMode.OFF,
    ]
    coolant_modes = [
        CoolantMode.MIST, CoolantMode.FLOOD, CoolantMode.OFF, "mist",
        "flood", "off", "bogus", None, 0, SpinMode.OFF,
    ]
    halt_modes = list(HaltMode) + [
        "pause", "end-with-reset", "wait-for-bed", "wait-for-hotend",
        "wait-for-chamber", "wait-for-motion", "off", "bogus", None, 7,
    ]
    bound_names = [
        "tool-power", "tool-power", "tool-power", "bed-temperature",
        "hotend-temperature", "chamber-temperature", "feed-rate",
        "tool-number", "bogus",
    ]
    messages = ["fire", "", "a;b (c)", "line\nbreak", "ünï", None, 5, b"b"]

    def halt_kwargs():
        kwargs = {}
        for key in ("S", "R", "s", "r", "P", "comment"):
            if rng.random() < 0.3:
                kwargs[key] = number()
        return kwargs

    def bounds_pair():
        roll = rng.random()
        if roll < 0.3:   # range excluding zero
            lo = rng.choice([1, 5.0, 10, 100.0, -50, -10.5])
            return lo, lo + rng.choice([1, 10.5, 1000])
        if roll < 0.6:
            return rng.choice([0, 0.0, -0.0, -5]), rng.choice([1, 100, 255.0])
        return number(), number()

    def make_op(g, state):
        """Return (label, thunk) for one random operation."""

        kind = rng.choice((
            "tool_on", "tool_on", "tool_off", "tool_off", "power_on",
            "power_on", "power_off", "power_off", "coolant_on", "coolant_on",
            "coolant_off", "coolant_off", "emergency_halt", "emergency_halt",
            "halt", "halt", "halt", "pause", "stop", "wait", "set_tool_power",
            "set_bounds", "set_bounds", "tool_change", "temp_units",
            "set_temp", "st_spin", "st_power", "st_coolant", "st_halt",
            "st_switch_free",
        ))

        if kind == "tool_on":
            a = (rng.choice(spin_modes), number())
            return f"tool_on{a!r}", lambda: g.tool_on(*a)
        if kind == "power_on":
            a = (rng.choice(power_modes), number())
            return f"power_on{a!r}", lambda: g.power_on(*a)
        if kind == "coolant_on":
            a = (rng.choice(coolant_modes),)
            return f"coolant_on{a!r}", lambda: g.coolant_on(*a)
        if kind in ("tool_off", "power_off", "coolant_off", "wait"):
            return f"{kind}()", getattr(g, kind)
        if kind == "emergency_halt":
            m = rng.choice(messages)
            r = rng.choice([True, False, False, None, 1, "yes"])
            if rng.random() < 0.4:
                return f"emergency_halt({m!r})", lambda: g.emergency_halt(m)
            return (f"emergency_halt({m!r}, {r!r})",
                    lambda: g.emergency_halt(m, r))
        if kind == "halt":
            m, kw = rng.choice(halt_modes), halt_kwargs()
            return f"halt({m!r}, **{kw!r})", lambda: g.halt(m, **kw)
        if kind == "pause":
            o = rng.choice([True, False, None, 0])
            return f"pause({o!r})", lambda: g.pause(o)
        if kind == "stop":
            o = rng.choice([True, False, None, 0])
            return f"stop({o!r})", lambda: g.stop(o)
        if kind == "set_tool_power":
            p = number()
            return f"set_tool_power({p!r})", lambda: g.set_tool_power(p)
        if kind == "set_bounds":
            n = rng.choice(bound_names)
            lo, hi = bounds_pair()
            return (f"set_bounds({n!r}, {lo!r}, {hi!r})",
                    lambda: g.set_bounds(n, lo, hi))
        if kind == "tool_change":
            m = rng.choice(list(ToolSwapMode) + ["manual", "bogus"])
            t = rng.choice([1, 2, 12, 0, -1, 1.5, None])
            return f"tool_change({m!r}, {t!r})", lambda: g.tool_change(m, t)
        if kind == "temp_units":
            u = rng.choice(list(TemperatureUnits) + ["kelvin", "bogus"])
            return (f"set_temperature_units({u!r})",
                    lambda: g.set_temperature_units(u))
        if kind == "set_temp":
            which = rng.choice(("bed", "hotend", "chamber"))
            t = number()
            return (f"set_{which}_temperature({t!r})",
                    lambda: getattr(g, f"set_{which}_temperature")(t))

        # Private GState setters, also with wrongly typed arguments
        if kind == "st_spin":
            m = rng.choice(list(SpinMode) * 3 + ["off", "clockwise", None,
                           PowerMode.OFF])
            if rng.random() < 0.3:
                return f"state._set_spin_mode({m!r})", \
                    lambda: state._set_spin_mode(m)
            s = number()
            return f"state._set_spin_mode({m!r}, {s!r})", \
                lambda: state._set_spin_mode(m, s)
        if kind == "st_power":
            m = rng.choice(list(PowerMode) * 3 + ["off", "constant", None,
                           SpinMode.OFF])
            if rng.random() < 0.3:
                return f"state._set_power_mode({m!r})", \
                    lambda: state._set_power_mode(m)
            p = number()
            return f"state._set_power_mode({m!r}, {p!r})", \
                lambda: state._set_power_mode(m, p)
        if kind == "st_coolant":
            m = rng.choice(list(CoolantMode) * 3 + ["off", "mist", None])
            return f"state._set_coolant_mode({m!r})", \
                lambda: state._set_coolant_mode(m)
        if kind == "st_halt":
            m = rng.choice(list(HaltMode) + ["off", None])
            return f"state._set_halt_mode({m!r})", \
                lambda: state._set_halt_mode(m)

        # a fresh GState, driven without a builder
        fresh = GState()
        calls = []
        for _ in range(3):
            which = rng.choice(("spin", "power", "coolant"))
            if which == "spin":
                a = (rng.choice(list(SpinMode)), number())
                calls.append(("_set_spin_mode", a))
            elif which == "power":
                a = (rng.choice(list(PowerMode)), number())
                calls.append(("_set_power_mode", a))
            else:
                calls.append(("_set_coolant_mode",
                              (rng.choice(list(CoolantMode)),)))

        def run_fresh():
            out = []
            for name, args in calls:
                try:
                    out.append(show(getattr(fresh, name)(*args)))
                except Exception as e:
                    out.append(f"!{type(e).__name__}:{e}")
                out.append(snapshot(fresh))
            return out

        return f"fresh{calls!r}", run_fresh

    transcript = []

    for index in range(N_SCENARIOS):
        fail_on = ()
        if rng.random() < 0.25:
            fail_on = rng.sample(range(1, 30), rng.randint(1, 4))

        writer = FakeWriter(fail_on)
        g = GCodeBuilder(
            decimal_places=rng.choice([5, 5, 0, 2]),
            comment_symbols=rng.choice([";", ";", "("]),
            line_endings="linux",
        )
        g.add_writer(writer)
        state = g.state
        steps = [("init", sorted(fail_on), snapshot(state))]

        for _ in range(STEPS):
            label, thunk = make_op(g, state)
            try:
                result = thunk()
                outcome = result if isinstance(result, list) else show(result)
            except Exception as e:
                outcome = f"!{type(e).__name__}:{e}"
            steps.append((label, outcome, writer.take(), snapshot(state)))

        # Closing sequence: the property itself, from whatever state
        # the scenario ended in.
        for name in rng.sample(
            ["tool_off", "power_off", "coolant_off", "emergency_halt"], 4
        ):
            try:
                if name == "emergency_halt":
                    outcome = show(g.emergency_halt("end", rng.random() < .5))
                else:
                    outcome = show(getattr(g, name)())
            except Exception as e:
                outcome = f"!{type(e).__name__}:{e}"
            steps.append((name, outcome, writer.take(), snapshot(state)))

        transcript.append(steps)

    json.dump({
        "origin": os.path.dirname(os.path.dirname(gscrib.__file__)),
        "has_helper": hasattr(GState, "_switch_tool"),
        "transcript": transcript,
    }, sys.stdout)


# ---------------------------------------------------------------------------
# Driver
# ---------------------------------------------------------------------------

def run_tree(tree: str) -> dict:
    env = dict(os.environ)
    env["PYTHONPATH"] = tree
    env["PYTHONHASHSEED"] = "0"
    env["PYTHONDONTWRITEBYTECODE"] = "1"

    proc = subprocess.run(
        [sys.executable, os.path.abspath(__file__), "--worker"],
        env=env, cwd="/tmp/twin-C06", stdin=subprocess.DEVNULL,
        capture_output=True, text=True, timeout=600,
    )

    if proc.returncode != 0:
        sys.stderr.write(proc.stderr)
        raise SystemExit(f"worker for {tree} failed ({proc.returncode})")

    return json.loads(proc.stdout)


def driver() -> int:
    old = run_tree(REFERENCE)
    new = run_tree(REFACTORED)

    assert os.path.realpath(old["origin"]) == os.path.realpath(REFERENCE), old["origin"]
    assert os.path.realpath(new["origin"]) == os.path.realpath(REFACTORED), new["origin"]
    assert old["has_helper"] is False and new["has_helper"] is True

    a, b = old["transcript"], new["transcript"]
    assert len(a) == len(b) == N_SCENARIOS

    steps = raised = emitted = 0
    kinds = {}

    for i, (sa, sb) in enumerate(zip(a, b)):
        if sa != sb:
            for j, (x, y) in enumerate(zip(sa, sb)):
                if x != y:
                    print(f"DIFF scenario {i} step {j}\n old: {x}\n new: {y}")
                    break
            return 1
        for step in sa[1:]:
            steps += 1
            outcome = step[1]
            if isinstance(outcome, str) and outcome.startswith("!"):
                raised += 1
                name = outcome[1:].split(":")[0]
                kinds[name] = kinds.get(name, 0) + 1
            emitted += len(step[2])

    assert a == b
    print(f"identical transcripts: {N_SCENARIOS} scenarios, {steps} steps, "
          f"{emitted} emitted lines, {raised} raising steps {kinds}")
    return 0


if __name__ == "__main__":
    if "--worker" in sys.argv:
        worker()
    else:
        sys.exit(driver())
