#!/venv/bin/python
"""Differential check: /repo (original) vs /tmp/wtV-C10 (refactored).

Refactored code: gscrib/geometry/tracer.py (PathTracer.arc, PathTracer.helix,
new private _PolarSpan) and gscrib/gcode_core.py (GCodeCore.to_absolute,
GCodeCore.to_distance_mode).

Run without arguments. The script re-executes itself once per tree in
a subprocess ("child" mode), collects a JSON transcript from each and
asserts that both transcripts are identical.
"""

import json
import os
import subprocess
import sys

TREES = {"orig": "/repo", "twin": "/tmp/wtV-C10"}
SEED = 20261004
N_RANDOM = int(os.environ.get("EQUIV_N", "420"))


# ----------------------------------------------------------------------
# Child: drive the library and print a transcript
# ----------------------------------------------------------------------

def child() -> None:
    import math
    import random
    import warnings

    import numpy as np
    import gscrib
    from gscrib import GCodeBuilder, GCodeCore
    from gscrib.geometry import Point
    from gscrib.geometry.tracer import PathTracer
    from gscrib.writers import BaseWriter

    class Recorder(BaseWriter):
        def __init__(self):
            self.lines = []

        def connect(self):
            return self

        def disconnect(self, wait=True):
            pass

        def write(self, statement: bytes):
            self.lines.append(statement.decode("utf-8"))

        def flush(self):
            pass

    rng = random.Random(SEED)

    def show(value):
        if isinstance(value, (list, tuple)) and not isinstance(value, Point):
            return [show(v) for v in value]
        return f"{type(value).__name__}:{value!r}"

    def new_builder(setup):
        g = GCodeBuilder(decimal_places=setup.get("decimals", 5))
        for w in list(g._writers):
            g.remove_writer(w)
        rec = Recorder()
        g.add_writer(rec)
        if setup.get("start") is not None:
            g.move(setup["start"])
        if setup.get("mode") == "relative":
            g.set_distance_mode("relative")
        if setup.get("direction") is not None:
            g.set_direction(setup["direction"])
        if setup.get("resolution") is not None:
            g.set_resolution(setup["resolution"])
        for kind, args in setup.get("transforms", ()):
            getattr(g.transform, kind)(*args)
        rec.lines.clear()
        return g, rec

    def run_case(label, setup, calls):
        """calls: list of (callable taking g, description)"""

        entry = {"label": label, "setup": repr(setup), "steps": []}

        with warnings.catch_warnings(record=True) as caught:
            warnings.simplefilter("always")

            try:
                g, rec = new_builder(setup)
            except Exception as e:  # setup must not fail, but record it
                entry["setup_error"] = f"{type(e).__name__}: {e}"
                return entry

            for desc, fn in calls:
                step = {"call": desc}
                mark = len(rec.lines)
                try:
                    step["return"] = show(fn(g))
                except Exception as e:
                    step["raised"] = type(e).__name__
                    step["message"] = str(e)
                step["lines"] = rec.lines[mark:]
                step["position"] = show(g.position)
                step["state_position"] = show(g.state.position)
                step["mode"] = str(g.distance_mode)
                step["state_mode"] = str(g.state.distance_mode)
                step["F"] = show(g.get_parameter("F"))
                step["direction"] = str(g.state.direction)
                entry["steps"].append(step)

            entry["warnings"] = sorted(
                {f"{w.category.__name__}: {w.message}" for w in caught})

        return entry

    # -- random input generators -------------------------------------

    def coord(scale=30.0):
        r = rng.random()
        if r < 0.70:
            return round(rng.uniform(-scale, scale), rng.choice((0, 1, 3, 6)))
        if r < 0.80:
            return float(rng.randint(-10, 10))
        if r < 0.86:
            return rng.randint(-10, 10)
        if r < 0.90:
            return 0.0
        if r < 0.93:
            return -0.0
        return np.float64(rng.uniform(-scale, scale))

    def weird():
        return rng.choice((
            float("nan"), float("inf"), float("-inf"), None, 1e308,
            -1e308, 1e-320, np.float32(2.5), np.int64(3), True,
        ))

    def pointlike(dims=None, odd=0.08):
        dims = dims or rng.choice((2, 2, 3, 3, 3))
        values = [coord() for _ in range(dims)]
        r = rng.random()
        if r < odd:
            values[rng.randrange(dims)] = weird()
        shape = rng.random()
        if shape < 0.45:
            return tuple(values)
        if shape < 0.65:
            return list(values)
        if shape < 0.85:
            return Point(*values)
        if all(v is not None for v in values):
            return np.array(values, dtype=float)
        return tuple(values)

    def invalid_pointlike():
        return rng.choice((
            None, (), (1.0,), (1.0, 2.0, 3.0, 4.0), (1.0, "a"),
            (1.0, 2.0, "z"), "ab", "abc", 5, 2.5, [None, None, None],
            (None, None), np.array(5.0), np.array([[1.0, 2.0], [3.0, 4.0]]),
            {"x": 1}, (float("nan"), float("nan")), Point(None, None, None),
            Point(1.0), [1.0, None, 2.0],
        ))

    def setup_random():
        setup = {}
        r = rng.random()
        if r < 0.75:
            setup["start"] = tuple(coord() for _ in range(3))
        elif r < 0.85:
            setup["start"] = (coord(), coord())
        else:
            setup["start"] = None
        setup["mode"] = rng.choice(("absolute", "relative"))
        setup["direction"] = rng.choice(("cw", "ccw", None))
        setup["resolution"] = rng.choice(
            (None, 0.5, 1.0, 2.5, 0.25, 7.0, round(rng.uniform(0.2, 5), 3)))
        setup["decimals"] = rng.choice((5, 5, 3, 8))
        transforms = []
        if rng.random() < 0.25:
            transforms.append(
                ("translate", (coord(10), coord(10), coord(10))))
        if rng.random() < 0.2:
            transforms.append(
                ("rotate", (rng.choice((30, 45, 90, -60)), rng.choice("xyz"))))
        if rng.random() < 0.1:
            transforms.append(("scale", (rng.choice((0.5, 2.0, 1.5)),)))
        setup["transforms"] = transforms
        return setup

    def kwargs_random():
        r = rng.random()
        if r < 0.6:
            return {}
        if r < 0.8:
            return {"F": rng.choice((100, 1200.5, 3000))}
        if r < 0.9:
            return {"F": 500, "comment": "traced"}
        return {"E": 0.25, "f": 750}

    def exact_arc_target(start, center, angle, with_z):
        """Target exactly on the circle about start+center (absolute)."""
        sx, sy, sz = (0 if v is None else v for v in start)
        cx, cy = sx + center[0], sy + center[1]
        radius = math.hypot(center[0], center[1])
        base = math.atan2(sy - cy, sx - cx)
        tx = cx + radius * math.cos(base + angle)
        ty = cy + radius * math.sin(base + angle)
        return (tx, ty, sz + rng.uniform(-10, 10)) if with_z else (tx, ty)

    def make_call(setup):
        kind = rng.choice((
            "arc", "arc", "arc", "arc_invalid", "arc_radius", "circle",
            "helix", "helix", "helix", "helix_invalid", "thread", "spiral",
            "to_absolute", "to_distance_mode", "to_absolute_list",
            "spline", "polyline", "core_tracer",
        ))
        kw = kwargs_random()
        start = setup.get("start") or (0, 0, 0)
        start = tuple(start) + (0,) * (3 - len(start))
        relative = setup.get("mode") == "relative"

        if kind == "arc":
            center = (coord(20) or 3.0, coord(20) or -2.0)
            angle = rng.choice((
                rng.uniform(-math.pi, math.pi), math.pi / 2, math.pi,
                -math.pi / 2, 0.0, 1e-9, 2 * math.pi,
            ))
            target = exact_arc_target(
                start, center, angle, rng.random() < 0.5)
            if relative:
                s = tuple(0 if v is None else v for v in start)
                target = tuple(t - s[i] for i, t in enumerate(target))
            if rng.random() < 0.3:
                target = list(target)
            elif rng.random() < 0.3:
                target = Point(*target)
            if rng.random() < 0.2:
                center = Point(*center)
            elif rng.random() < 0.15:
                center = (*center, coord())
            return (f"arc({target!r}, {center!r}, {kw})",
                    lambda g: g.trace.arc(target, center, **kw))

        if kind == "arc_invalid":
            r = rng.random()
            if r < 0.4:
                target, center = pointlike(), pointlike()
            elif r < 0.7:
                target, center = invalid_pointlike(), pointlike()
            else:
                target, center = pointlike(), invalid_pointlike()
            return (f"arc!({target!r}, {center!r}, {kw})",
                    lambda g: g.trace.arc(target, center, **kw))

        if kind == "arc_radius":
            target = pointlike()
            radius = rng.choice((
                coord(40), 0, 0.0, 150.0, -150.0, 25.0, -25.0, weird() or 1.0))
            if isinstance(radius, bool) or radius is None:
                radius = 12.5
            return (f"arc_radius({target!r}, {radius!r}, {kw})",
                    lambda g: g.trace.arc_radius(target, radius, **kw))

        if kind == "circle":
            center = rng.choice((pointlike(), invalid_pointlike(),
                                 (coord(), coord()), (0, 0), (0.0, -0.0)))
            return (f"circle({center!r}, {kw})",
                    lambda g: g.trace.circle(center, **kw))

        if kind == "helix":
            target = pointlike(odd=0.04)
            center = pointlike(dims=rng.choice((2, 2, 3)), odd=0.04)
            turns = rng.choice((1, 1, 2, 3, 5, 0, -1, 12))
            return (f"helix({target!r}, {center!r}, {turns}, {kw})",
                    lambda g: g.trace.helix(target, center, turns, **kw))

        if kind == "helix_invalid":
            r = rng.random()
            if r < 0.35:
                target, center = invalid_pointlike(), pointlike()
            elif r < 0.7:
                target, center = pointlike(), invalid_pointlike()
            else:
                target, center = pointlike(odd=0.9), pointlike(odd=0.9)
            turns = rng.choice((1, 2, 0, -3, 1.5, "2", None, True))
            return (f"helix!({target!r}, {center!r}, {turns!r}, {kw})",
                    lambda g: g.trace.helix(target, center, turns, **kw))

        if kind == "thread":
            target = pointlike()
            pitch = rng.choice((1, 1.0, 0.5, 2.5, 0, -1.0, 100.0, 0.75))
            return (f"thread({target!r}, {pitch!r}, {kw})",
                    lambda g: g.trace.thread(target, pitch, **kw))

        if kind == "spiral":
            target = rng.choice((pointlike(), invalid_pointlike()))
            turns = rng.choice((1, 2, 4, 0, -2))
            return (f"spiral({target!r}, {turns!r}, {kw})",
                    lambda g: g.trace.spiral(target, turns, **kw))

        if kind == "to_absolute":
            point = rng.choice((pointlike(odd=0.3), invalid_pointlike()))
            return (f"to_absolute({point!r})",
                    lambda g: g.to_absolute(point))

        if kind == "to_distance_mode":
            point = rng.choice((
                Point(*[coord() for _ in range(3)]),
                Point(coord(), None, coord()), Point(None, None, None),
                pointlike(odd=0.3), invalid_pointlike(),
                Point(float("nan"), float("inf"), -0.0),
            ))
            return (f"to_distance_mode({point!r})",
                    lambda g: g.to_distance_mode(point))

        if kind == "to_absolute_list":
            points = [pointlike(odd=0.1) for _ in range(rng.randint(0, 4))]
            if rng.random() < 0.2:
                points.append(invalid_pointlike())
            return (f"to_absolute_list({points!r})",
                    lambda g: g.to_absolute_list(points))

        if kind == "spline":
            points = [pointlike(odd=0.03) for _ in range(rng.randint(0, 5))]
            return (f"spline({points!r}, {kw})",
                    lambda g: g.trace.spline(points, **kw))

        if kind == "polyline":
            points = [pointlike(odd=0.1) for _ in range(rng.randint(0, 5))]
            return (f"polyline({points!r}, {kw})",
                    lambda g: g.trace.polyline(points, **kw))

        # A tracer bound to a plain GCodeCore has no `state`: the point
        # where AttributeError shows up relative to ValueError matters
        target, center = pointlike(), pointlike()
        turns = rng.choice((1, 0, 2))
        which = rng.choice(("arc", "helix", "circle"))

        def core_call(g):
            core = GCodeCore()
            for w in list(core._writers):
                core.remove_writer(w)
            core.add_writer(g.get_writer(0))
            core.move(g.position.resolve())
            tracer = PathTracer(core)
            if which == "arc":
                return tracer.arc(target, center)
            if which == "circle":
                return tracer.circle(center)
            return tracer.helix(target, center, turns)

        return (f"core.{which}({target!r}, {center!r}, {turns})", core_call)

    transcript = []

    # -- hand-written boundary cases ----------------------------------

    fixed = [
        ("quarter-cw", {"start": (0, 10, 0), "direction": "cw"},
         [("arc", lambda g: g.trace.arc((10, 0), (0, -10)))]),
        ("quarter-ccw", {"start": (10, 0, 0), "direction": "ccw"},
         [("arc", lambda g: g.trace.arc((0, 10), (-10, 0)))]),
        ("helical-arc-rel", {"start": (10, 0, 2), "mode": "relative",
                             "direction": "ccw", "resolution": 0.5},
         [("arc", lambda g: g.trace.arc((-20, 0, 5), (-10, 0), F=900))]),
        ("arc-z-none", {"start": (10, 0, 2)},
         [("arc", lambda g: g.trace.arc((-10, 0, None), (-10, 0)))]),
        ("arc-unknown-start", {"start": None},
         [("arc", lambda g: g.trace.arc((2, 0), (1, 0)))]),
        ("arc-zero-radius", {"start": (1, 1, 1)},
         [("arc", lambda g: g.trace.arc((1, 1), (0, 0)))]),
        ("arc-mismatch", {"start": (0, 0, 0)},
         [("arc", lambda g: g.trace.arc((10, 0), (4, 0)))]),
        ("arc-nearly", {"start": (0, 0, 0)},
         [("arc", lambda g: g.trace.arc((10 + 1e-10, 0), (5, 0))),
          ("arc2", lambda g: g.trace.arc((10 + 1e-8, 0), (5, 0)))]),
        ("arc-nan", {"start": (0, 0, 0)},
         [("arc", lambda g: g.trace.arc(
             (float("nan"), 0), (5, 0)))]),
        ("arc-inf", {"start": (0, 0, 0)},
         [("arc", lambda g: g.trace.arc(
             (float("inf"), 0), (float("inf"), 0)))]),
        ("arc-inf-z", {"start": (5, 0, 0)},
         [("arc", lambda g: g.trace.arc(
             (-5, 0, float("inf")), (-5, 0)))]),
        ("circle-both", {"start": (10, 0, 0), "direction": "ccw"},
         [("circle", lambda g: g.trace.circle((-10, 0))),
          ("dir", lambda g: g.set_direction("cw")),
          ("circle", lambda g: g.trace.circle((-10, 0), F=300)),
          ("mode", lambda g: g.set_distance_mode("relative")),
          ("circle", lambda g: g.trace.circle((0, 4.5)))]),
        ("circle-zero", {"start": (3, 3, 3)},
         [("circle", lambda g: g.trace.circle((0, 0)))]),
        ("helix-3", {"start": (10, 0, 0), "direction": "ccw"},
         [("helix", lambda g: g.trace.helix((5, 0), (-10, 0), 3))]),
        ("helix-up", {"start": (10, 0, 0), "mode": "relative"},
         [("helix", lambda g: g.trace.helix((0, 0, 10), (-10, 0), 2))]),
        ("helix-bad-turns", {"start": (10, 0, 0)},
         [("helix0", lambda g: g.trace.helix((5, 0), (-10, 0), 0)),
          ("helix-1", lambda g: g.trace.helix(None, None, -1)),
          ("helixNone", lambda g: g.trace.helix(None, (-10, 0), 1)),
          ("helixCenterNone", lambda g: g.trace.helix((5, 0), None, 1))]),
        ("helix-inf", {"start": (10, 0, 0)},
         [("helix", lambda g: g.trace.helix(
             (float("inf"), 0), (-10, 0), 1))]),
        ("helix-same", {"start": (4, 4, 4)},
         [("helix", lambda g: g.trace.helix((4, 4, 4), (0, 0), 1))]),
        ("thread", {"start": (10, 0, 0), "resolution": 1.0},
         [("thread", lambda g: g.trace.thread((10, 0, 4), 1.0)),
          ("thread-rel-err", lambda g: g.trace.thread((0, 0, 4), 0)),
          ("thread2", lambda g: g.trace.thread((-10, 6, 0.2), 0.5))]),
        ("spiral", {"start": (0, 0, 0), "direction": "ccw"},
         [("spiral", lambda g: g.trace.spiral((10, 0), 2)),
          ("spiral-z", lambda g: g.trace.spiral((0, 5, 3), 1, F=100))]),
        ("arc-radius", {"start": (0, 0, 0)},
         [("short", lambda g: g.trace.arc_radius((10, 10), 10.0)),
          ("long", lambda g: g.trace.arc_radius((0, 0), -10.0)),
          ("small", lambda g: g.trace.arc_radius((40, 40), 1.0))]),
        ("conversions", {"start": (1, 2, 3), "mode": "relative"},
         [("abs", lambda g: g.to_absolute((1, None, 2))),
          ("abs2", lambda g: g.to_absolute((1,))),
          ("abs3", lambda g: g.to_absolute(())),
          ("absNone", lambda g: g.to_absolute(None)),
          ("abs4", lambda g: g.to_absolute((1, 2, 3, 4))),
          ("dm", lambda g: g.to_distance_mode(Point(5, None, -0.0))),
          ("dmTuple", lambda g: g.to_distance_mode((5, 5, 5))),
          ("dmNone", lambda g: g.to_distance_mode(None)),
          ("mode", lambda g: g.set_distance_mode("absolute")),
          ("abs", lambda g: g.to_absolute((1, None, 2))),
          ("abs3", lambda g: g.to_absolute(())),
          ("absNone", lambda g: g.to_absolute(None)),
          ("abs4", lambda g: g.to_absolute((1, 2, 3, 4))),
          ("absStr", lambda g: g.to_absolute("ab")),
          ("dm", lambda g: g.to_distance_mode(Point(5, None, -0.0))),
          ("dmTuple", lambda g: g.to_distance_mode((5, 5, 5))),
          ("dmNone", lambda g: g.to_distance_mode(None))]),
        ("rotated-arc", {"start": (10, 0, 0), "direction": "ccw",
                         "transforms": [("rotate", (45, "x"))]},
         [("circle", lambda g: g.trace.circle((0, 10))),
          ("arc", lambda g: g.trace.arc((-10, 0, 3), (-10, 0)))]),
    ]

    for label, setup, calls in fixed:
        transcript.append(run_case(label, setup, calls))

    # -- random cases --------------------------------------------------

    for i in range(N_RANDOM):
        setup = setup_random()
        calls = [make_call(setup) for _ in range(rng.choice((1, 1, 2, 3)))]
        transcript.append(run_case(f"random-{i}", setup, calls))

    json.dump({
        "file": os.path.dirname(gscrib.__file__),
        "transcript": transcript,
    }, sys.stdout)


# ----------------------------------------------------------------------
# Parent: run both trees and compare
# ----------------------------------------------------------------------

def run_tree(path: str) -> dict:
    env = dict(os.environ)
    env["PYTHONPATH"] = path
    env["PYTHONHASHSEED"] = "0"
    env["PYTHONDONTWRITEBYTECODE"] = "1"

    result = subprocess.run(
        [sys.executable, os.path.abspath(__file__), "child"],
        env=env, cwd="/tmp", stdin=subprocess.DEVNULL,
        stdout=subprocess.PIPE, stderr=subprocess.PIPE,
        timeout=800, check=False,
    )

    if result.returncode != 0:
        sys.stderr.write(result.stderr.decode("utf-8", "replace")[-4000:])
        raise SystemExit(f"child for {path} failed ({result.returncode})")

    return json.loads(result.stdout)


def main() -> int:
    outputs = {name: run_tree(path) for name, path in TREES.items()}

    for name, path in TREES.items():
        loaded = outputs[name]["file"]
        assert loaded == os.path.join(path, "gscrib"), (name, loaded)

    orig = outputs["orig"]["transcript"]
    twin = outputs["twin"]["transcript"]
    assert len(orig) == len(twin), (len(orig), len(twin))

    mismatches = 0

    for a, b in zip(orig, twin):
        if a != b:
            mismatches += 1
            if mismatches <= 5:
                print("MISMATCH in", a["label"], a.get("setup"))
                for sa, sb in zip(a.get("steps", []), b.get("steps", [])):
                    if sa != sb:
                        for key in sa:
                            if sa.get(key) != sb.get(key):
                                print("  step", sa["call"], "key", key)
                                print("    orig:", str(sa.get(key))[:400])
                                print("    twin:", str(sb.get(key))[:400])

    steps = sum(len(e.get("steps", [])) for e in orig)
    raised = sum(1 for e in orig for s in e.get("steps", []) if "raised" in s)
    lines = sum(len(s["lines"]) for e in orig for s in e.get("steps", []))
    kinds = sorted({s["raised"] for e in orig
                    for s in e.get("steps", []) if "raised" in s})
    setup_errors = sum(1 for e in orig if "setup_error" in e)

    print(f"cases={len(orig)} steps={steps} raised={raised} "
          f"emitted_lines={lines} setup_errors={setup_errors}")
    print("exception kinds:", ", ".join(kinds))

    assert mismatches == 0, f"{mismatches} cases differ"
    assert orig == twin
    print("OK: transcripts identical")
    return 0


if __name__ == "__main__":
    if len(sys.argv) > 1 and sys.argv[1] == "child":
        child()
    else:
        sys.exit(main())
