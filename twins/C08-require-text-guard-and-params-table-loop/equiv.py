#!/usr/bin/env python
"""Differential check: /repo (original) against /tmp/wtW-C08 (refactored).

Run without arguments it launches itself twice, once per tree, with the
argument "child" and compares the two transcripts. Exit status 0 means
the transcripts are byte-identical.
"""

import json
import os
import subprocess
import sys

TREES = ("/repo", "/tmp/wtW-C08")
SEED = 80808


def child() -> None:
    import logging
    import random

    import numpy as np

    logging.disable(logging.CRITICAL)

    import gscrib
    from gscrib import GCodeBuilder, GCodeCore
    from gscrib.formatters import DefaultFormatter
    from gscrib.geometry import Point
    from gscrib.params import ParamsDict
    from gscrib.writers import BaseWriter

    assert os.path.dirname(os.path.dirname(gscrib.__file__)) == \
        os.environ["PYTHONPATH"], gscrib.__file__

    rng = random.Random(SEED)
    log = []

    class Recorder(BaseWriter):
        def __init__(self):
            self.chunks = []

        def connect(self):
            return self

        def disconnect(self, wait=True):
            pass

        def write(self, statement):
            self.chunks.append(statement)

        def flush(self):
            pass

    def show(value):
        if isinstance(value, bytes):
            return "b:" + value.hex()
        if isinstance(value, dict):
            return {str(k): show(v) for k, v in value.items()}
        if isinstance(value, (list, tuple)):
            return [type(value).__name__] + [show(v) for v in value]
        return f"{type(value).__name__}:{value!r}"

    def attempt(label, func, *args, **kwargs):
        try:
            result = func(*args, **kwargs)
            log.append([label, "ok", show(result)])
        except BaseException as exc:  # noqa: the type is the observation
            log.append([label, "raise", type(exc).__name__, str(exc)[:200]])

    # ------------------------------------------------------------------
    # Value pools
    # ------------------------------------------------------------------

    specials = [
        0, 0.0, -0.0, 1, -1, 0.5, -0.5, 1.5, 2.5, 0.125, 1e-7, -1e-7,
        5e-324, -5e-324, 2.2250738585072014e-308, 1e15, -1e15,
        123456789012345.0, 0.000005, 0.0000049999, 0.00000500001,
        999.999995, 1e-13, 255, 255.0, 256, 254.99999999,
        float("nan"), float("inf"), float("-inf"),
        np.float64(1.25), np.float32(0.1), np.int64(7), np.int32(-3),
        np.float64("nan"), np.float64("inf"), np.float64(-0.0),
        True, False,
    ]

    def number():
        pick = rng.random()
        if pick < 0.35:
            return rng.choice(specials)
        if pick < 0.55:
            return rng.randint(-1000, 1000)
        if pick < 0.75:
            return round(rng.uniform(-500, 500), rng.randint(0, 8))
        if pick < 0.85:
            return rng.uniform(-1, 1) * 10 ** rng.randint(-14, 15)
        if pick < 0.92:
            return np.float64(rng.uniform(-50, 50))
        return (rng.randint(-10 ** 6, 10 ** 6) + 0.5) / 10 ** rng.randint(0, 7)

    junk = [None, "abc", "", "1.5", [1], (1, 2), {"a": 1}, 1 + 2j, b"x", object]

    def maybe_junk():
        return rng.choice(junk) if rng.random() < 0.12 else number()

    endings = [
        "os", "\n", "\r\n", "\\n", "\\r\\n", "", " ", "\\t\\n", "\\x41",
        "\\", "\\x", "\\u12", "\\N{bad}", "OS", "os ", "é\\n", "\\u00e9",
        "\ud800", ";\\n", 5, None, b"\n",
    ]
    symbols = [
        ";", "(", "[", "{", "<", '"', "'", "/*", "//", "#", " ; ", " ( ",
        "", "   ", "\t", "{}", "{0}", "{x}", ")", None, 7,
    ]
    labels = [
        "a", "U", " v ", "", "  ", "\t", "xy", "é", "ß", "1", "x", None, 3,
        " \n", "w\n",
    ]
    axes = ["x", "y", "z", "X", "Y", "Z", "w", "", " x", None, 1, "e"]
    comments = [
        None, "", "  ", "hello", "multi\nline", "has ) paren", "a*/b",
        "trailing  ", "é", "{}", "{0}", 5,
    ]
    statements = [
        "G1 X1", "G1 X1   ", "", "   ", "\n", "G1\n", "a\r\n", "\tG0\t",
        "é ", "G1 X1\x0b", "x ", None, 5, b"G1",
    ]

    def settings(fmt):
        return [
            show(fmt._labels), show(fmt._line_endings),
            show(fmt._decimal_places), show(fmt._comment_template),
            show(fmt._comment_ending), show(fmt._valid_axes),
        ]

    # ------------------------------------------------------------------
    # 1. The formatter on its own
    # ------------------------------------------------------------------

    try:
        from gscrib.enums import Axis
        axes += [Axis.X, Axis.Z]
    except ImportError:
        pass

    fmt = DefaultFormatter()
    log.append(["fmt-init", settings(fmt)])

    for i in range(700):
        action = rng.randrange(8)

        if action == 0:
            attempt(f"f{i}-endings", fmt.set_line_endings, rng.choice(endings))
        elif action == 1:
            attempt(f"f{i}-label", fmt.set_axis_label,
                rng.choice(axes), rng.choice(labels))
        elif action == 2:
            attempt(f"f{i}-symbols", fmt.set_comment_symbols,
                rng.choice(symbols))
        elif action == 3:
            attempt(f"f{i}-places", fmt.set_decimal_places,
                rng.choice([0, 1, 2, 3, 5, 8, 12, -1, 1.5, None, True]))
        elif action == 4:
            attempt(f"f{i}-line", fmt.line, rng.choice(statements))
        elif action == 5:
            keys = rng.sample(
                ["x", "Y", "z", "F", "s", "e", "P", "Z", "X", "i"],
                rng.randint(0, 5))
            params = {k: maybe_junk() for k in keys}
            attempt(f"f{i}-command", fmt.command,
                rng.choice(["G1", "M3", "", "g0 "]),
                rng.choice([params, params, None, {}]),
                rng.choice(comments))
        elif action == 6:
            attempt(f"f{i}-comment", fmt.comment, rng.choice(comments))
        else:
            attempt(f"f{i}-number", fmt.number, maybe_junk())

        log.append([f"f{i}-settings", settings(fmt)])

    # A failing helper must not be reachable from outside with new names
    log.append(["fmt-api", sorted(
        n for n in dir(DefaultFormatter) if not n.startswith("_"))])

    # ------------------------------------------------------------------
    # 2. Builders with a recording writer
    # ------------------------------------------------------------------

    def snapshot(g, rec):
        out = {
            "chunks": [c.hex() if isinstance(c, bytes) else repr(c)
                       for c in rec.chunks],
            "position": show(tuple(g.position)),
            "axes": show(tuple(g._current_axes)),
            "params": show(dict(g._current_params)),
            "mode": show(g.distance_mode),
        }
        rec.chunks.clear()
        state = getattr(g, "_state", None)
        if state is not None:
            out["state"] = {
                name: show(getattr(state, name))
                for name in (
                    "feed_rate", "tool_power", "position",
                    "is_tool_active", "halt_mode", "spin_mode",
                    "power_mode", "time_units", "distance_mode",
                ) if hasattr(state, name)
            }
            out["state_params"] = show(dict(state._current_params)) \
                if hasattr(state, "_current_params") else None
        return out

    def point_arg():
        pick = rng.random()
        if pick < 0.25:
            return None
        if pick < 0.45:
            return Point(maybe_junk(), maybe_junk(), maybe_junk())
        if pick < 0.6:
            return [number() for _ in range(rng.randint(0, 5))]
        if pick < 0.7:
            return np.array([number() for _ in range(rng.randint(1, 4))],
                dtype=float)
        if pick < 0.8:
            return tuple(rng.choice([None, number()]) for _ in range(3))
        return rng.choice(["xyz", 5, {"x": 1}, (1,), (), Point()])

    def kwargs_arg():
        kwargs = {}
        for key in rng.sample(
            ["x", "y", "z", "X", "Y", "Z", "F", "f", "S", "s", "E", "e",
             "comment", "I", "p"], rng.randint(0, 5)):
            kwargs[key] = rng.choice(comments) if key == "comment" \
                else rng.choice([None, maybe_junk(), number(), number()])
        return kwargs

    def make(cls):
        g = cls()
        for writer in list(g._writers):
            g.remove_writer(writer)
        rec = Recorder()
        g.add_writer(rec)
        return g, rec

    for round_no in range(12):
        cls = GCodeBuilder if round_no % 3 else GCodeCore
        g, rec = make(cls)
        tag = f"{cls.__name__[5]}{round_no}"

        attempt(f"{tag}-places", g.format.set_decimal_places,
            rng.choice([0, 1, 3, 5, 8, 12]))
        attempt(f"{tag}-endings", g.format.set_line_endings,
            rng.choice(["os", "\\n", "\\r\\n", ";\\n", "\\"]))
        attempt(f"{tag}-symbols", g.format.set_comment_symbols,
            rng.choice([";", "(", "/*", "[", "  "]))

        if cls is GCodeBuilder:
            attempt(f"{tag}-bounds-axes", g.set_bounds, "axes",
                Point(-400, -400, -400), Point(400, 400, 400))
            attempt(f"{tag}-bounds-feed", g.set_bounds, "feed-rate", 1, 5000)
            attempt(f"{tag}-bounds-power", g.set_bounds, "tool-power", 0, 300)

        for i in range(90):
            label = f"{tag}-{i}"
            action = rng.randrange(16)
            point, kwargs = point_arg(), kwargs_arg()

            if action < 3:
                attempt(label + "-move", g.move, point, **kwargs)
            elif action < 5:
                attempt(label + "-rapid", g.rapid, point, **kwargs)
            elif action == 5:
                attempt(label + "-move_abs", g.move_absolute, point, **kwargs)
            elif action == 6:
                attempt(label + "-rapid_abs", g.rapid_absolute, point, **kwargs)
            elif action == 7:
                attempt(label + "-set_axis", g.set_axis, point, **kwargs)
            elif action == 8:
                attempt(label + "-rename", g.rename_axis,
                    rng.choice(axes), rng.choice(labels))
            elif action == 9:
                attempt(label + "-distance", g.set_distance_mode,
                    rng.choice(["absolute", "relative", "bogus"]))
            elif action == 10:
                attempt(label + "-process", g._process_move_params,
                    point, **kwargs)
            elif action == 11:
                attempt(label + "-write", g.write, rng.choice(
                    [s for s in statements if isinstance(s, str)]))
            elif action == 12:
                attempt(label + "-comment", g.comment,
                    rng.choice(["note", "a\nb", "c )"]), number())
            elif cls is GCodeBuilder and action == 13:
                attempt(label + "-home", g.auto_home, point, **kwargs)
            elif cls is GCodeBuilder and action == 14:
                attempt(label + "-probe", g.probe,
                    rng.choice(["towards", "away", "towards-no-error", "x"]),
                    point, **kwargs)
            elif cls is GCodeBuilder:
                params = ParamsDict(
                    {k: v for k, v in kwargs.items() if k != "comment"})
                which = rng.randrange(4)
                if which == 0:
                    attempt(label + "-track", g._track_move_params, params)
                elif which == 1:
                    attempt(label + "-validate", g._validate_move,
                        Point(number(), number(), number()), params)
                elif which == 2:
                    attempt(label + "-feed", g.set_feed_rate, maybe_junk())
                else:
                    attempt(label + "-endings", g.format.set_line_endings,
                        rng.choice(endings))
            else:
                attempt(label + "-line-endings", g.format.set_line_endings,
                    rng.choice(endings))

            log.append([label, snapshot(g, rec), settings(g.format)])

        attempt(f"{tag}-teardown", g.teardown)
        log.append([f"{tag}-end", snapshot(g, rec)])

    json.dump(log, sys.stdout, ensure_ascii=True, sort_keys=True)


def main() -> int:
    transcripts = []

    for tree in TREES:
        env = {
            "PYTHONPATH": tree,
            "PYTHONHASHSEED": "0",
            "PYTHONDONTWRITEBYTECODE": "1",
            "PATH": os.environ.get("PATH", ""),
        }
        proc = subprocess.run(
            [sys.executable, os.path.abspath(__file__), "child"],
            env=env, cwd="/tmp/twin4-C08", stdin=subprocess.DEVNULL,
            stdout=subprocess.PIPE, stderr=subprocess.PIPE, timeout=600)

        if proc.returncode != 0:
            sys.stderr.write(proc.stderr.decode()[-4000:])
            print(f"child for {tree} failed with {proc.returncode}")
            return 2

        transcripts.append(json.loads(proc.stdout))

    left, right = transcripts
    print(f"entries: {len(left)} / {len(right)}")

    kinds = {}
    for entry in left:
        if len(entry) > 1 and entry[1] in ("ok", "raise"):
            key = entry[1] if entry[1] == "ok" else f"raise {entry[2]}"
            kinds[key] = kinds.get(key, 0) + 1
    print("outcomes:", kinds)

    for index, (a, b) in enumerate(zip(left, right)):
        if a != b:
            print(f"MISMATCH at entry {index}:\n  {a}\n  {b}")
            return 1

    if len(left) != len(right):
        print("MISMATCH: transcript lengths differ")
        return 1

    print("transcripts identical")
    return 0


if __name__ == "__main__":
    if sys.argv[1:] == ["child"]:
        child()
    else:
        sys.exit(main())
