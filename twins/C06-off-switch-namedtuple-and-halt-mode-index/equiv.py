#!/usr/bin/env python
"""Differential check for the C06 refactoring (switch-off paths).

Runs the same seeded random scenario against the unmodified tree (/repo)
and the refactored tree (/tmp/wtV-C06), each in its own subprocess, and
asserts that the two transcripts (emitted bytes, state snapshots, return
values, exception type names and messages) are identical.
"""

import json
import os
import subprocess
import sys

TREES = {"orig": "/repo", "new": "/tmp/wtV-C06"}
SEEDS = list(range(16))
STEPS = 90


# --------------------------------------------------------------------------
# worker (runs inside one tree)
# --------------------------------------------------------------------------

def worker(seed: int) -> None:
    import re
    import random
    import logging
    import numpy as np

    logging.disable(logging.CRITICAL)

    import gscrib
    from gscrib import GCodeBuilder
    from gscrib.enums import (
        SpinMode, PowerMode, CoolantMode, HaltMode, ToolSwapMode,
        TemperatureUnits, LengthUnits, TimeUnits, QueryMode,
    )
    from gscrib.excepts import DeviceError
    from gscrib.geometry import Point
    from gscrib.gcode_state import GState
    from gscrib.writers import BaseWriter

    assert os.path.dirname(os.path.dirname(gscrib.__file__)) == \
        os.environ["EXPECTED_TREE"], gscrib.__file__

    rng = random.Random(seed)
    log = []

    class FakeWriter(BaseWriter):
        """In-process recording device; can be told to fail."""

        def __init__(self, name):
            self.name = name
            self.fail = None

        def connect(self):
            return self

        def disconnect(self, wait=True):
            log.append(["disconnect", self.name, wait])

        def write(self, statement):
            if self.fail == "device":
                raise DeviceError("fake device failure")
            if self.fail == "other":
                raise RuntimeError("fake failure")
            # object() addresses differ between processes: mask them
            log.append(["emit", self.name, scrub(statement.decode("utf-8"))])

        def flush(self):
            log.append(["flush", self.name])

    def scrub(text):
        return re.sub(r"0x[0-9a-fA-F]+", "0x?", text)

    def rep(value):
        if isinstance(value, float):
            return repr(value)
        if isinstance(value, (str, int, bool, type(None))):
            return repr(value)
        return scrub(f"{type(value).__name__}:{value!r}")

    def snapshot(g):
        s = g.state
        names = (
            "is_tool_active", "is_coolant_active", "tool_power",
            "tool_number", "spin_mode", "power_mode", "coolant_mode",
            "halt_mode", "tool_swap_mode", "feed_rate",
            "temperature_units", "length_units", "time_units",
            "target_bed_temperature", "target_hotend_temperature",
            "target_chamber_temperature", "position",
        )
        snap = {n: rep(getattr(s, n)) for n in names}
        snap["bounds"] = {
            n: rep(s.get_bounds(n)) for n in
            ("tool-power", "feed-rate", "tool-number", "bed-temperature",
             "hotend-temperature", "chamber-temperature", "axes")
        }
        return snap

    def call(label, fn, *args, **kwargs):
        entry = ["call", label, [rep(a) for a in args],
                 {k: rep(v) for k, v in kwargs.items()}]
        try:
            result = fn(*args, **kwargs)
            entry.append(["ok", rep(result)])
        except BaseException as e:  # noqa: transcript wants everything
            cause = type(e.__cause__).__name__ if e.__cause__ else None
            entry.append(["raise", type(e).__name__, scrub(str(e)), cause])
        log.append(entry)

    numbers = [
        0, 0.0, -0.0, 1, 1.5, 100, 255.0, 1000, 24000, 1e-9, 1e12,
        -1, -0.5, float("nan"), float("inf"), float("-inf"),
        np.float64(12.5), np.int64(7), np.float32(0.0), True, False,
    ]
    junk = [None, "", "off", "cw", "12", [], {}, object(), b"x", 3 + 2j]
    messages = [
        "", "fire", "line\nbreak", "a ) b", "x" * 40, "  padded  ",
        "unicode é中", "{} braces {0}", "semi; colon", "\r\n",
        "( nested ( parens ) )", "*/ end", "tab\there",
    ]
    comment_symbols = [";", "(", "[", "{", "<", '"', "'", "/*", "#", "//"]

    def num():
        return rng.choice(numbers) if rng.random() < 0.6 else \
            round(rng.uniform(-50, 5000), rng.choice([0, 1, 3, 6]))

    def maybe_junk(value, p=0.12):
        return rng.choice(junk) if rng.random() < p else value

    def enum_arg(enum_cls):
        r = rng.random()
        member = rng.choice(list(enum_cls))
        if r < 0.5:
            return member
        if r < 0.8:
            return member.value
        if r < 0.9:
            return member.value.upper()
        return rng.choice(junk)

    kwargs_options = [
        {}, {"comment_symbols": "("}, {"comment_symbols": "/*"},
        {"decimal_places": 2}, {"line_endings": "\\r\\n"},
        {"comment_symbols": "#", "decimal_places": 0},
    ]

    g = GCodeBuilder(**rng.choice(kwargs_options))
    writers = [FakeWriter("w0")]
    g.add_writer(writers[0])

    if rng.random() < 0.5:
        writers.append(FakeWriter("w1"))
        g.add_writer(writers[1])

    log.append(["snap", snapshot(g)])

    def op_set_bounds():
        name = rng.choice([
            "tool-power", "tool-power", "tool-power", "feed-rate",
            "tool-number", "bed-temperature", "hotend-temperature",
            "chamber-temperature", "axes", "bogus",
        ])
        if name == "axes" and rng.random() < 0.8:
            lo = Point(*(rng.uniform(-100, 0) for _ in range(3)))
            hi = Point(*(rng.uniform(0, 100) for _ in range(3)))
            call("set_bounds", g.set_bounds, name, lo, hi)
            return
        lo, hi = rng.choice([
            (1, 100), (10.0, 20000.0), (0, 1), (-5, 5), (500, 600),
            (0.5, 0.75), (5, 5), (9, 3), (float("-inf"), float("inf")),
            (1, float("nan")), (None, 5), ("1", 2), (2, 300),
        ])
        call("set_bounds", g.set_bounds, name, lo, hi)

    def power_value():
        lo, hi = g.state.get_bounds("tool-power")
        if lo is not None and rng.random() < 0.6:
            return rng.choice([lo, hi, (lo + hi) / 2])
        return maybe_junk(num())

    def on_mode(enum_cls):
        if rng.random() < 0.5:
            return rng.choice([m for m in enum_cls if m.value != "off"])
        return enum_arg(enum_cls)

    def op_tool_on():
        call("tool_on", g.tool_on, on_mode(SpinMode), power_value())

    def op_power_on():
        call("power_on", g.power_on, on_mode(PowerMode), power_value())

    def op_coolant_on():
        call("coolant_on", g.coolant_on, enum_arg(CoolantMode))

    def op_tool_off():
        call("tool_off", g.tool_off)

    def op_power_off():
        call("power_off", g.power_off)

    def op_coolant_off():
        call("coolant_off", g.coolant_off)

    def op_emergency():
        message = maybe_junk(rng.choice(messages), 0.08)
        r = rng.random()
        if r < 0.35:
            call("emergency_halt", g.emergency_halt, message)
        elif r < 0.85:
            call("emergency_halt", g.emergency_halt, message,
                 reset=rng.choice([True, False]))
        else:
            call("emergency_halt", g.emergency_halt, message,
                 rng.choice([1, 0, None, "yes", 2.0]))

    def op_halt():
        kwargs = {}
        for key in ("S", "R", "s", "r", "P"):
            if rng.random() < 0.25:
                kwargs[key] = maybe_junk(num(), 0.05)
        call("halt", g.halt, enum_arg(HaltMode), **kwargs)

    def op_simple_halts():
        which = rng.choice(["wait", "pause", "stop"])
        if which == "wait":
            call("wait", g.wait)
        elif which == "pause":
            call("pause", g.pause, maybe_junk(rng.choice([True, False])))
        else:
            call("stop", g.stop, maybe_junk(rng.choice([True, False])))

    def op_tool_change():
        number = maybe_junk(rng.choice(
            [1, 2, 9, 10, 99, 100, 12345, 0, -1, 1.0, True, np.int64(3)]))
        call("tool_change", g.tool_change, enum_arg(ToolSwapMode), number)

    def op_set_tool_power():
        call("set_tool_power", g.set_tool_power, maybe_junk(num()))

    def op_move():
        kwargs = {"x": rng.uniform(-120, 120), "y": rng.uniform(-120, 120)}
        if rng.random() < 0.5:
            kwargs["S"] = maybe_junk(num(), 0.05)
        if rng.random() < 0.5:
            kwargs["F"] = maybe_junk(num(), 0.05)
        call("move", g.move, **kwargs)

    def op_units():
        pick = rng.choice(["temp", "len", "time"])
        if pick == "temp":
            call("set_temperature_units", g.set_temperature_units,
                 enum_arg(TemperatureUnits))
        elif pick == "len":
            call("set_length_units", g.set_length_units,
                 enum_arg(LengthUnits))
        else:
            call("set_time_units", g.set_time_units, enum_arg(TimeUnits))

    def op_misc_output():
        pick = rng.choice(["comment", "query", "write", "sleep", "symbols"])
        if pick == "comment":
            call("comment", g.comment, rng.choice(messages),
                 *rng.choice([(), (1, 2.5), ("a", None)]))
        elif pick == "query":
            call("query", g.query, enum_arg(QueryMode))
        elif pick == "write":
            call("write", g.write, maybe_junk(rng.choice(["G4 P0", "", "M3 "])))
        elif pick == "sleep":
            call("sleep", g.sleep, maybe_junk(num()))
        else:
            call("set_comment_symbols", g.format.set_comment_symbols,
                 maybe_junk(rng.choice(comment_symbols)))

    def op_writer_fault():
        writer = rng.choice(writers)
        writer.fail = rng.choice([None, None, None, None, "device", "other"])
        log.append(["fault", writer.name, writer.fail])

    def op_private_statement():
        value = rng.choice([
            SpinMode.OFF, PowerMode.OFF, CoolantMode.OFF, HaltMode.PAUSE,
            HaltMode.END_WITH_RESET, SpinMode.CLOCKWISE, CoolantMode.MIST,
            HaltMode.OFF, "off", None, 5,
        ])
        params = rng.choice([None, {}, {"S": 10}, {"p": 0.5, "X": 1}, "S1"])
        comment = rng.choice([None, "", "custom", "with ) paren", " ", 0])
        r = rng.random()
        if r < 0.4:
            call("_get_statement", g._get_statement, value)
        elif r < 0.7:
            call("_get_statement", g._get_statement, value, params)
        else:
            call("_get_statement", g._get_statement, value, params, comment)

    def op_private_state():
        s = g.state
        pick = rng.choice([
            "coolant", "halt", "toolnum", "ensure_tool", "ensure_coolant",
        ])
        if pick == "coolant":
            call("_set_coolant_mode", s._set_coolant_mode,
                 maybe_junk(rng.choice(list(CoolantMode)), 0.2))
        elif pick == "halt":
            call("_set_halt_mode", s._set_halt_mode,
                 maybe_junk(rng.choice(list(HaltMode)), 0.2))
        elif pick == "toolnum":
            call("_set_tool_number", s._set_tool_number,
                 maybe_junk(rng.choice(list(ToolSwapMode)), 0.2),
                 maybe_junk(rng.choice([1, 5, 0, -3, 250, True]), 0.2))
        elif pick == "ensure_tool":
            call("_ensure_tool_is_inactive", s._ensure_tool_is_inactive,
                 rng.choice(["msg", "", "{} literal", None, 7]))
        else:
            call("_ensure_coolant_is_inactive",
                 s._ensure_coolant_is_inactive,
                 rng.choice(["msg", "", "{} literal", None, 7]))

    ops = [
        (op_set_bounds, 8), (op_tool_on, 9), (op_power_on, 9),
        (op_coolant_on, 8), (op_tool_off, 7), (op_power_off, 7),
        (op_coolant_off, 7), (op_emergency, 9), (op_halt, 8),
        (op_simple_halts, 4), (op_tool_change, 5), (op_set_tool_power, 4),
        (op_move, 4), (op_units, 2), (op_misc_output, 4),
        (op_writer_fault, 4), (op_private_statement, 4),
        (op_private_state, 5),
    ]
    population = [op for op, _ in ops]
    weights = [w for _, w in ops]

    for _ in range(STEPS):
        rng.choices(population, weights)[0]()
        log.append(["snap", snapshot(g)])

    # Final sweep: from wherever we ended, the four off paths, with
    # healthy writers and with each possible reset flag.

    for writer in writers:
        writer.fail = None

    for final in (g.tool_off, g.power_off, g.coolant_off):
        call(final.__name__, final)
        log.append(["snap", snapshot(g)])

    for reset in (False, True):
        call("emergency_halt", g.emergency_halt, "final", reset)
        log.append(["snap", snapshot(g)])

    # A fresh state object on its own (no builder)

    fresh = GState()
    call("fresh._set_halt_mode", fresh._set_halt_mode, HaltMode.PAUSE)
    call("fresh._set_coolant_mode", fresh._set_coolant_mode, CoolantMode.FLOOD)
    call("fresh._set_halt_mode", fresh._set_halt_mode, HaltMode.PAUSE)
    call("fresh._set_tool_number", fresh._set_tool_number, ToolSwapMode.MANUAL, 2)
    call("fresh._set_spin_mode", fresh._set_spin_mode, SpinMode.CLOCKWISE, 10)
    call("fresh._set_halt_mode", fresh._set_halt_mode, HaltMode.END_WITH_RESET)
    call("fresh._set_tool_number", fresh._set_tool_number, ToolSwapMode.MANUAL, 2)
    call("fresh._set_coolant_mode", fresh._set_coolant_mode, CoolantMode.MIST)
    call("fresh._set_coolant_mode", fresh._set_coolant_mode, CoolantMode.OFF)
    call("fresh._set_halt_mode", fresh._set_halt_mode, HaltMode.OFF)
    log.append(["fresh", rep(fresh.is_tool_active), rep(fresh.is_coolant_active),
                rep(fresh.coolant_mode), rep(fresh.halt_mode)])

    call("teardown", g.teardown)
    json.dump(log, sys.stdout)


# --------------------------------------------------------------------------
# driver
# --------------------------------------------------------------------------

def run_tree(tree: str, seed: int) -> list:
    env = dict(os.environ)
    env["PYTHONPATH"] = tree
    env["EXPECTED_TREE"] = tree
    env["PYTHONHASHSEED"] = "0"
    env["PYTHONDONTWRITEBYTECODE"] = "1"

    proc = subprocess.run(
        [sys.executable, os.path.abspath(__file__), "--worker", str(seed)],
        env=env, cwd="/tmp", stdin=subprocess.DEVNULL,
        capture_output=True, text=True, timeout=300,
    )

    if proc.returncode != 0:
        sys.stderr.write(proc.stderr)
        raise SystemExit(f"worker failed for {tree} seed {seed}")

    return json.loads(proc.stdout)


def main() -> int:
    total_calls = total_emits = total_raises = 0
    raised = {}
    succeeded = {}

    for seed in SEEDS:
        old = run_tree(TREES["orig"], seed)
        new = run_tree(TREES["new"], seed)

        if old != new:
            for index, (a, b) in enumerate(zip(old, new)):
                if a != b:
                    print(f"seed {seed}: first difference at entry {index}")
                    print("  orig:", json.dumps(a)[:600])
                    print("  new :", json.dumps(b)[:600])
                    break
            else:
                print(f"seed {seed}: lengths differ {len(old)} {len(new)}")
            return 1

        for entry in old:
            if entry[0] == "call":
                total_calls += 1
                if entry[4][0] == "ok":
                    succeeded[entry[1]] = succeeded.get(entry[1], 0) + 1
                if entry[4][0] == "raise":
                    total_raises += 1
                    raised[entry[4][1]] = raised.get(entry[4][1], 0) + 1
            elif entry[0] == "emit":
                total_emits += 1

    print(f"identical transcripts for {len(SEEDS)} seeds: "
          f"{total_calls} calls, {total_emits} emitted lines, "
          f"{total_raises} raised {raised}")
    print("successful calls per entry point:", succeeded)
    return 0


if __name__ == "__main__":
    if len(sys.argv) == 3 and sys.argv[1] == "--worker":
        worker(int(sys.argv[2]))
    else:
        sys.exit(main())
