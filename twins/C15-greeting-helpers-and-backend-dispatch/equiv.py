#!/usr/bin/env python3
"""Differential check for the C15 refactoring (printcore._readline,
printcore._listen_until_online, Device.readline/write/has_flow_control/
_readline_buf).

Runs the same seeded scenarios against /repo and /tmp/wtV-C15 in separate
subprocesses and asserts that the two transcripts are identical.
Only in-process fakes are used: no serial port, no socket.
"""

import json
import os
import subprocess
import sys

TREES = {"orig": "/repo", "refactored": "/tmp/wtV-C15"}
SEED = 150315


# ---------------------------------------------------------------------------
# Child: builds the transcript for the tree found on PYTHONPATH
# ---------------------------------------------------------------------------

def child():
    import logging
    import queue
    import random
    import threading
    import time

    import gscrib.printrun.device as device_mod
    import gscrib.printrun.printcore  # noqa (the package re-exports the class)
    core_mod = sys.modules["gscrib.printrun.printcore"]
    from gscrib.printrun import gcoder
    from gscrib.printrun.device import Device, DeviceError
    from gscrib.printrun.printcore import printcore

    import serial

    tree = os.path.dirname(os.path.dirname(os.path.dirname(
        os.path.abspath(core_mod.__file__))))
    transcript = {"scenarios": []}
    out = transcript["scenarios"]

    # -- logging capture (first line only: tracebacks hold line numbers) ----
    class Capture(logging.Handler):
        def __init__(self):
            super().__init__()
            self.records = {}

        def emit(self, record):
            try:
                msg = record.getMessage()
            except Exception as e:  # pragma: no cover
                msg = "<unformattable %s>" % type(e).__name__
            first = msg.split("\n", 1)[0]
            self.records.setdefault(record.threadName, []).append(
                [record.levelname, first])

        def take(self):
            r, self.records = self.records, {}
            return r

    cap = Capture()
    plog = logging.getLogger("gscrib.printrun.printcore")
    plog.addHandler(cap)
    plog.setLevel(logging.DEBUG)
    plog.propagate = False

    def outcome(fn, *a, **k):
        try:
            r = fn(*a, **k)
        except BaseException as e:  # noqa
            return ["raise", type(e).__name__]
        return ["ok", rep(r)]

    def rep(v):
        if isinstance(v, (bytes, bytearray)):
            return [type(v).__name__, list(v)]
        if isinstance(v, (list, tuple)):
            return [type(v).__name__, [rep(x) for x in v]]
        if v is None or isinstance(v, (bool, int, float, str)):
            return [type(v).__name__, v]
        return [type(v).__name__, repr(v)]

    # =======================================================================
    # A. Device unit level
    # =======================================================================
    rng = random.Random(SEED)

    def rand_chunk(r, newline_p=0.5):
        n = r.randint(0, 6)
        bs = bytearray(r.choice(b"okTN:0123 \r") for _ in range(n))
        while r.random() < newline_p:
            bs.insert(r.randint(0, len(bs)), 10)
            newline_p /= 2
        return bytes(bs)

    # A1: _readline_buf on arbitrary buffers (valid and invalid content)
    for i in range(300):
        d = Device()
        buf = [rand_chunk(rng, 0.0 if rng.random() < 0.6 else 0.6)
               for _ in range(rng.randint(0, 4))]
        if buf and rng.random() < 0.7:
            buf[-1] = rand_chunk(rng, 0.9)
        kind = rng.random()
        if buf and kind < 0.05:
            buf[rng.randrange(len(buf))] = "str\n"     # invalid element
        elif buf and kind < 0.10:
            buf[-1] = bytearray(buf[-1])                # bytes-like
        elif buf and kind < 0.13:
            buf[0] = None                               # invalid element
        elif buf and kind < 0.16:
            buf[-1] = 7                                 # invalid element
        d._read_buffer = list(buf)
        calls = []
        for _ in range(3):
            calls.append(outcome(d._readline_buf))
            calls.append(rep(d._read_buffer))
        out.append(["A1", i, rep(buf), calls])

    # A2: Device.readline over a fake socket file + selector
    class FakeSockFile:
        def __init__(self, script):
            self.script = list(script)
            self.calls = 0

        def read(self, n):
            self.calls += 1
            if not self.script:
                return None
            item = self.script.pop(0)
            if item == "oserror":
                raise OSError("boom")
            if item == "valueerror":
                raise ValueError("closed")
            return item

        def write(self, data):
            if data == b"fail\n":
                raise OSError("broken pipe")
            if data == b"rt\n":
                raise RuntimeError("rt")
            if not isinstance(data, (bytes, bytearray)):
                raise TypeError("bytes needed")
            self.script.append(("written", bytes(data)))

        def flush(self):
            pass

    class FakeSelector:
        def __init__(self, r):
            self.r = r
            self.calls = 0

        def select(self, timeout):
            self.calls += 1
            return [1] if self.r.random() < 0.5 else []

    for i in range(150):
        d = Device("10.0.0.%d:%d" % (rng.randint(1, 254), rng.randint(1, 9999)))
        script = []
        for _ in range(rng.randint(0, 8)):
            k = rng.random()
            if k < 0.55:
                script.append(rand_chunk(rng, 0.5))
            elif k < 0.8:
                script.append(None)
            elif k < 0.9:
                script.append(b"")
            elif k < 0.96:
                script.append("oserror")
            else:
                script.append("valueerror")
        d._device = object()
        d._socketfile = FakeSockFile(script)
        d._selector = FakeSelector(random.Random(i))
        d._is_connected = True
        d._timeout = 0
        calls = []
        for _ in range(6):
            calls.append(outcome(d.readline))
            calls.append([rep(d._read_buffer), d.is_connected,
                          rep(d.has_flow_control)])
        out.append(["A2", i, calls, d._socketfile.calls, d._selector.calls])

    # A3: dispatch, has_flow_control, disconnected and broken states
    class FakeSerialUnit:
        def __init__(self, r):
            self.r = r
            self.is_open = True
            self.written = []

        def readline(self):
            k = self.r.random()
            if k < 0.2:
                raise serial.SerialException("gone")
            if k < 0.3:
                raise OSError("io")
            if k < 0.35:
                raise ValueError("other")
            if k < 0.5:
                return b""
            return rand_chunk(self.r, 0.3) + b"\n"

        def write(self, data):
            k = self.r.random()
            if k < 0.2:
                raise serial.SerialException("gone")
            if k < 0.3:
                raise OSError("io")
            if not isinstance(data, (bytes, bytearray)):
                raise TypeError("need bytes")
            self.written.append(bytes(data))

        def close(self):
            self.is_open = False

    ports = [None, "/dev/ttyFAKE0", "COM3", "localhost:8080", "10.1.2.3:80",
             "10.1.2.3:0", "10.1.2.3:70000", "a:b:c", "host:notanumber",
             "bad_host!:80", ""]
    for i in range(200):
        port = rng.choice(ports)
        d = Device(port)
        rec = [rep(port), rep(d._type), rep(d.has_flow_control),
               rep(d.is_connected)]
        state = rng.random()
        if state < 0.25:
            pass                                    # disconnected
        elif state < 0.85:
            d._device = FakeSerialUnit(random.Random(i))
            if d._type == "socket":
                d._socketfile = FakeSockFile([rand_chunk(rng, 0.8), None, b""])
                d._selector = FakeSelector(random.Random(i))
                d._is_connected = True
                d._timeout = 0
        else:
            d._device = FakeSerialUnit(random.Random(i))
            d._type = rng.choice([None, "bogus", "Serial", 3])
        for _ in range(4):
            data = rng.choice([b"G1 X1\n", b"", b"fail\n", b"rt\n", "text",
                               None, bytearray(b"M105\n")])
            rec.append(outcome(d.write, data))
            rec.append(outcome(d.readline))
            rec.append(outcome(lambda: d.has_flow_control))
            rec.append(outcome(lambda: d.is_connected))
        if isinstance(d._device, FakeSerialUnit):
            rec.append(rep(d._device.written))
        out.append(["A3", i, rec])
    cap.take()

    # =======================================================================
    # B. printcore, single threaded with a scripted fake printer
    # =======================================================================
    class ScriptedPrinter:
        """Stands in for Device; stays 'connected' while replies remain."""

        def __init__(self, replies, flow=False, write_fail=(), r=None,
                     connected_reads=None):
            self.replies = list(replies)
            self.has_flow_control = flow
            self.written = []
            self.write_fail = set(write_fail)
            self.nwrites = 0
            self.nreads = 0
            self.connected_reads = connected_reads

        @property
        def is_connected(self):
            if self.connected_reads is not None:
                return self.nreads < self.connected_reads
            return bool(self.replies)

        def readline(self):
            self.nreads += 1
            if not self.replies:
                return b""
            item = self.replies.pop(0)
            if item == "deverr":
                raise DeviceError("lost \u00e9", OSError("x"))
            if item == "valerr":
                raise ValueError("unexpected")
            return item

        def write(self, data):
            n = self.nwrites
            self.nwrites += 1
            if n in self.write_fail:
                raise DeviceError("cannot write")
            self.written.append(data)

        def disconnect(self):
            pass

    class Handler:
        def __init__(self, events, r, fail_p, core=None, stop_after=None):
            self.events = events
            self.r = r
            self.fail_p = fail_p
            self.core = core
            self.stop_after = stop_after
            self.nrecv = 0

        def _ev(self, name, *a):
            self.events.append([name] + [rep(x) if not hasattr(x, "raw")
                                         else ["gline", x.raw] for x in a])
            if self.r.random() < self.fail_p:
                raise RuntimeError("handler failure in " + name)

        def on_recv(self, line):
            self.nrecv += 1
            if self.stop_after is not None and self.nrecv >= self.stop_after:
                self.core.stop_read_thread = True
            self._ev("recv", line)

        def on_send(self, command, gline):
            self._ev("send", command)

        def on_online(self):
            self._ev("online")

        def on_error(self, error):
            self._ev("error", str(error).split("\n", 1)[0])

        def on_temp(self, line):
            self._ev("temp", line)

        def __getattr__(self, name):
            if name.startswith("on_"):
                return lambda *a: self._ev(name[3:])
            raise AttributeError(name)

    LINES = [b"ok\n", b"ok T:20 /0\n", b"start\n", b"Grbl 1.1f ['$']\n",
             b" T:19.5\n", b"wait\n", b"echo:busy\n", b"\n", b"", b"", b"",
             b"o", b"k", b"Error: x\n", b"Resend: 3\n", b"DEBUG_ x\n",
             b"\xff\xfe rubbish\n", b"ok \xc3\xa9\n", b"\xc3", None,
             "deverr", "valerr", "a str\n", 12, b"okay\r\n", b"T:\n", b"ok", b"k\n", b"\r\n",
             b"T:", b"rs", b"\xc3\xa9", b"\xc3\xa9\n"]

    def core_state(c):
        return {"online": c.online, "clear": rep(c.clear),
                "stop_read_thread": c.stop_read_thread,
                "send_line_numbers": c._send_line_numbers,
                "writefailures": c.writefailures,
                "log": list(c.log), "sent": list(c.sent),
                "lineno": c.lineno, "resendfrom": c.resendfrom,
                "printing": c.printing}

    def make_core(r, events, with_cb=True):
        c = printcore()
        c.port, c.baud = "/dev/fake", r.choice([9600, 115200, None])
        c.loud = r.random() < 0.5
        if with_cb and r.random() < 0.7:
            fail = r.random() < 0.3

            def recvcb(line, fail=fail):
                events.append(["recvcb", line])
                if fail:
                    raise KeyError("recvcb")
            c.recvcb = recvcb
        if with_cb and r.random() < 0.7:
            fail = r.random() < 0.3

            def onlinecb(fail=fail):
                events.append(["onlinecb"])
                if fail:
                    raise KeyError("onlinecb")
            c.onlinecb = onlinecb
        if with_cb and r.random() < 0.6:
            fail = r.random() < 0.3

            def errorcb(err, fail=fail):
                events.append(["errorcb", str(err).split("\n", 1)[0]])
                if fail:
                    raise KeyError("errorcb")
            c.errorcb = errorcb
        if with_cb and r.random() < 0.4:
            def sendcb(command, gline):
                events.append(["sendcb", command])
            c.sendcb = sendcb
        for _ in range(r.randint(0, 2)):
            c.addEventHandler(Handler(events, r, r.choice([0, 0, 0.3])))
        return c

    # B1: _readline on every kind of reply
    for i in range(300):
        r = random.Random(SEED * 7 + i)
        events = []
        c = make_core(r, events)
        replies = [r.choice(LINES) for _ in range(r.randint(1, 5))]
        no_printer = r.random() < 0.04
        c.printer = None if no_printer else ScriptedPrinter(replies)
        results = []
        for _ in range(len(replies) + 1):
            results.append(outcome(c._readline))
            results.append([c.stop_read_thread, len(c.log)])
        out.append(["B1", i, results, events, core_state(c), cap.take()])

    # B2: _listen_until_online (and _listen) on scripted conversations
    for i in range(350):
        r = random.Random(SEED * 11 + i)
        events = []
        c = make_core(r, events)
        mode = r.random()
        n = r.choice([0, 1, 2, 5, 14, 15, 16, 17, 31, 40])
        if mode < 0.35:        # silence, then maybe a greeting
            replies = [b""] * n + [r.choice(LINES) for _ in range(r.randint(0, 3))]
        elif mode < 0.5:       # near-silence interrupted by one char lines
            replies = [r.choice([b"", b"", b"", b"x", b"\n"]) for _ in range(n)]
            replies += [r.choice(LINES) for _ in range(r.randint(0, 3))]
        else:
            replies = [r.choice(LINES) for _ in range(r.randint(0, 12))]
        if r.random() < 0.3:
            c.greetings = r.choice([[], [""], ["wait"], ["echo", "Marlin"],
                                    ("start",), ["start", "Grbl ", "o"]])
        wf = set()
        if r.random() < 0.3:
            wf = set(range(r.randint(0, 2), r.randint(2, 8)))
        connected_reads = r.choice([None, None, None, 0, 1, 3, 20, 50])
        p = ScriptedPrinter(replies, flow=r.random() < 0.2, write_fail=wf,
                            connected_reads=connected_reads)
        c.printer = p
        if r.random() < 0.1:
            c.online = True
        if r.random() < 0.1:
            c.stop_read_thread = True
        if r.random() < 0.15:
            c.addEventHandler(Handler(events, r, 0, core=c,
                                      stop_after=r.randint(1, 3)))
        if r.random() < 0.1:
            c.writefailures = r.randint(1, 5)
        if connected_reads is None and r.random() < 0.2:
            # keeps the loop alive a bounded number of rounds on empty reads
            p.connected_reads = len(replies) + r.randint(0, 40)
        which = r.random()
        if which < 0.7:
            res = outcome(c._listen_until_online)
        else:
            if r.random() < 0.2:
                c.printing = True
            res = outcome(c._listen)
        out.append(["B2", i, res, rep(p.written), p.nreads, events,
                    core_state(c), cap.take()])

    # =======================================================================
    # C. Full stack, threaded: Device + patched serial.Serial + fake firmware
    # =======================================================================
    device_mod.Device._disable_ttyhup = lambda self: None

    class Firmware:
        """Checks N<k> <cmd>*<xor>; replies exactly one line per line read."""

        config = None

        def __init__(self, *a, **kw):
            self.kw = dict(kw)
            self.cfg = dict(Firmware.config)
            self.rng = random.Random(self.cfg["seed"])
            self.lat = random.Random(self.cfg["seed"] + 1)
            self.is_open = False
            self.port = kw.get("port")
            self.dtr = None
            self.replies = queue.Queue()
            self.writes = []
            self.accepted = []
            self.expected = 0
            self.probes = 0
            self.produced = 0
            self.consumed = 0
            self.corrupted = 0
            Firmware.last = self

        def open(self):
            self.is_open = True

        def close(self):
            self.is_open = False

        def _reply(self, text):
            self.produced += 1
            self.replies.put(text.encode() + b"\n")

        def readline(self):
            try:
                data = self.replies.get(timeout=0.004)
            except queue.Empty:
                return b""
            lat = self.lat.choice([0, 0, 0, 0.0005, 0.002, 0.006])
            if lat:
                time.sleep(lat)
            self.consumed += 1
            return data

        def write(self, data):
            self.writes.append(data)
            text = data.decode("utf-8").rstrip("\n")
            cfg = self.cfg
            if text == "G4 P0" and self.probes < len(cfg["greeting"]):
                answer = cfg["greeting"][self.probes]
                self.probes += 1
                if answer is not None:
                    self._reply(answer)
                return
            if text.startswith("N") and "*" in text:
                body, _, cs = text.rpartition("*")
                num, _, cmd = body[1:].partition(" ")
                n = int(num)
                x = 0
                for ch in body:
                    x ^= ord(ch)
                assert x == int(cs), ("bad checksum from host", text)
                if "M110" in cmd:
                    self.expected = n + 1
                    self._reply("ok")
                    return
                if self.rng.random() < cfg["corrupt_p"]:
                    self.corrupted += 1
                    fmt = self.rng.choice(cfg["resend_formats"])
                    self._reply(fmt % self.expected)
                    return
                if n != self.expected:
                    self._reply("Resend: %d" % self.expected)
                    return
                self.accepted.append(cmd)
                self.expected += 1
                self._reply(self.rng.choice(["ok", "ok", "ok T:20.1 /0.0"]))
                return
            self.accepted.append(text)
            self._reply("ok")

    serial.Serial = Firmware
    device_mod.serial.Serial = Firmware

    WORDS = ["G1 X%d Y%d", "G0 Z%d.5", "M104 S%d", "G92 E0", "G28",
             "M106 S%d ; fan", "; only a comment", "(paren) G1 X%d",
             "G1 X%d (mid) Y2 ; tail", "   G1 E%d   ", ";@custom host %d",
             "M117 caf\u00e9 %d", "", "   ", "T%d", "G4 P%d", ";", "( )"]

    def make_job(r):
        lines = []
        for _ in range(r.randint(0, 25)):
            w = r.choice(WORDS)
            lines.append(w % tuple(r.randint(0, 250)
                                   for _ in range(w.count("%d"))))
        return lines

    def wait_for(pred, timeout=30.0):
        end = time.time() + timeout
        while time.time() < end:
            if pred():
                return True
            time.sleep(0.002)
        return False

    for i in range(45):
        r = random.Random(SEED * 13 + i)
        grbl = r.random() < 0.15
        silent = r.choice([0, 0, 1, 2])
        greeting = [None] * silent + [
            "Grbl 1.1h ['$' for help]" if grbl
            else r.choice(["ok", "start", "ok T:21.0 /0.0", "echo: T:3"])]
        Firmware.config = {
            "seed": SEED + i,
            "greeting": greeting,
            "corrupt_p": r.choice([0, 0.1, 0.3, 0.6]),
            "resend_formats": r.choice([
                ["Resend: %d"], ["rs N%d Expected checksum 67"],
                ["Resend:%d", "resend N:%d", "rs %d", "Resend: N%d"]]),
        }
        events = []
        sends, recvs = [], []

        class H:
            def on_send(self, command, gline):
                sends.append(command)

            def on_recv(self, line):
                recvs.append(line)
                if len(recvs) % 7 == 3:
                    raise RuntimeError("flaky handler")

            def on_online(self):
                events.append("online")

            def __getattr__(self, name):
                if name.startswith("on_"):
                    return lambda *a: None
                raise AttributeError(name)

        c = printcore()
        c.addEventHandler(H())
        c.onlinecb = lambda: events.append("onlinecb")
        recvcb_lines = []
        c.recvcb = recvcb_lines.append
        c.loud = r.random() < 0.3
        job = make_job(r)
        rec = {"job": job, "cfg": Firmware.config}
        c.connect("/dev/ttyFAKE%d" % i, 115200)
        fw = Firmware.last
        rec["online"] = wait_for(lambda: c.online)
        idle = lambda: fw.produced == fw.consumed and fw.replies.empty()
        pre = ["M105", "G91"][:r.randint(0, 2)]
        for k, cmd in enumerate(pre):
            c.send_now(cmd)
            wait_for(lambda: len(fw.accepted) == k + 1 and idle())
        rec["pre_ok"] = list(fw.accepted) == pre
        fw.accepted.clear()
        wait_for(idle)
        time.sleep(0.01)
        rec["started"] = c.startprint(gcoder.GCode(job))
        if grbl:
            # no M110 is sent to Grbl, so nothing would clear the first send
            fw._reply("ok")
        rec["finished"] = wait_for(
            lambda: not c.printing and c.print_thread is None and idle())
        time.sleep(0.02)
        wait_for(idle)
        expected = []
        for raw in (l.strip() for l in job):
            if not raw or raw.lstrip().startswith(";@"):
                continue
            t = gcoder.gcode_strip_comment_exp.sub("", raw).strip()
            if t:
                expected.append(t)
        rec["writes"] = [w.decode("utf-8") for w in fw.writes]
        rec["accepted"] = list(fw.accepted)
        rec["property_holds"] = fw.accepted == expected
        assert rec["online"] and rec["started"] and rec["finished"], rec
        assert rec["property_holds"], (expected, fw.accepted)
        if not grbl:
            assert all(w.startswith(b"N") for w in fw.writes
                       if b"G4 P0" not in w and w.decode().strip() not in pre)
        rec["corrupted"] = fw.corrupted
        rec["state"] = {"lineno": c.lineno, "queueindex": c.queueindex,
                        "resendfrom": c.resendfrom, "printing": c.printing,
                        "paused": c.paused, "online": c.online,
                        "sentlines": rep(sorted(c.sentlines)),
                        "sent": list(c.sent), "clear": rep(c.clear),
                        "send_line_numbers": c._send_line_numbers,
                        "writefailures": c.writefailures}
        c.disconnect()
        rec["after_disconnect"] = [c.online, c.printing, rep(c.printer),
                                   fw.is_open]
        rec["sends"], rec["recvs"] = sends, recvs
        rec["recvcb"] = recvcb_lines
        rec["events"] = events
        logs = cap.take()
        rec["logs"] = {k: [x for x in v if x[0] != "DEBUG"]
                       for k, v in sorted(logs.items())}
        out.append(["C", i, rec])

    transcript["threads_left"] = sorted(
        t.name for t in threading.enumerate() if t is not threading.main_thread())
    sys.stdout.write(json.dumps({"tree": tree, "transcript": transcript},
                                sort_keys=True))
    sys.stdout.flush()


# ---------------------------------------------------------------------------
# Parent: run both trees and compare
# ---------------------------------------------------------------------------

def run(tree):
    env = dict(os.environ)
    env["PYTHONPATH"] = tree
    env["PYTHONHASHSEED"] = "0"
    env["PYTHONDONTWRITEBYTECODE"] = "1"
    proc = subprocess.run(
        [sys.executable, os.path.abspath(__file__), "--child"],
        env=env, stdin=subprocess.DEVNULL, stdout=subprocess.PIPE,
        stderr=subprocess.PIPE, timeout=600, cwd="/tmp")
    if proc.returncode != 0:
        sys.stderr.write(proc.stderr.decode()[-4000:])
        raise SystemExit("child for %s failed (%d)" % (tree, proc.returncode))
    data = json.loads(proc.stdout.decode())
    assert os.path.realpath(data["tree"]) == os.path.realpath(tree), \
        ("wrong tree imported", data["tree"], tree)
    return data["transcript"]


def main():
    results = {name: run(path) for name, path in TREES.items()}
    a, b = results["orig"], results["refactored"]
    sa, sb = a["scenarios"], b["scenarios"]
    assert len(sa) == len(sb), (len(sa), len(sb))
    bad = [(x[0], x[1]) for x, y in zip(sa, sb) if x != y]
    if bad:
        for x, y in zip(sa, sb):
            if x != y:
                print("FIRST DIFFERENCE", x[0], x[1])
                print(" orig      :", json.dumps(x)[:3000])
                print(" refactored:", json.dumps(y)[:3000])
                break
        raise SystemExit("transcripts differ in %d scenarios: %s"
                         % (len(bad), bad[:20]))
    assert a == b
    counts = {}
    for s in sa:
        counts[s[0]] = counts.get(s[0], 0) + 1
    outcomes = json.dumps(sa)
    print("scenarios per group:", counts)
    print("raise outcomes recorded:", outcomes.count('"raise"'),
          "| corrupted transmissions:",
          sum(s[2]["corrupted"] for s in sa if s[0] == "C"),
          "| streamed job lines accepted:",
          sum(len(s[2]["accepted"]) for s in sa if s[0] == "C"))
    print("threads left:", a["threads_left"])
    print("EQUIVALENT: transcripts identical (%d bytes)" % len(outcomes))


if __name__ == "__main__":
    if "--child" in sys.argv:
        try:
            child()
        except BaseException:
            # library threads are not daemons: never hang on a failure
            import traceback
            traceback.print_exc()
            sys.stderr.flush()
            os._exit(1)
        sys.stdout.flush()
        os._exit(0)
    else:
        main()
