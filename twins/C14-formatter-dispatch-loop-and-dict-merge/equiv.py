#!/usr/bin/env python
"""Differential check: /repo (original) vs /tmp/wtW-C14 (refactored).

Runs the same seeded scenarios in two subprocesses (one per tree), each
printing a JSON transcript, and asserts both transcripts are identical.
"""

import json
import os
import subprocess
import sys

TREES = {"orig": "/repo", "refactored": "/tmp/wtW-C14"}
SEED = 20261005


# --------------------------------------------------------------------------
# Worker (runs inside one tree)
# --------------------------------------------------------------------------

def worker():
    import io
    import logging
    import random
    import tempfile

    import gscrib
    from gscrib import GCodeCore, GCodeBuilder
    from gscrib.config import GConfig
    from gscrib.formatters import DefaultFormatter
    from gscrib.writers import BaseWriter, FileWriter, LogWriter

    assert os.path.dirname(os.path.dirname(gscrib.__file__)) == os.environ["EXPECT_TREE"], gscrib.__file__

    logging.disable(logging.NOTSET)
    rng = random.Random(SEED)
    out = []

    def exc_repr(e):
        name = type(e).__name__
        if isinstance(e, OSError):
            return [name]
        cause = type(e.__cause__).__name__ if e.__cause__ is not None else None
        msg = str(e)
        if "TypeCheck" in name:
            msg = msg[:60]
        return [name, msg, cause]

    def attempt(label, fn):
        try:
            value = fn()
            out.append([label, "ok", repr(value)])
            return value
        except BaseException as e:  # noqa
            out.append([label, "exc"] + exc_repr(e))
            return None

    class Recorder(BaseWriter):
        def __init__(self, name, fail_at=None, eq_log=None):
            self.name = name
            self.lines = []
            self.events = []
            self.fail_at = fail_at

        def connect(self):
            self.events.append("connect")
            return self

        def disconnect(self, wait=True):
            self.events.append(["disconnect", wait])

        def write(self, statement):
            self.events.append(["write", type(statement).__name__, statement.hex()])
            if self.fail_at is not None and len(self.lines) == self.fail_at:
                self.lines.append(None)
                raise RuntimeError("boom %s" % self.name)
            self.lines.append(statement.hex())

        def flush(self):
            self.events.append("flush")

        def __repr__(self):
            return "<Recorder %s>" % self.name

    class EqWriter(Recorder):
        """Equal to every other EqWriter; counts comparisons."""
        count = 0

        def __eq__(self, other):
            EqWriter.count += 1
            return isinstance(other, EqWriter)

        __hash__ = None

    TEXTS = [
        "", " ", "hello", "héllo wörld ✓", "a\nb", "a\r\nb\rc", "x ) y", "x */ y",
        "tab\tend\t", "trailing   ", "\n", "{}", "{0}", "%s %d", "日本語", "a\x0bb\x0cc",
        "line sep", "] } > \" '", "  lead", "G1 X10 ; c", "(nested (c))",
    ]
    SYMBOLS = [";", "(", "[", "{", "<", '"', "'", "/*", "//", "#", " ; ", "", "  ", ";;", "%"]
    ENDINGS = ["os", "\\n", "\\r\\n", "\n", "", " ", "\\t|\\n", "\\x41", "é\\n", "OS", "\\"]
    LABELS = ["X", "a", " b ", "", "  ", "xy", "é", "Y"]
    KEYS = ["tool", "tool_diameter", "_x", "é", "1abc", "", "a b", "a-b", "class", "x1", "{}"]

    def rand_text():
        if rng.random() < 0.7:
            return rng.choice(TEXTS)
        return "".join(rng.choice("ab )]}>*/\n\r\t;é✓{}%") for _ in range(rng.randint(0, 12)))

    # ---------------------------------------------------------------- 1
    # Formatter directly
    for i in range(150):
        f = DefaultFormatter()
        attempt("f.sym", lambda: f.set_comment_symbols(rng.choice(SYMBOLS)))
        attempt("f.end", lambda: f.set_line_endings(rng.choice(ENDINGS)))
        for _ in range(4):
            t = rand_text()
            attempt("f.line", lambda: f.line(t))
            attempt("f.comment", lambda: f.comment(t))
            attempt("f.sanitize", lambda: f._sanitize_comment(t))
        out.append(["f.state", f._line_endings, f._comment_template, f._comment_ending])
    f = DefaultFormatter()
    for bad in (None, 5, b"x", ["a"], 1.5):
        attempt("f.line.bad", lambda: f.line(bad))
        attempt("f.comment.bad", lambda: f.comment(bad))
    for odd in (None, 7, b"\n"):
        f = DefaultFormatter()
        f._line_endings = odd
        attempt("f.line.odd_endings", lambda: f.line("G1 X1  "))

    # ---------------------------------------------------------------- 2
    # LogWriter
    class ListHandler(logging.Handler):
        def __init__(self):
            super().__init__()
            self.records = []

        def emit(self, record):
            self.records.append([record.levelname, record.getMessage()])

    lw = LogWriter()
    handler = ListHandler()
    lw.get_logger().addHandler(handler)
    lw.get_logger().propagate = False
    for level in ["info", "INFO", "debug", "Warning", "error", 10, 20, 30, 0, "nope", "", None,
                  1.5, True, b"info", [], "critical", "notset"]:
        attempt("lw.set_level", lambda: lw.set_level(level))
        out.append(["lw.level", lw.get_logger().level])
        attempt("lw.write", lambda: lw.write(b"G1 X1 \r\n"))
    out.append(["lw.records", handler.records])
    lw.get_logger().removeHandler(handler)
    lw.get_logger().setLevel(logging.NOTSET)

    # ---------------------------------------------------------------- 3
    # Construction variants
    def rand_kwargs():
        kw = {}
        if rng.random() < 0.5:
            kw["comment_symbols"] = rng.choice(SYMBOLS)
        if rng.random() < 0.5:
            kw["line_endings"] = rng.choice(ENDINGS)
        if rng.random() < 0.4:
            kw["decimal_places"] = rng.choice([0, 1, 5, 12, -1, "3", None, 2.0, True])
        for ax in ("x_axis", "y_axis", "z_axis"):
            if rng.random() < 0.3:
                kw[ax] = rng.choice(LABELS)
        if rng.random() < 0.1:
            kw["bogus_option"] = 1
        if rng.random() < 0.1:
            kw["direct_write"] = rng.choice(["off", "bogus", None])
        if rng.random() < 0.1:
            kw["print_lines"] = rng.choice([False, "x", 0])
        return kw

    def describe(g):
        fmt = g.format
        return [
            type(g).__name__, len(g._writers),
            fmt._line_endings, fmt._comment_template, fmt._comment_ending,
            fmt._decimal_places, sorted(fmt._labels.items()),
        ]

    for i in range(220):
        cls = rng.choice([GCodeCore, GCodeBuilder])
        kw = rand_kwargs()
        over = rand_kwargs() if rng.random() < 0.5 else {}
        style = rng.choice(["kw", "dict", "config", "dict+kw", "config+kw", "odd", "two", "dictsub", "badkeys"])
        def build():
            if style == "kw":
                return cls(**kw)
            if style == "dict":
                return cls(kw)
            if style == "config":
                return cls(GConfig(**kw))
            if style == "dict+kw":
                return cls(kw, **over)
            if style == "config+kw":
                return cls(GConfig(**kw), **over)
            if style == "odd":
                return cls(rng.choice([None, 0, 5, "x", [], (), [("output", None)], 1.5, False]), **over)
            if style == "two":
                return cls(kw, GConfig(), **over)
            if style == "dictsub":
                import collections
                sub = rng.choice([collections.OrderedDict, collections.Counter, lambda d: collections.defaultdict(int, d)])
                return cls(sub(kw), **over)
            if style == "badkeys":
                return cls({1: 2, **kw}, **over)
        g = attempt("ctor.%s" % style, lambda: describe(build()))

    # ---------------------------------------------------------------- 4
    # Histories over writer mixes
    tmp = tempfile.mkdtemp(prefix="equiv")

    for h in range(160):
        cls = rng.choice([GCodeCore, GCodeBuilder])
        kw = {
            "comment_symbols": rng.choice([";", "(", "[", "/*", "//", "#", '"']),
            "line_endings": rng.choice(ENDINGS[:9]),
        }
        path = None
        if rng.random() < 0.5:
            path = os.path.join(tmp, "h%d" % h, "sub", "out.gcode")
            kw["output"] = path
        elif rng.random() < 0.3:
            kw["output"] = io.StringIO(newline="")
        name = attempt("h.ctor", lambda: type(cls(**kw) if rng.random() < 0.7 else cls(kw)).__name__)
        if name is None:
            continue
        g = cls(**kw)
        recs = [Recorder("r%d" % i, fail_at=rng.choice([None, None, None, 2])) for i in range(3)]
        eqs = [EqWriter("e0"), EqWriter("e1")]
        text_io = io.StringIO(newline="")
        bin_io = io.BytesIO()
        path2 = os.path.join(tmp, "h%d" % h, "second.gcode")
        pool = recs + eqs + [FileWriter(text_io), FileWriter(bin_io), FileWriter(path2), LogWriter()]
        junk = [None, "writer", 5, object(), Recorder]

        def snapshot(tag):
            g.flush()
            files = []
            for p in (path, path2):
                if p and os.path.exists(p):
                    with open(p, "rb") as fh:
                        files.append(fh.read().hex())
                else:
                    files.append(None)
            out.append([tag, [repr(type(w).__name__) for w in g._writers], files,
                        text_io.getvalue(), bin_io.getvalue().hex(),
                        [r.lines for r in recs + eqs], EqWriter.count])

        for step in range(rng.randint(5, 25)):
            op = rng.choice(["add", "add", "remove", "write", "write", "comment", "comment",
                             "annotate", "annotate", "move", "flush", "get", "junk", "teardown", "snap"])
            if op == "add":
                w = rng.choice(pool)
                attempt("add", lambda: g.add_writer(w))
            elif op == "remove":
                w = rng.choice(pool)
                attempt("remove", lambda: g.remove_writer(w))
            elif op == "junk":
                j = rng.choice(junk)
                attempt("add.junk", lambda: g.add_writer(j))
                attempt("remove.junk", lambda: g.remove_writer(j))
            elif op == "write":
                t = rng.choice([rand_text(), "G1 X%d Y%.3f" % (rng.randint(-9, 9), rng.random()), None, 5, b"G1"])
                attempt("write", lambda: g.write(t))
            elif op == "comment":
                t = rand_text()
                extra = rng.choice([(), (1,), ("a", 2.5, None), ("é\n",), ([1, 2],)])
                attempt("comment", lambda: g.comment(t, *extra))
                if rng.random() < 0.1:
                    attempt("comment.bad", lambda: g.comment(rng.choice([None, 5, b"x"])))
            elif op == "annotate":
                k = rng.choice(KEYS + [None, 5])
                v = rng.choice(TEXTS + [None, 3, "3.175 mm", "{} {0} %s"])
                attempt("annotate", lambda: g.annotate(k, v))
            elif op == "move":
                attempt("move", lambda: g.move(x=rng.randint(-5, 5), y=rng.random()))
                attempt("rapid", lambda: g.rapid(z=rng.choice([0, -0.0, 1.25, 3])))
                out.append(["pos", repr(g.position)])
            elif op == "flush":
                attempt("flush", lambda: g.flush())
            elif op == "get":
                i = rng.choice([0, 1, -1, 7, "0", None])
                attempt("get", lambda: repr(type(g.get_writer(i)).__name__))
            elif op == "teardown":
                wait = rng.choice([True, False, None, 1])
                attempt("teardown", lambda: g.teardown(wait))
                out.append(["after.teardown", len(g._writers), [r.events[-1:] for r in recs]])
            elif op == "snap":
                attempt("snap", lambda: snapshot("snap"))
        attempt("final.snap", lambda: snapshot("final"))
        if rng.random() < 0.5:
            attempt("ctx", lambda: g.__exit__(None, None, None))
        else:
            attempt("teardown", lambda: g.teardown())
        files = []
        for p in (path, path2):
            if p and os.path.exists(p):
                with open(p, "rb") as fh:
                    files.append(fh.read().hex())
            else:
                files.append(None)
        out.append(["end", len(g._writers), files, text_io.getvalue(), bin_io.getvalue().hex(),
                    [r.events for r in recs + eqs], EqWriter.count])

    json.dump(out, sys.stdout, ensure_ascii=True)


# --------------------------------------------------------------------------
# Driver
# --------------------------------------------------------------------------

def run_tree(name, tree):
    env = dict(os.environ)
    env["PYTHONPATH"] = tree
    env["EXPECT_TREE"] = tree
    env["PYTHONDONTWRITEBYTECODE"] = "1"
    env["PYTHONHASHSEED"] = "0"
    proc = subprocess.run(
        [sys.executable, os.path.abspath(__file__), "worker"],
        env=env, cwd="/tmp/twin4-C14", stdin=subprocess.DEVNULL,
        stdout=subprocess.PIPE, stderr=subprocess.PIPE, timeout=600,
    )
    if proc.returncode != 0:
        sys.stderr.write(proc.stderr.decode("utf-8", "replace")[-4000:])
        raise SystemExit("worker for %s failed" % name)
    return json.loads(proc.stdout.decode("utf-8"))


def main():
    transcripts = {name: run_tree(name, tree) for name, tree in TREES.items()}
    a, b = transcripts["orig"], transcripts["refactored"]
    for i, (x, y) in enumerate(zip(a, b)):
        if x != y:
            print("MISMATCH at entry", i)
            print(" orig      :", x)
            print(" refactored:", y)
            raise SystemExit(1)
    assert len(a) == len(b), (len(a), len(b))
    kinds = {}
    for entry in a:
        key = (entry[0], entry[1]) if len(entry) > 1 and entry[1] in ("ok", "exc") else (entry[0], "rec")
        kinds[key] = kinds.get(key, 0) + 1
    print("entries compared:", len(a))
    for key in sorted(kinds):
        print("  %-22s %-4s %d" % (key[0], key[1], kinds[key]))
    print("IDENTICAL")


if __name__ == "__main__":
    if len(sys.argv) > 1 and sys.argv[1] == "worker":
        worker()
    else:
        main()
