#!/usr/bin/env python
"""Differential check for the C17 refactoring (Device._readline_socket & co).

Parent mode (no args): runs this same file as a worker in two subprocesses,
one with PYTHONPATH=/repo and one with PYTHONPATH=/tmp/wtT-C17, and asserts
that the transcripts are byte-identical.  Exits 0 on success.

Worker mode (--worker): drives gscrib.printrun.device.Device.readline() over
in-process fakes (scripted file object + scripted selector) and over local
socketpairs, and prints a transcript of everything observable.
"""

import os
import subprocess
import sys

TREES = {"orig": "/repo", "twin": "/tmp/wtT-C17"}
SEED = 170017
N_FAKE = 600
N_SOCKETPAIR = 40


# --------------------------------------------------------------------------
# worker
# --------------------------------------------------------------------------
def worker():
    import random
    import socket
    import selectors

    import gscrib.printrun.device as devmod
    from gscrib.printrun.device import Device, DeviceError

    out = []

    def emit(*items):
        out.append(" ".join(str(i) for i in items))

    emit("module", os.path.dirname(os.path.dirname(os.path.dirname(
        os.path.abspath(devmod.__file__)))) in TREES.values())
    emit("consts", repr(devmod.READ_EMPTY), repr(devmod.READ_EOF))

    class Boom(Exception):
        pass

    EXC = {
        "OSError": lambda: OSError(5, "io"),
        "ConnectionResetError": lambda: ConnectionResetError(104, "reset"),
        "BlockingIOError": lambda: BlockingIOError(11, "again"),
        "timeout": lambda: socket.timeout("timed out"),
        "ValueError": lambda: ValueError("closed file"),
        "Boom": lambda: Boom("boom"),
    }

    class FakeFile:
        """Scripted raw socket file: items are returned/raised in order."""

        def __init__(self, script, log):
            self.script = list(script)
            self.log = log

        def read(self, size=-1):
            self.log.append(("read", size))
            if not self.script:
                return b""
            kind, val = self.script.pop(0)
            if kind == "raise":
                raise EXC[val]()
            return val

    class FakeSelector:
        def __init__(self, script, log):
            self.script = list(script)
            self.log = log

        def select(self, timeout=None):
            self.log.append(("select", timeout))
            if not self.script:
                return []
            kind, val = self.script.pop(0)
            if kind == "raise":
                raise EXC[val]()
            return val

    def show(x):
        # address-free rendering (memoryview reprs contain an address)
        if isinstance(x, memoryview):
            return "memoryview(%r)" % bytes(x)
        return repr(x)

    def state(dev):
        return ([show(x) for x in dev._read_buffer], dev._is_connected, dev.is_connected,
                dev.has_flow_control)

    def call_readline(dev, log):
        del log[:]
        try:
            res = dev.readline()
            desc = ("ret", type(res).__name__, repr(res))
        except DeviceError as e:
            desc = ("DeviceError", repr(str(e)), type(e.cause).__name__,
                    type(e.__cause__).__name__, e.cause is e.__cause__)
            res = "exc"
        except BaseException as e:  # noqa
            desc = ("exc", type(e).__name__, repr(str(e)))
            res = "exc"
        emit("  call", desc, "io", list(log), "state", state(dev))
        return res

    def new_device(rng):
        host = rng.choice(["localhost", "10.0.0.7", "printer.local", None])
        port = rng.choice([23, 8080, 65535, None])
        if rng.random() < 0.5 and host is not None and port is not None:
            dev = Device("%s:%s" % (host, port))
        else:
            dev = Device()
            dev._type = "socket"
            dev._hostname = host
            dev._port_number = port
        dev._device = object()
        dev._is_connected = True
        dev._timeout = rng.choice([0.25, 0, 0.01, None])
        return dev

    def rand_stream(rng):
        mode = rng.randrange(6)
        n = rng.choice([0, 1, 2, 5, 40, 255, 256, 257, 700, 1500])
        if mode == 0:
            return bytes(rng.randrange(256) for _ in range(n))
        if mode == 1:
            return bytes(rng.choice(b"\n\r ok") for _ in range(n))
        if mode == 2:
            return b"\n" * n
        if mode == 3:
            return bytes(rng.choice(b"abcXYZ0123") for _ in range(n))
        if mode == 4:
            lines = [b"ok T:%d\n" % rng.randrange(300)
                     for _ in range(rng.randrange(30))]
            tail = rng.choice([b"", b"tail", b"\r"])
            return b"".join(lines) + tail
        return b"".join(rng.choice([b"\r\n", b"\n\n", b"x", b"\n", b"echo:"])
                        for _ in range(n % 300))

    def fragment(rng, stream):
        chunks = []
        i = 0
        style = rng.randrange(4)
        while i < len(stream):
            if style == 0:
                k = rng.randint(1, 256)
            elif style == 1:
                k = rng.randint(1, 3)
            elif style == 2:
                k = 256
            else:
                k = rng.choice([1, 2, 255, 256, rng.randint(1, 256)])
            chunks.append(stream[i:i + k])
            i += k
        return chunks

    rng = random.Random(SEED)

    # ---- part 1: scripted fakes -------------------------------------------
    for case in range(N_FAKE):
        flavour = rng.choice(["valid", "valid", "valid", "errors", "weird"])
        stream = rand_stream(rng)
        chunks = fragment(rng, stream)
        fscript = []   # file script
        sscript = []   # selector script
        valid = flavour == "valid"
        for c in chunks:
            # any number of 'no data yet' results before each chunk
            while rng.random() < 0.35:
                fscript.append(("ret", None))
                r = rng.random()
                if r < 0.5:
                    sscript.append(("ret", []))          # select times out
                elif r < 0.8:
                    sscript.append(("ret", [("key", 1)]))  # readable
                    if rng.random() < 0.3:
                        fscript.append(("ret", None))    # spurious wakeup
                    else:
                        break
                else:
                    sscript.append(("ret", ()))
            if flavour == "errors" and rng.random() < 0.08:
                fscript.append(("raise", rng.choice(sorted(EXC))))
                valid = False
            if flavour == "errors" and rng.random() < 0.05:
                fscript.append(("ret", None))
                sscript.append(("raise", rng.choice(sorted(EXC))))
                valid = False
            if flavour == "weird" and rng.random() < 0.1:
                fscript.append(("ret", rng.choice(
                    [bytearray(c), bytearray(), 0, 5, "text\n", "", (),
                     (b"a\n",), memoryview(c), False, True, [], [b"\n"]])))
                valid = False
                continue
            fscript.append(("ret", c))
        if rng.random() < 0.3:
            fscript.append(("ret", None))
        fscript.append(("ret", b""))  # peer closes
        if rng.random() < 0.3:
            # data after a first EOF marker (must behave identically too)
            fscript.append(("ret", b"late\nmore"))
            valid = False

        dev = new_device(rng)
        log = []
        dev._socketfile = FakeFile(fscript, log)
        dev._selector = FakeSelector(sscript, log)
        if rng.random() < 0.15:
            # pre-seeded buffer, as left behind by earlier reads
            dev._read_buffer = rng.choice(
                [[b"abc"], [b"ab", b"c\nd\ne"], [b"\n"], [b"x\n", b"y"]])
            valid = False
        if rng.random() < 0.03:
            dev._device = None  # disconnected: readline must raise
            valid = False
        emit("case", case, flavour, len(stream), len(fscript), len(sscript),
             dev._hostname, dev._port_number, dev._timeout)
        got = []
        budget = len(fscript) + stream.count(b"\n") + 8
        eofs = 0
        while budget > 0 and eofs < 2:
            budget -= 1
            res = call_readline(dev, log)
            if res is None:
                eofs += 1
            elif isinstance(res, (bytes, bytearray)) and res:
                got.append(bytes(res))
        emit("  left", len(dev._socketfile.script), len(dev._selector.script))
        if valid:
            # sanity: the property itself holds in both trees
            joined = b"".join(got)
            ok = (joined == stream and
                  all(g.endswith(b"\n") and g.count(b"\n") == 1
                      for g in got[:-1]) and
                  all(g.count(b"\n") <= 1 for g in got))
            emit("  property", ok)
            assert ok, ("property violated", case, stream[:80], got[:6], len(got))

    # ---- part 2: direct calls to the private buffer helper ----------------
    for case in range(200):
        dev = Device()
        n = rng.randrange(4)
        buf = [bytes(rng.choice(b"ab\n") for _ in range(rng.randrange(5)))
               for _ in range(n)]
        if rng.random() < 0.1:
            buf.append(rng.choice(["s\n", 7, None, bytearray(b"q\nr")]))
        dev._read_buffer = list(buf)
        try:
            res = ("ret", repr(dev._readline_buf()))
        except BaseException as e:  # noqa
            res = ("exc", type(e).__name__)
        emit("buf", case, repr(buf), res, repr(dev._read_buffer))

    # ---- part 3: real in-process socketpairs ------------------------------
    for case in range(N_SOCKETPAIR):
        stream = rand_stream(rng)
        chunks = fragment(rng, stream)
        a, b = socket.socketpair()
        dev = Device("localhost:9999")
        a.settimeout(0)
        dev._device = a
        dev._socketfile = a.makefile("rwb", buffering=0)
        dev._selector = selectors.DefaultSelector()
        dev._selector.register(a, selectors.EVENT_READ)
        dev._is_connected = True
        dev._timeout = 0.01
        emit("sockcase", case, len(stream), len(chunks))
        got = []

        def rd():
            try:
                res = dev.readline()
                emit("  sock", type(res).__name__, repr(res),
                     repr(dev._read_buffer), dev.is_connected)
                if res:
                    got.append(res)
                return res
            except BaseException as e:  # noqa
                emit("  sockexc", type(e).__name__, repr(str(e)),
                     repr(dev._read_buffer), dev.is_connected)
                return "exc"

        for c in chunks:
            b.sendall(c)
            for _ in range(rng.randrange(3)):
                rd()
        hard = rng.random() < 0.2
        b.close()
        for _ in range(len(stream) + 5):
            if rd() in (None, "exc"):
                break
        rd()
        if not hard:
            ok = b"".join(got) == stream
            emit("  sockproperty", ok)
            assert ok
        try:
            dev.disconnect()
            emit("  disconnected", dev.is_connected)
        except BaseException as e:  # noqa
            emit("  disconnect-exc", type(e).__name__)

    # ---- part 4: API surface ---------------------------------------------
    emit("attrs", sorted(n for n in dir(Device) if not n.startswith("_")))

    sys.stdout.write("\n".join(out) + "\n")


# --------------------------------------------------------------------------
# parent
# --------------------------------------------------------------------------
def main():
    transcripts = {}
    for name, path in TREES.items():
        env = dict(os.environ)
        env["PYTHONPATH"] = path
        env["PYTHONHASHSEED"] = "0"
        proc = subprocess.run(
            [sys.executable, os.path.abspath(__file__), "--worker"],
            env=env, cwd="/tmp", stdin=subprocess.DEVNULL,
            stdout=subprocess.PIPE, stderr=subprocess.PIPE, timeout=600)
        if proc.returncode != 0:
            sys.stderr.write(proc.stderr.decode(errors="replace"))
            raise SystemExit("worker for %s failed (%d)"
                             % (name, proc.returncode))
        transcripts[name] = proc.stdout.decode()

    a = transcripts["orig"].splitlines()
    b = transcripts["twin"].splitlines()
    assert a[0] == "module True" and b[0] == "module True", (a[0], b[0])
    for i, (x, y) in enumerate(zip(a, b)):
        if x != y:
            print("first difference at transcript line", i)
            print("orig:", x[:2000])
            print("twin:", y[:2000])
            raise SystemExit(1)
    assert len(a) == len(b), (len(a), len(b))
    calls = sum(1 for x in a if x.startswith("  call"))
    excs = sum(1 for x in a if x.startswith("  call ('DeviceError'")
               or x.startswith("  call ('exc'"))
    props = sum(1 for x in a if x.startswith("  property True"))
    print("transcripts identical: %d lines, %d fake cases, %d readline calls "
          "(%d raising), %d property-checked cases, %d socketpair cases"
          % (len(a), N_FAKE, calls, excs, props, N_SOCKETPAIR))


if __name__ == "__main__":
    if "--worker" in sys.argv:
        worker()
    else:
        main()
