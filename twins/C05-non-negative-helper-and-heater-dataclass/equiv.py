#!/venv/bin/python
"""Differential check for the C05 refactoring (GState guards/validators,
GCodeBuilder temperature setters).

Runs the same seeded scenarios against /repo and /tmp/wtW-C05 in separate
subprocesses and asserts that the transcripts are identical.
"""

import json
import os
import subprocess
import sys

TREES = {"orig": "/repo", "refactored": "/tmp/wtW-C05"}
SEED = 50505
SCENARIOS = 400
OPS_PER_SCENARIO = 14


def child() -> None:
    import math
    import random
    import numpy as np
    import gscrib
    from gscrib import GCodeBuilder
    from gscrib.writers import BaseWriter
    from gscrib.enums import (
        HaltMode, CoolantMode, SpinMode, PowerMode, ToolSwapMode,
        TemperatureUnits, DistanceMode,
    )

    assert os.path.dirname(os.path.dirname(gscrib.__file__)) == os.environ["EXPECT_TREE"]

    class Recorder(BaseWriter):
        def __init__(self):
            self.lines = []
        def connect(self):
            return self
        def disconnect(self, wait=True):
            pass
        def write(self, statement):
            self.lines.append(statement.decode("utf-8", "replace"))

    rng = random.Random(SEED)

    STATE_PROPS = (
        "position", "is_coolant_active", "is_tool_active", "tool_number",
        "tool_power", "feed_rate", "spin_mode", "power_mode", "coolant_mode",
        "distance_mode", "extrusion_mode", "feed_mode", "tool_swap_mode",
        "halt_mode", "length_units", "time_units", "temperature_units",
        "plane", "direction", "resolution", "target_hotend_temperature",
        "target_bed_temperature", "target_chamber_temperature",
    )

    def snapshot(g):
        snap = {name: repr(getattr(g.state, name)) for name in STATE_PROPS}
        snap["types"] = [
            type(g.state.is_coolant_active).__name__,
            type(g.state.is_tool_active).__name__,
            type(g.state.tool_power).__name__,
            type(g.state.feed_rate).__name__,
            type(g.state.tool_number).__name__,
        ]
        snap["b.position"] = repr(g.position)
        snap["b.distance_mode"] = repr(g.distance_mode)
        snap["b.params"] = repr(dict(g._current_params))
        snap["s.params"] = repr(dict(g.state._current_params))
        snap["F"] = repr(g.get_parameter("F"))
        snap["S"] = repr(g.get_parameter("S"))
        return snap

    NUMBERS = [
        0, 0.0, -0.0, 1, 2, 7, 12, 99, 100, 1000, 12345, 0.5, 59.99, 60,
        200, 200.0, 250.5, 300, 1e9, 1e-9, -1, -0.5, -1e-12, -273.15,
        float("nan"), float("inf"), float("-inf"), True, False,
        np.float64(20.5), np.float64(-3.0), np.float64("nan"),
        np.float32(5.0), np.int64(4), np.int64(-4),
    ]
    JUNK = [None, "12", "", [1], (1, 2), {"a": 1}, 1 + 2j, b"5", object]

    def number():
        if rng.random() < 0.15:
            return rng.choice(JUNK)
        if rng.random() < 0.5:
            return rng.choice(NUMBERS)
        return round(rng.uniform(-50, 400), rng.choice((0, 1, 3)))

    def enum_value(enum, junk=("nope", "", None, 3)):
        r = rng.random()
        member = rng.choice(list(enum))
        if r < 0.6:
            return member
        if r < 0.8:
            return member.value
        if r < 0.9:
            return str(member.value).upper()
        return rng.choice(junk)

    BOUND_NAMES = [
        "bed-temperature", "chamber-temperature", "hotend-temperature",
        "feed-rate", "tool-number", "tool-power", "unknown", "axes",
    ]

    def make_op(g):
        kind = rng.choice((
            "bed", "hotend", "chamber", "bed", "hotend", "chamber",
            "temp_units", "bounds", "tool_change", "tool_change",
            "coolant_on", "coolant_off", "tool_on", "tool_off",
            "power_on", "power_off", "halt", "halt", "feed", "power",
            "move", "s_validate_feed", "s_validate_power", "s_set_halt",
            "s_set_coolant", "s_set_tool_number", "s_set_feed",
            "s_set_power", "s_validate_tool_number", "pause", "stop",
        ))
        s = g.state
        if kind == "bed":
            v = number(); return (kind, v), lambda: g.set_bed_temperature(v)
        if kind == "hotend":
            v = number(); return (kind, v), lambda: g.set_hotend_temperature(v)
        if kind == "chamber":
            v = number(); return (kind, v), lambda: g.set_chamber_temperature(v)
        if kind == "temp_units":
            v = enum_value(TemperatureUnits)
            return (kind, v), lambda: g.set_temperature_units(v)
        if kind == "bounds":
            name = rng.choice(BOUND_NAMES)
            lo, hi = sorted(rng.sample([0, 1, 2, 5, 10, 60, 100, 250, 1000], 2))
            if rng.random() < 0.1:
                lo, hi = hi, lo
            return (kind, name, lo, hi), lambda: g.set_bounds(name, lo, hi)
        if kind == "tool_change":
            m = enum_value(ToolSwapMode)
            n = rng.choice([0, 1, 2, 3, 9, 10, 42, 100, 12345, -1, True,
                            1.0, 2.5, "3", None, np.int64(3)])
            return (kind, m, n), lambda: g.tool_change(m, n)
        if kind == "coolant_on":
            m = enum_value(CoolantMode)
            return (kind, m), lambda: g.coolant_on(m)
        if kind == "coolant_off":
            return (kind,), g.coolant_off
        if kind == "tool_on":
            m = enum_value(SpinMode); v = number()
            return (kind, m, v), lambda: g.tool_on(m, v)
        if kind == "tool_off":
            return (kind,), g.tool_off
        if kind == "power_on":
            m = enum_value(PowerMode); v = number()
            return (kind, m, v), lambda: g.power_on(m, v)
        if kind == "power_off":
            return (kind,), g.power_off
        if kind == "halt":
            m = enum_value(HaltMode)
            kw = {}
            if rng.random() < 0.5:
                kw[rng.choice("SRsr")] = number()
            return (kind, m, kw), lambda: g.halt(m, **kw)
        if kind == "feed":
            v = number(); return (kind, v), lambda: g.set_feed_rate(v)
        if kind == "power":
            v = number(); return (kind, v), lambda: g.set_tool_power(v)
        if kind == "move":
            kw = {"x": rng.randint(-5, 50), "y": rng.randint(-5, 50)}
            if rng.random() < 0.6:
                kw["F"] = number()
            if rng.random() < 0.4:
                kw["S"] = number()
            return (kind, kw), lambda: g.move(**kw)
        if kind == "s_validate_feed":
            v = number(); return (kind, v), lambda: s._validate_feed_rate(v)
        if kind == "s_validate_power":
            v = number(); return (kind, v), lambda: s._validate_tool_power(v)
        if kind == "s_validate_tool_number":
            v = number(); return (kind, v), lambda: s._validate_tool_number(v)
        if kind == "s_set_feed":
            v = number(); return (kind, v), lambda: s._set_feed_rate(v)
        if kind == "s_set_power":
            v = number(); return (kind, v), lambda: s._set_tool_power(v)
        if kind == "s_set_halt":
            m = rng.choice(list(HaltMode) + ["off", None])
            return (kind, m), lambda: s._set_halt_mode(m)
        if kind == "s_set_coolant":
            m = rng.choice(list(CoolantMode) + ["off", None])
            return (kind, m), lambda: s._set_coolant_mode(m)
        if kind == "s_set_tool_number":
            m = rng.choice(list(ToolSwapMode) + ["off"])
            n = rng.choice([0, 1, 5, -2, 77, 2.0, True, None])
            return (kind, m, n), lambda: s._set_tool_number(m, n)
        if kind == "pause":
            v = rng.random() < 0.5; return (kind, v), lambda: g.pause(v)
        if kind == "stop":
            v = rng.random() < 0.5; return (kind, v), lambda: g.stop(v)
        raise AssertionError(kind)

    transcript = []
    counts = {"ok": 0, "raised": 0}

    for scenario in range(SCENARIOS):
        g = GCodeBuilder()
        first, second = Recorder(), Recorder()
        g.add_writer(first)
        g.add_writer(second)
        record = [snapshot(g)]

        for _ in range(OPS_PER_SCENARIO):
            label, call = make_op(g)
            before = (len(first.lines), len(second.lines))
            try:
                outcome = ["ok", repr(call())]
                counts["ok"] += 1
            except Exception as error:  # pylint: disable=broad-except
                outcome = ["raised", type(error).__name__, str(error)]
                counts["raised"] += 1
            record.append({
                "op": repr(label),
                "outcome": outcome,
                "emitted": [first.lines[before[0]:], second.lines[before[1]:]],
                "state": snapshot(g),
            })

        transcript.append(record)

    json.dump({"counts": counts, "transcript": transcript}, sys.stdout)


def main() -> int:
    outputs = {}

    for label, tree in TREES.items():
        env = dict(os.environ, PYTHONPATH=tree, EXPECT_TREE=tree,
                   PYTHONHASHSEED="0", PYTHONDONTWRITEBYTECODE="1")
        done = subprocess.run(
            [sys.executable, os.path.abspath(__file__), "--child"],
            env=env, cwd="/tmp", stdin=subprocess.DEVNULL,
            capture_output=True, text=True, timeout=600, check=False)
        if done.returncode != 0:
            print(done.stderr[-4000:])
            print(f"child for {label} failed")
            return 2
        outputs[label] = json.loads(done.stdout)

    orig, new = outputs["orig"], outputs["refactored"]
    print("orig counts:", orig["counts"], " refactored counts:", new["counts"])

    for index, (a, b) in enumerate(zip(orig["transcript"], new["transcript"], strict=True)):
        for step, (x, y) in enumerate(zip(a, b, strict=True)):
            if x != y:
                print(f"MISMATCH scenario {index} step {step}")
                print(" orig:", json.dumps(x)[:2000])
                print(" new :", json.dumps(y)[:2000])
                return 1

    assert orig == new
    steps = sum(len(r) - 1 for r in orig["transcript"])
    print(f"identical transcripts: {len(orig['transcript'])} scenarios, {steps} calls")
    return 0


if __name__ == "__main__":
    if "--child" in sys.argv:
        child()
    else:
        sys.exit(main())
