#!/usr/bin/env python
"""Differential check for the C08 twin refactoring.

Runs the same seeded scenario generator against the pristine tree (/repo)
and the refactored tree (/tmp/wtU-C08) in two separate subprocesses,
records everything observable (bytes received by registered writers,
return values, exception type names and causes, formatter / builder
state) as a JSON transcript and asserts that both are identical.

Usage:  python equiv.py            (driver, exits 0 when identical)
        python equiv.py --child    (internal: prints a transcript)
"""

import json
import os
import subprocess
import sys

TREES = {"base": "/repo", "twin": "/tmp/wtU-C08"}
SEED = 80808
N_FORMATTER = 400
N_SESSIONS = 60
OPS_PER_SESSION = 40


# ---------------------------------------------------------------------
# Child: build the transcript with whatever gscrib is on PYTHONPATH
# ---------------------------------------------------------------------

def child():
    import logging
    import random
    import math

    import numpy as np

    import gscrib
    from gscrib import GCodeBuilder, GCodeCore
    from gscrib.excepts import (
        GCodeError, DeviceError, DeviceWriteError, GscribError,
        ToolStateError,
    )
    from gscrib.formatters import DefaultFormatter
    from gscrib.geometry import Point
    from gscrib.params import ParamsDict
    from gscrib.writers import BaseWriter

    logging.disable(logging.CRITICAL)

    expected = os.environ["EQUIV_TREE"]
    assert os.path.realpath(gscrib.__file__).startswith(
        os.path.realpath(expected) + os.sep), (gscrib.__file__, expected)

    rng = random.Random(SEED)
    out = []

    def show(value):
        """Stable, type-aware rendering of any observable value."""

        if isinstance(value, (bytes, bytearray)):
            return "bytes:" + value.hex()
        if isinstance(value, tuple):
            return "(" + ", ".join(show(v) for v in value) + ")"
        if isinstance(value, list):
            return "[" + ", ".join(show(v) for v in value) + "]"
        if isinstance(value, dict):
            items = ", ".join(
                f"{show(k)}: {show(v)}" for k, v in value.items())
            return f"{type(value).__name__}{{{items}}}"
        if isinstance(value, Point):
            return f"Point({show(value.x)}, {show(value.y)}, {show(value.z)})"
        if isinstance(value, (float, np.floating)):
            return f"{type(value).__name__}:{float(value).hex()}" \
                if math.isfinite(float(value)) else \
                f"{type(value).__name__}:{float(value)!r}"
        return f"{type(value).__name__}:{value!r}"

    def exc_name(e):
        cause = e.__cause__
        text = type(e).__name__
        if cause is not None:
            text += f" <- {type(cause).__name__}"
        return text

    def attempt(label, func, *args, **kwargs):
        try:
            result = func(*args, **kwargs)
            out.append(f"{label} -> {show(result)}")
        except BaseException as e:  # noqa: transcript everything
            out.append(f"{label} !! {exc_name(e)}")

    # -- input pools ---------------------------------------------------

    texts = [
        "", " ", "hello", "a (b) c", "x ) y ) z", "line1\nline2",
        "cr\rlf\r\nend", "tab\there", "brace {0} {} {name}", "}{", "{",
        "quote \" and ' mix", "star */ end /* open", "]>}", "  padded  ",
        "unicode é中 sep para", "\x0b\x0c\x1c\x1d\x1e\x85",
        ";", ";;", "%", "trailing\n", "\n", "back\\slash", "G1 X10",
        "nul\x00byte", "\ud800lone", "emoji \U0001f600", ")" * 5,
        "*/*/", "'''", '"""',
    ]

    symbols = [
        ";", "(", "[", "{", "<", '"', "'", "/*", "//", "#", "%", " ; ",
        " ( ", "((", "(;", "", " ", "\t", "*/", ")", "{}", "{0}", ";{",
        "/* ", "\n(", "--", "REM", "é", "( (", "'\"",
    ]

    endings = ["os", "\\n", "\\r\\n", "\n", "\r\n", "", ";\\n", "\\x0a",
               "\\", "\\x", "\\u00e9\\n", "é", "\\t\\n", "os "]

    def number(r):
        kind = r.randrange(16)
        if kind == 0:
            return r.choice([0, 0.0, -0.0, 1, -1, 10, 1e15, -1e15, 5e-324,
                             2.5, 0.5, 1.5, -2.5, 0.125, 1e-7, 123456.789])
        if kind == 1:
            return r.choice([float("nan"), float("inf"), float("-inf")])
        if kind == 2:
            return r.choice([np.float64(1.25), np.float32(0.1), np.int64(7),
                             np.float64("nan"), np.int32(-3), np.float64(-0.0),
                             np.float16(2.5), np.uint8(200)])
        if kind == 3:
            return r.randrange(-10**6, 10**6)
        if kind == 4:
            return r.choice([True, False])
        if kind == 5:
            return round(r.uniform(-100, 100), r.randrange(0, 7)) + \
                5 * 10.0 ** -r.randrange(1, 8)
        if kind == 6:
            return r.uniform(-1, 1) * 10.0 ** r.randrange(-12, 16)
        return round(r.uniform(-500, 500), r.randrange(0, 6))

    def junk(r):
        return r.choice([None, "text", "", [1], (1, 2), {"a": 1}, 1 + 2j,
                         b"raw", object, float("nan")])

    class Weird:
        def __init__(self, text, fail=False):
            self.text, self.fail = text, fail

        def __str__(self):
            if self.fail:
                raise KeyError("no str")
            return self.text

    # -- writers -------------------------------------------------------

    class Recorder(BaseWriter):
        """In-process fake device: stores every received chunk."""

        def __init__(self, name, plan=None):
            self.name = name
            self.plan = plan or {}
            self.calls = 0
            self.chunks = []

        def connect(self):
            return self

        def disconnect(self, wait=True):
            out.append(f"  [{self.name}] disconnect({wait})")

        def flush(self):
            out.append(f"  [{self.name}] flush")

        def write(self, statement):
            self.calls += 1
            out.append(f"  [{self.name}] write {show(statement)}")
            error = self.plan.get(self.calls)
            if error is not None:
                out.append(f"  [{self.name}] raising {error.__name__}")
                raise error("planned failure")
            self.chunks.append(statement)

        def __repr__(self):
            return f"<Recorder {self.name}>"

    failures = [DeviceError, DeviceWriteError, GCodeError, ToolStateError,
                GscribError, RuntimeError, OSError, ValueError, KeyError,
                UnicodeError, KeyboardInterrupt, StopIteration]

    # -- part 1: formatter helpers directly ----------------------------

    out.append("## formatter")

    def fmt_state(f):
        return (f"template={show(f._comment_template)} "
                f"ending={show(f._comment_ending)} "
                f"eol={show(f._line_endings)} places={show(f._decimal_places)}")

    for i in range(N_FORMATTER):
        f = DefaultFormatter()
        out.append(f"# formatter case {i}")

        for _ in range(rng.randrange(1, 5)):
            op = rng.randrange(8)
            if op == 0:
                s = rng.choice(symbols) if rng.random() < 0.9 else junk(rng)
                attempt(f"set_comment_symbols({show(s)})",
                        f.set_comment_symbols, s)
            elif op == 1:
                s = rng.choice(symbols) if rng.random() < 0.9 else junk(rng)
                attempt(f"_to_comment_template({show(s)})",
                        f._to_comment_template, s)
            elif op == 2:
                t = rng.choice(texts) if rng.random() < 0.9 else junk(rng)
                attempt(f"comment({show(t)})", f.comment, t)
            elif op == 3:
                t = rng.choice(texts) if rng.random() < 0.9 else junk(rng)
                attempt(f"_sanitize_comment({show(t)})",
                        f._sanitize_comment, t)
            elif op == 4:
                e = rng.choice(endings) if rng.random() < 0.9 else junk(rng)
                attempt(f"set_line_endings({show(e)})", f.set_line_endings, e)
            elif op == 5:
                t = rng.choice(texts) + rng.choice(["", " ", "\n", "\t "])
                attempt(f"line({show(t)})", f.line, t)
            elif op == 6:
                params = {rng.choice("XYZxyzFSEPab"): number(rng)
                          for _ in range(rng.randrange(0, 4))}
                c = rng.choice(texts + [None, None])
                attempt(f"command(G1, {show(params)}, {show(c)})",
                        f.command, "G1", params, c)
            else:
                p = rng.choice([0, 1, 3, 12, -1, 5])
                attempt(f"set_decimal_places({p})", f.set_decimal_places, p)
            out.append("  " + fmt_state(f))

        # A formatter whose private slot was never initialised
        if i % 50 == 0:
            bare = DefaultFormatter.__new__(DefaultFormatter)
            attempt("bare._sanitize_comment(text)",
                    bare._sanitize_comment, "a\nb")
            attempt("bare._sanitize_comment(None)",
                    bare._sanitize_comment, None)
            attempt("bare._to_comment_template('(')",
                    bare._to_comment_template, "(")
            attempt("bare._comment_ending", lambda: bare._comment_ending)

    # -- part 2: builder / core sessions -------------------------------

    def snapshot(g, recorders):
        parts = [
            f"pos={show(g.position)}",
            f"axes={show(g._current_axes)}",
            f"params={show(dict(g._current_params))}",
            f"mode={show(g._distance_mode)}",
            f"fmt=({fmt_state(g.format)})",
        ]
        state = getattr(g, "state", None)
        if state is not None:
            parts.append(f"st.pos={show(state.position)}")
            parts.append(f"st.feed={show(state.feed_rate)}")
            parts.append(f"st.power={show(state.tool_power)}")
            parts.append(f"st.halt={show(state.halt_mode)}")
            parts.append(f"st.dist={show(state.distance_mode)}")
        for r in recorders:
            parts.append(f"{r.name}:{len(r.chunks)}/{r.calls}")
        return "  state " + " ".join(parts)

    def hook_add_e(origin, target, params, state):
        params.update(E=1.5)
        return params

    def hook_plain_dict(origin, target, params, state):
        return {"F": 1200, "x": 99, "Q": "text"}

    def hook_none(origin, target, params, state):
        return None

    def hook_raises(origin, target, params, state):
        raise ZeroDivisionError("hook")

    def hook_nan(origin, target, params, state):
        params["E"] = float("nan")
        return params

    hooks = [hook_add_e, hook_plain_dict, hook_none, hook_raises, hook_nan]

    def move_kwargs(r):
        kwargs = {}
        for axis in "xyz":
            if r.random() < 0.6:
                kwargs[r.choice([axis, axis.upper()])] = number(r)
        for _ in range(r.randrange(0, 3)):
            name = r.choice(["F", "f", "S", "E", "e", "A", "P", "I", "comment"])
            if name == "comment":
                kwargs[name] = r.choice(texts + [None]) \
                    if r.random() < 0.9 else junk(r)
            else:
                kwargs[name] = number(r) if r.random() < 0.85 else junk(r)
        return kwargs

    def point_arg(r):
        kind = r.randrange(6)
        if kind == 0:
            return Point(number(r), number(r), number(r))
        if kind == 1:
            return (number(r), number(r))
        if kind == 2:
            return [number(r), None, number(r)]
        if kind == 3:
            return (number(r), number(r), number(r), number(r))
        if kind == 4:
            return Point(None, number(r), None)
        return junk(r)

    out.append("## sessions")

    for s in range(N_SESSIONS):
        out.append(f"# session {s}")
        cls = GCodeBuilder if rng.random() < 0.75 else GCodeCore
        config = {
            "decimal_places": rng.choice([0, 1, 2, 3, 5, 8, 12]),
            "comment_symbols": rng.choice(
                [";", "(", "[", "{", "<", '"', "'", "/*", "//", "#", " ( "]),
            "line_endings": rng.choice(["os", "\\n", "\\r\\n", "\n", ";\\n"]),
            "x_axis": rng.choice(["X", "a", "U", " x "]),
            "y_axis": rng.choice(["Y", "b", "V"]),
            "z_axis": rng.choice(["Z", "c", "W"]),
        }
        out.append(f"  cls={cls.__name__} config={show(config)}")

        try:
            g = cls(**config)
        except BaseException as e:
            out.append(f"  construct !! {exc_name(e)}")
            continue

        recorders = []
        for w in range(rng.randrange(1, 4)):
            plan = {}
            if rng.random() < 0.5:
                for _ in range(rng.randrange(1, 4)):
                    plan[rng.randrange(1, 30)] = rng.choice(failures)
            rec = Recorder(f"w{w}", plan)
            recorders.append(rec)
            g.add_writer(rec)

        for _ in range(OPS_PER_SESSION):
            op = rng.randrange(20)

            if op <= 3:
                name = rng.choice(
                    ["move", "rapid", "move_absolute", "rapid_absolute"])
                kwargs = move_kwargs(rng)
                point = point_arg(rng) if rng.random() < 0.3 else None
                label = f"{name}({show(point)}, {show(kwargs)})"
                if point is None:
                    attempt(label, getattr(g, name), **kwargs)
                else:
                    attempt(label, getattr(g, name), point, **kwargs)
            elif op == 4:
                name = rng.choice(["_prepare_move", "_prepare_rapid"])
                point = rng.choice([
                    Point(number(rng), number(rng), None),
                    Point(None, None, None),
                    Point(1, 2, 3), None, (1, 2, 3), "xyz",
                ])
                params = rng.choice([
                    ParamsDict(F=number(rng)), ParamsDict(), {"f": 10, "F": 20},
                    ParamsDict(x=5, E=number(rng)), None, [("F", 1)], "F",
                    {1: 2}, {"Q": "text", "R": None},
                ])
                comment = rng.choice([None, "", " ", "note )", 5] + texts[:8])
                label = f"{name}({show(point)}, {show(params)}, {show(comment)})"
                if rng.random() < 0.5:
                    attempt(label, getattr(g, name), point, params, comment)
                else:
                    attempt(label + " [no comment arg]",
                            getattr(g, name), point, params)
                if isinstance(params, dict):
                    out.append(f"  params after: {show(params)}")
            elif op <= 7:
                message = rng.choice(texts) if rng.random() < 0.9 else junk(rng)
                n = rng.choice([0, 0, 1, 2, 3])
                args = tuple(
                    rng.choice([
                        number(rng), rng.choice(texts), None, (), [], {},
                        Weird("weird )\nline"), Weird("", fail=True),
                        Point(1, None, 2), b"bytes",
                    ]) for _ in range(n))
                label = f"comment({show(message)}, *{len(args)} args)"
                for a in args:
                    if not isinstance(a, Weird):
                        label += " " + show(a)
                    else:
                        label += f" Weird({a.text!r},{a.fail})"
                attempt(label, g.comment, message, *args)
            elif op == 8:
                key = rng.choice(["tool", "a1", "1a", "", "a b", "é"])
                value = rng.choice(texts)
                attempt(f"annotate({show(key)}, {show(value)})",
                        g.annotate, key, value)
            elif op <= 10:
                stmt = rng.choice(texts + ["G1 X1  ", "M2\n", "G0 Z5 ; up"]) \
                    if rng.random() < 0.9 else junk(rng)
                attempt(f"write({show(stmt)})", g.write, stmt)
            elif op == 11:
                sym = rng.choice(symbols)
                attempt(f"format.set_comment_symbols({show(sym)})",
                        g.format.set_comment_symbols, sym)
            elif op == 12:
                mode = rng.choice(["absolute", "relative", "bogus"])
                attempt(f"set_distance_mode({mode})", g.set_distance_mode, mode)
            elif op == 13 and isinstance(g, GCodeBuilder):
                hook = rng.choice(hooks)
                if rng.random() < 0.6:
                    attempt(f"add_hook({hook.__name__})", g.add_hook, hook)
                else:
                    attempt(f"remove_hook({hook.__name__})",
                            g.remove_hook, hook)
            elif op == 14 and isinstance(g, GCodeBuilder):
                choice = rng.randrange(8)
                if choice == 0:
                    attempt("set_feed_rate", g.set_feed_rate, number(rng))
                elif choice == 1:
                    attempt("tool_on", g.tool_on,
                            rng.choice(["cw", "ccw", "zz"]), number(rng))
                elif choice == 2:
                    attempt("tool_off", g.tool_off)
                elif choice == 3:
                    attempt("sleep", g.sleep, number(rng))
                elif choice == 4:
                    attempt("set_fan_speed", g.set_fan_speed, number(rng))
                elif choice == 5:
                    attempt("set_bounds", g.set_bounds, "axes",
                            Point(-50, -50, -50), Point(400, 400, 400))
                elif choice == 6:
                    attempt("halt", g.halt, rng.choice(
                        ["pause", "wait-for-bed", "end-with-reset"]),
                        S=number(rng))
                else:
                    attempt("set_axis", g.set_axis, **{
                        k: v for k, v in move_kwargs(rng).items()
                        if k.lower() in "xyz"})
            elif op == 15:
                t = rng.choice(["translate", "scale", "rotate"])
                if t == "translate":
                    attempt("translate", g.transform.translate,
                            rng.randrange(-5, 6), rng.randrange(-5, 6), 0)
                elif t == "scale":
                    attempt("scale", g.transform.scale, rng.choice([1, 2, 0.5]))
                else:
                    attempt("rotate", g.transform.rotate,
                            rng.choice([0, 90, 45, -30]), "z")
            elif op == 16:
                attempt("rename_axis", g.rename_axis,
                        rng.choice(["x", "y", "z", "q"]),
                        rng.choice(["A", "u", " ", "XX"]))
            elif op == 17:
                attempt("flush", g.flush)
            elif op == 18:
                e = rng.choice(endings)
                attempt(f"format.set_line_endings({show(e)})",
                        g.format.set_line_endings, e)
            else:
                p = rng.choice([0, 2, 4, 12, -1])
                attempt(f"format.set_decimal_places({p})",
                        g.format.set_decimal_places, p)

            out.append(snapshot(g, recorders))

        attempt("teardown", g.teardown, rng.choice([True, False]))
        for rec in recorders:
            out.append(f"  [{rec.name}] total "
                       f"{show(b''.join(rec.chunks))}")

    print(json.dumps(out))


# ---------------------------------------------------------------------
# Driver
# ---------------------------------------------------------------------

def run(tree):
    env = {
        "PATH": os.environ.get("PATH", "/usr/bin:/bin"),
        "PYTHONPATH": tree,
        "PYTHONHASHSEED": "0",
        "PYTHONDONTWRITEBYTECODE": "1",
        "EQUIV_TREE": tree,
    }
    proc = subprocess.run(
        [sys.executable, os.path.abspath(__file__), "--child"],
        env=env, cwd="/tmp", capture_output=True, text=True, timeout=600,
        stdin=subprocess.DEVNULL,
    )
    if proc.returncode != 0:
        sys.stderr.write(proc.stderr[-4000:])
        raise SystemExit(f"child for {tree} failed ({proc.returncode})")
    return json.loads(proc.stdout)


def main():
    base = run(TREES["base"])
    twin = run(TREES["twin"])

    n_exc = sum(1 for line in base if " !! " in line)
    n_ok = sum(1 for line in base if " -> " in line)
    n_writes = sum(1 for line in base if "] write " in line)
    print(f"transcript lines: base={len(base)} twin={len(twin)}; "
          f"calls ok={n_ok} raised={n_exc} writer chunks={n_writes}")

    for i, (a, b) in enumerate(zip(base, twin)):
        if a != b:
            print(f"FIRST DIFFERENCE at line {i}:")
            for line in base[max(0, i - 5):i]:
                print("   ", line)
            print("  base:", a)
            print("  twin:", b)
            raise SystemExit(1)

    assert len(base) == len(twin), "transcripts differ in length"
    assert base == twin
    assert n_ok > 500 and n_exc > 100 and n_writes > 500, "weak coverage"
    print("IDENTICAL")


if __name__ == "__main__":
    if "--child" in sys.argv:
        child()
    else:
        main()
