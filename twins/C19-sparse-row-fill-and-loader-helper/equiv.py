#!/usr/bin/env python
"""Differential check for the C19 refactoring of gscrib/heightmaps/sparse_heightmap.py.

Driver mode (default): creates seeded data files, runs this same script in
worker mode in two subprocesses (PYTHONPATH=/repo and PYTHONPATH=/tmp/wtU-C19),
and asserts that both transcripts are identical. Exits 0 when they are.

Worker mode (--worker DATA_DIR): imports gscrib from PYTHONPATH, drives
SparseHeightMap (from_path, constructor, setters, get_depth_at, sample_path,
_interpolate_line, _filter_points, save_image/_to_image) plus a few sanity
calls on the raster and flat maps, and prints a JSON transcript.
"""

import json
import os
import random
import re
import subprocess
import sys

HERE = os.path.dirname(os.path.abspath(__file__))
DATA_DIR = os.path.join(HERE, "equiv_data")
TREES = {"orig": "/repo", "refactored": "/tmp/wtU-C19"}
PYTHON = "/venv/bin/python"
SEED = 190019


# ---------------------------------------------------------------------------
# Data files (written once by the driver, read by both workers)
# ---------------------------------------------------------------------------

def write_data_files():
    os.makedirs(DATA_DIR, exist_ok=True)
    rng = random.Random(SEED)

    def rows(n, cols=3, lo=-50.0, hi=50.0):
        return [[round(rng.uniform(lo, hi), 3) for _ in range(cols)]
                for _ in range(n)]

    def dump(name, data, sep):
        with open(os.path.join(DATA_DIR, name), "w") as f:
            for row in data:
                f.write(sep.join(repr(v) for v in row) + "\n")

    grid = [[float(x), float(y), round(rng.uniform(0, 10), 3)]
            for x in range(0, 50, 10) for y in range(0, 50, 10)]

    dump("grid.csv", grid, ",")
    dump("grid.tsv", grid, "\t")
    dump("GRID_UPPER.TSV", grid, "\t")
    dump("grid_mixed.TsV", grid, "\t")
    dump("random12.csv", rows(12), ",")
    dump("random40.csv", rows(40), ",")
    dump("random40.tsv", rows(40), "\t")
    dump("four.csv", [[0, 0, 1.5], [10, 0, 2.5], [0, 10, 3.5], [10, 10, 0.5]], ",")
    dump("three.csv", rows(3), ",")
    dump("one_row3.csv", rows(1), ",")
    dump("one_row4.csv", rows(1, cols=4), ",")
    dump("one_row7.csv", rows(1, cols=7), ",")
    dump("two_cols.csv", rows(8, cols=2), ",")
    dump("four_cols.csv", rows(8, cols=4), ",")
    dump("one_col.csv", rows(8, cols=1), ",")
    dump("tabs_named.csv", rows(8), "\t")
    dump("commas_named.tsv", rows(8), ",")
    dump("collinear.csv", [[i, i, i * 0.5] for i in range(6)], ",")
    dump("duplicate.csv", [[1, 1, 1]] * 6, ",")
    dump("ints.csv", [[i % 4, i // 4, i] for i in range(16)], ",")

    with open(os.path.join(DATA_DIR, "empty.csv"), "w") as f:
        f.write("")
    with open(os.path.join(DATA_DIR, "text.csv"), "w") as f:
        f.write("x,y,z\n1,2,3\n4,5,6\n7,8,9\n1,5,2\n")
    with open(os.path.join(DATA_DIR, "ragged.csv"), "w") as f:
        f.write("1,2,3\n4,5\n7,8,9\n1,5,2\n")
    with open(os.path.join(DATA_DIR, "comments.csv"), "w") as f:
        f.write("# header\n0,0,1\n10,0,2\n0,10,3\n10,10,4\n5,5,9\n")
    with open(os.path.join(DATA_DIR, "nan.csv"), "w") as f:
        f.write("0,0,1\n10,0,nan\n0,10,3\n10,10,4\n5,5,9\n")
    os.makedirs(os.path.join(DATA_DIR, "adir.csv"), exist_ok=True)


# ---------------------------------------------------------------------------
# Worker
# ---------------------------------------------------------------------------

def worker(data_dir):
    import pathlib
    import warnings

    import numpy

    import gscrib
    from gscrib.heightmaps import (
        FlatHeightMap, RasterHeightMap, SparseHeightMap
    )

    rng = random.Random(SEED)
    transcript = []

    def enc(value):
        if isinstance(value, numpy.ndarray):
            return {
                "ndarray": str(value.dtype),
                "shape": list(value.shape),
                "data": [enc(v) for v in value.ravel().tolist()],
            }
        if isinstance(value, (bool, numpy.bool_)):
            return {"bool": bool(value), "t": type(value).__name__}
        if isinstance(value, (float, numpy.floating)):
            return {"f": float(value).hex(), "t": type(value).__name__}
        if isinstance(value, (int, numpy.integer)):
            return {"i": int(value), "t": type(value).__name__}
        if isinstance(value, (list, tuple)):
            return {type(value).__name__: [enc(v) for v in value]}
        if value is None or isinstance(value, str):
            return value
        return {"repr": repr(value), "t": type(value).__name__}

    def state(hmap):
        if hmap is None:
            return None
        out = {"cls": type(hmap).__name__}
        for name in ("_scale_z", "_tolerance"):
            out[name] = enc(getattr(hmap, name, "<unset>"))
        out["has_resolution"] = hasattr(hmap, "_resolution")
        interp = getattr(hmap, "_interpolator", None)
        if hasattr(interp, "points"):
            out["points"] = enc(numpy.asarray(interp.points))
            out["values"] = enc(numpy.asarray(interp.values))
        return out

    def scrub(message):
        # Qhull stamps its error reports with a clock-seeded "run-id", which
        # differs between any two processes (also of the very same tree).
        return re.sub(r"run-id \d+", "run-id N", message)

    def record(label, func, hmap=None):
        entry = {"label": label}
        with warnings.catch_warnings(record=True) as caught:
            warnings.simplefilter("always")
            try:
                entry["result"] = enc(func())
            except BaseException as e:  # noqa - everything is observable
                cause = e.__cause__
                entry["exc"] = type(e).__name__
                entry["msg"] = scrub(str(e))
                entry["cause"] = type(cause).__name__ if cause is not None else None
                entry["cause_msg"] = scrub(str(cause)) if cause is not None else None
        entry["warnings"] = [w.category.__name__ for w in caught]
        entry["state"] = state(hmap)
        transcript.append(entry)
        return entry

    # -- from_path ---------------------------------------------------------

    loaded = {}

    def load(path, cls=SparseHeightMap):
        hmap = cls.from_path(path)
        loaded[str(path)] = hmap
        return state(hmap)

    names = sorted(os.listdir(data_dir)) + ["missing.csv", "missing.tsv"]
    for name in names:
        record(f"from_path {name}", lambda: load(os.path.join(data_dir, name)))

    class SubMap(SparseHeightMap):
        __slots__ = ()

    record("from_path subclass", lambda: load(
        os.path.join(data_dir, "grid.csv"), SubMap))
    record("from_path subclass type", lambda: type(SubMap.from_path(
        os.path.join(data_dir, "grid.tsv"))).__name__)

    class LoudStr(str):
        def lower(self):
            raise RuntimeError("lower exploded")

    class Base(BaseException):
        pass

    class AbortStr(str):
        def lower(self):
            raise Base("not an Exception")

    weird_paths = [
        None, 12, 3.5, b"grid.csv", "", " ", "x.tsv", ".tsv", ".csv",
        pathlib.Path(data_dir) / "grid.csv", ["grid.csv"],
        LoudStr(os.path.join(data_dir, "grid.csv")),
        AbortStr(os.path.join(data_dir, "grid.csv")),
        os.path.join(data_dir, "grid.csv") + "\x00",
    ]
    for i, path in enumerate(weird_paths):
        record(f"from_path weird {i} {type(path).__name__}",
               lambda: load(path))

    record("has helper is private", lambda: sorted(
        n for n in dir(SparseHeightMap) if not n.startswith("_")))

    # -- constructor -------------------------------------------------------

    def build(data):
        hmap = SparseHeightMap(data)
        return hmap

    ctor_inputs = {
        "rand30": numpy.array([[rng.uniform(-20, 20), rng.uniform(-20, 20),
                                rng.uniform(-5, 5)] for _ in range(30)]),
        "ints": numpy.array([[x, y, x * y] for x in range(4) for y in range(4)]),
        "float32": numpy.array([[x, y, x - y] for x in range(4)
                                for y in range(3)], dtype=numpy.float32),
        "empty03": numpy.empty((0, 3)),
        "oned": numpy.arange(12.0),
        "three_pts": numpy.array([[0, 0, 1], [1, 0, 2], [0, 1, 3.0]]),
        "collinear": numpy.array([[i, 2 * i, 1.0] for i in range(5)]),
        "five_cols": numpy.array([[rng.uniform(0, 9) for _ in range(5)]
                                  for _ in range(9)]),
        "two_cols": numpy.array([[rng.uniform(0, 9) for _ in range(2)]
                                 for _ in range(9)]),
        "list": [[0, 0, 1], [1, 0, 2], [0, 1, 3], [1, 1, 4]],
        "none": None,
        "nan_z": numpy.array([[0, 0, 1], [4, 0, numpy.nan], [0, 4, 3],
                              [4, 4, 2], [2, 2, 8.0]]),
    }
    built = {}
    for name, data in ctor_inputs.items():
        def make(data=data, name=name):
            built[name] = build(data)
            return state(built[name])
        record(f"ctor {name}", make)

    maps = {}
    for key, hmap in loaded.items():
        maps["file:" + os.path.basename(key)] = hmap
    for key, hmap in built.items():
        maps["ctor:" + key] = hmap
    map_names = sorted(maps)
    record("usable maps", lambda: map_names)

    # -- setters -----------------------------------------------------------

    setter_values = [
        1.0, 2.5, 0.001, 1e-9, 1e9, 0.0, -0.0, -1.0, float("nan"),
        float("inf"), float("-inf"), 1, 0, -3, True, "2", None,
        numpy.float64(0.75), numpy.float32(0.5), numpy.int64(2), [1.0],
    ]
    probe = maps["file:grid.csv"]
    for value in setter_values:
        record(f"set_scale {value!r}", lambda: probe.set_scale(value), probe)
    probe.set_scale(1.0)
    for value in setter_values:
        record(f"set_tolerance {value!r}",
               lambda: probe.set_tolerance(value), probe)
    probe.set_tolerance(0.378)

    # -- get_depth_at ------------------------------------------------------

    def span(hmap):
        pts = numpy.asarray(hmap._interpolator.points)
        return (pts[:, 0].min(), pts[:, 0].max(),
                pts[:, 1].min(), pts[:, 1].max())

    def rand_xy(hmap, margin=0.3):
        x0, x1, y0, y1 = span(hmap)
        dx, dy = (x1 - x0) * margin + 1, (y1 - y0) * margin + 1
        return (rng.uniform(x0 - dx, x1 + dx), rng.uniform(y0 - dy, y1 + dy))

    odd_coords = [
        (float("nan"), 1.0), (1.0, float("nan")), (float("inf"), 0.0),
        (0.0, float("-inf")), (0, 0), (numpy.float64(3.0), numpy.int32(4)),
        (numpy.float32(2.5), 2), (True, False), ("1", 2), (None, 1),
        (1 + 2j, 0), ([1], 2), (-0.0, -0.0), (1e300, 1e300),
    ]

    for name in map_names:
        hmap = maps[name]
        for scale in (1.0, 3.25):
            hmap.set_scale(scale)
            pts = numpy.asarray(hmap._interpolator.points)
            for k in range(min(len(pts), 6)):
                x, y = pts[k]
                record(f"depth stored {name} s={scale} #{k}",
                       lambda: hmap.get_depth_at(x, y))
                record(f"depth stored-py {name} s={scale} #{k}",
                       lambda: hmap.get_depth_at(float(x), float(y)))
            for k in range(6):
                x, y = rand_xy(hmap)
                record(f"depth rand {name} s={scale} #{k}",
                       lambda: hmap.get_depth_at(x, y))
        hmap.set_scale(1.0)

    for i, (x, y) in enumerate(odd_coords):
        record(f"depth odd {i}", lambda: probe.get_depth_at(x, y), probe)

    # -- sample_path -------------------------------------------------------

    tolerances = [0.378, 0.05, 1.0, 7.5, 1e6, float("inf"), float("nan"), 0.0]

    for name in map_names:
        hmap = maps[name]
        x0, x1, y0, y1 = span(hmap)
        fixed_lines = [
            (x0, y0, x1, y1), (x1, y1, x0, y0), (x0, y1, x1, y0),
            (x0, y0, x0, y0), (x0 - 5, y0 - 5, x0 - 1, y0 - 1),
            (x0 - 3, (y0 + y1) / 2, x1 + 3, (y0 + y1) / 2),
            ((x0 + x1) / 2, y0, (x0 + x1) / 2, y1),
        ]
        for tol in tolerances:
            for scale in (1.0, 4.0):
                hmap.set_tolerance(tol)
                hmap.set_scale(scale)
                lines = list(fixed_lines[:3 if tol != 0.378 else 7])
                for _ in range(2):
                    lines.append(rand_xy(hmap) + rand_xy(hmap))
                for j, line in enumerate(lines):
                    # keep the work bounded for tiny tolerances
                    length = numpy.hypot(line[2] - line[0], line[3] - line[1])
                    if tol > 0 and length / tol > 5000:
                        continue
                    record(f"sample {name} tol={tol} s={scale} #{j}",
                           lambda: hmap.sample_path(line), hmap)
                    record(f"sample-list {name} tol={tol} s={scale} #{j}",
                           lambda: hmap.sample_path([float(v) for v in line]),
                           hmap)
        hmap.set_tolerance(0.378)
        hmap.set_scale(1.0)

    bad_lines = [
        (), (1, 2, 3), (1, 2, 3, 4, 5), [[1, 2], [3, 4]], "abcd", "1234",
        ("a", "b", "c", "d"), None, 5, (None, 1, 2, 3),
        (float("nan"), 0, 1, 1), (0, 0, float("inf"), 1),
        (0, 0, float("nan"), float("nan")), (float("-inf"), 0, float("inf"), 0),
        numpy.array([0, 0, 40, 40]), numpy.array([[0, 0, 40, 40]]),
        numpy.array([0, 0, 40, 40], dtype=numpy.int8), (0, 0, 40, 40),
        (True, False, True, True), ("0", "0", "40", "40"),
        (1e300, 1e300, -1e300, -1e300), (0, 0, 1e-300, 1e-300),
        range(4), {1, 2, 3, 4}, {"a": 1}, (1 + 1j, 0, 0, 0),
        numpy.array([0.5, 0.5, 30.25, 17.75], dtype=numpy.float32),
    ]
    for i, line in enumerate(bad_lines):
        for tol in (0.378, 2.0, 0.0, float("nan")):
            probe.set_tolerance(tol)
            record(f"sample odd {i} tol={tol}",
                   lambda: probe.sample_path(line), probe)
    probe.set_tolerance(0.378)

    # -- private helpers driven directly ------------------------------------

    for name in ("file:grid.csv", "file:random40.csv", "ctor:rand30"):
        hmap = maps[name]
        for tol in (0.378, 0.1, 3.0, 0.0, float("nan"), float("inf")):
            hmap.set_tolerance(tol)
            for j in range(4):
                line = numpy.array(rand_xy(hmap) + rand_xy(hmap))
                if tol > 0 and numpy.hypot(*(line[2:] - line[:2])) / tol > 5000:
                    continue
                record(f"_interpolate_line {name} tol={tol} #{j}",
                       lambda: hmap._interpolate_line(line), hmap)
            record(f"_interpolate_line degenerate {name} tol={tol}",
                   lambda: hmap._interpolate_line(numpy.zeros(4)), hmap)
            record(f"_interpolate_line list {name} tol={tol}",
                   lambda: hmap._interpolate_line([0, 0, 9, 9]), hmap)
            record(f"_interpolate_line short {name} tol={tol}",
                   lambda: hmap._interpolate_line(numpy.zeros(3)), hmap)
            record(f"_interpolate_line str {name} tol={tol}",
                   lambda: hmap._interpolate_line(("a", 0, 1, 1)), hmap)
        hmap.set_tolerance(0.378)

    def rand_points(n, kind):
        zs = []
        z = rng.uniform(-2, 2)
        for _ in range(n):
            if kind == "walk":
                z += rng.uniform(-0.4, 0.4)
            elif kind == "flat":
                z = 1.25
            elif kind == "steps":
                z = float(rng.choice([0, 0, 0, 1, 2]))
            elif kind == "nan":
                z = rng.choice([float("nan"), 0.0, 1.0, 2.0])
            elif kind == "inf":
                z = rng.choice([float("inf"), float("-inf"), 0.0, 1.0])
            zs.append(z)
        return numpy.array([[i * 0.5, i * -0.25, zs[i]] for i in range(n)])

    filter_tols = [0.378, 0.0, -1.0, 0.1, 1.0, 5.0, float("nan"),
                   float("inf"), numpy.float64(0.5), 1, None, "x"]
    for kind in ("walk", "flat", "steps", "nan", "inf"):
        for n in (1, 2, 3, 10, 57):
            points = rand_points(n, kind)
            for tol in filter_tols:
                record(f"_filter_points {kind} n={n} tol={tol!r}",
                       lambda: probe._filter_points(points, tol))
            record(f"_filter_points unmutated {kind} n={n}", lambda: points)

    odd_points = {
        "empty": numpy.empty((0, 3)),
        "empty_list": [],
        "oned": numpy.arange(3.0),
        "two_cols": numpy.zeros((4, 2)),
        "four_cols": numpy.arange(20.0).reshape(5, 4),
        "list_rows": [[0, 0, 0.0], [1, 1, 0.2], [2, 2, 0.9], [3, 3, 1.0]],
        "tuple_rows": ((0, 0, 0.0), (1, 1, 2.0), (2, 2, 2.1)),
        "ints": numpy.arange(30).reshape(10, 3),
        "ends_equal": numpy.array([[0, 0, 1.0], [1, 1, 5.0], [0, 0, 1.0]]),
        "same_z_tail": numpy.array([[0, 0, 1.0], [1, 1, 5.0], [2, 2, 5.0]]),
        "none": None,
        "scalar": 3.0,
        "threed": numpy.zeros((2, 3, 3)),
    }
    for name, points in odd_points.items():
        for tol in (0.378, 0.0, 1.0, float("nan")):
            record(f"_filter_points odd {name} tol={tol}",
                   lambda: probe._filter_points(points, tol))

    # -- _to_image / save_image (untouched, shares the interpolator) --------

    for name in ("file:grid.csv", "file:four.csv", "ctor:rand30"):
        hmap = maps[name]
        record(f"_to_image {name}", lambda: hmap._to_image(7, 5), hmap)
    out_png = os.path.join(data_dir, "out_%s.png" % os.getpid())
    record("save_image ok", lambda: probe.save_image(out_png) or
           os.path.exists(out_png), probe)
    if os.path.exists(out_png):
        os.remove(out_png)
    record("save_image bad ext", lambda: probe.save_image(
        os.path.join(data_dir, "out.notanimage")), probe)

    # -- raster and flat maps (not modified; sanity) ------------------------

    image8 = numpy.array([[rng.randrange(256) for _ in range(9)]
                          for _ in range(7)], dtype=numpy.uint8)
    image16 = numpy.array([[rng.randrange(65536) for _ in range(6)]
                           for _ in range(8)], dtype=numpy.uint16)
    for label, image in (("u8", image8), ("u16", image16)):
        raster = RasterHeightMap(image)
        raster.set_scale(2.5)
        raster.set_tolerance(0.01)
        for k in range(10):
            x, y = rng.uniform(-2, 10), rng.uniform(-2, 10)
            record(f"raster depth {label} #{k}",
                   lambda: raster.get_depth_at(x, y))
        for k in range(6):
            line = [rng.uniform(-1, 9) for _ in range(4)]
            record(f"raster sample {label} #{k}",
                   lambda: raster.sample_path(line))
    flat = FlatHeightMap()
    record("flat sample", lambda: flat.sample_path((1, 2, 3, 4)))
    record("flat sample bad", lambda: flat.sample_path((1, 2, 3)))
    record("flat depth", lambda: flat.get_depth_at(1, 2))

    json.dump({"file": gscrib.__file__, "transcript": transcript}, sys.stdout)


# ---------------------------------------------------------------------------
# Driver
# ---------------------------------------------------------------------------

def run_worker(tree):
    env = dict(os.environ)
    env["PYTHONPATH"] = tree
    env["PYTHONHASHSEED"] = "0"
    env["PYTHONDONTWRITEBYTECODE"] = "1"
    proc = subprocess.run(
        [PYTHON, os.path.abspath(__file__), "--worker", DATA_DIR],
        env=env, cwd="/tmp", stdin=subprocess.DEVNULL,
        stdout=subprocess.PIPE, stderr=subprocess.PIPE, timeout=600,
    )
    if proc.returncode != 0:
        sys.stderr.write(proc.stderr.decode(errors="replace")[-4000:])
        raise SystemExit(f"worker for {tree} failed ({proc.returncode})")
    payload = json.loads(proc.stdout.decode())
    assert payload["file"].startswith(tree + "/"), (payload["file"], tree)
    return payload["transcript"]


def main():
    write_data_files()
    orig = run_worker(TREES["orig"])
    new = run_worker(TREES["refactored"])

    assert len(orig) == len(new), (len(orig), len(new))
    mismatches = [(a, b) for a, b in zip(orig, new) if a != b]
    for a, b in mismatches[:10]:
        print("MISMATCH", a["label"])
        print("   orig:", json.dumps(a)[:600])
        print("   new :", json.dumps(b)[:600])

    total = len(orig)
    raised = sum(1 for e in orig if "exc" in e)
    kinds = sorted({e["exc"] for e in orig if "exc" in e})
    warned = sum(1 for e in orig if e["warnings"])
    print(f"{total} recorded calls, {raised} raised ({', '.join(kinds)}), "
          f"{warned} with warnings")
    assert not mismatches, f"{len(mismatches)} mismatching records"
    print("EQUIVALENT: transcripts identical")


if __name__ == "__main__":
    if len(sys.argv) >= 3 and sys.argv[1] == "--worker":
        worker(sys.argv[2])
    else:
        main()
